"""T1 plug-in for the workbook facade (C09, C03, the WBNav family of C10): the rules of the loader / row / navigation
code of src/stingray/workbook.py and src/stingray/schema_instance.py -> coq/Gen/HeaderRowParams.v.

coq/Model/HeaderRow.v (and through it coq/Model/Workbook.v) is parameterised by the definitions emitted here, so an
edit of one of the rules below changes the model and the lemmas of coq/Proofs/HeaderRowP.v stop compiling.

The generated file has eight independent parts.  A part whose source shape is not recognised keeps the text it has in
the committed coq/Gen/HeaderRowParams.pinned (the run then relies on the correspondence check for that part) and the
header comment of the generated file says which parts came from the source.  Nothing is guessed: every statement of
every method read must match one of the listed shapes (typing.cast(T, x) is read as x, docstrings are skipped).

  heading_header  HeadingRowSchemaLoader.header
                    try: first = next(source) / except StopIteration: return None | raise X(...)
                    {"type": "object", "properties": {KEY: {kw: EXPR, ...} for n, name in enumerate(first[, start])}}
                    (returned directly or through one local name; or the same dict filled by a for loop over the
                    same enumerate)  ->  hdr_on_empty, hdr_enum_start, hdr_key, hdr_props
  loader_body     SchemaLoader.header = `return None`; SchemaLoader.body and the body() HeadingRowSchemaLoader
                    defines or inherits: `return source` | `yield from source` | a generator expression / for-if-yield
                    loop over source with ONE condition out of: any(row); any(c is not None and c != "" for c in row)
                    (also c not in ("", None)); row (also len(row), len(row) > 0)  ->  body_base, body_heading
  row_iter        Sheet.row_iter: one instance_iter(...) call stored in self.raw_instance_iter (or a local name);
                    json_schema = self.loader.header(IT); `if json_schema:` self.schema = SchemaMaker().from_json(json_schema)
                    (G_truthy; the assignment unguarded: G_always; `if not json_schema: return` first or `else: return`: G_stop);
                    for instance in self.loader.body(IT): self.row = Row(self, instance); yield self.row (or yield
                    Row(self, instance)), for every instance (B_source) or under ONE condition on the instance, written
                    `if COND:` around the two statements or `if not COND: continue` before them (B_filter; COND as for body()).
                    IT for body = the stored iterator (same) or a second instance_iter(...) call (fresh)
                    ->  ri_same_iterator, ri_guard, ri_rows
  binding         Sheet.__init__ installs SchemaLoader() and binds no schema; Sheet.set_schema = self.schema = schema,
                    optionally self.loader = SchemaLoader(), return self; Sheet.set_schema_loader = self.loader = loader,
                    return self  ->  set_schema_resets_loader
  wbnav           WBNav.name: subschema = self.schema.properties[name]; position by
                    `if ATTR in subschema.attributes: position = subschema.attributes[ATTR] else: position = FALLBACK`
                    (or the conditional expression)                                           -> PT_in
                    `position = subschema.attributes.get(ATTR) or FALLBACK` (or if get(ATTR):) -> PT_truthy
                    FALLBACK = list(self.schema.properties.keys()).index(name) (or list(self.schema.properties));
                    try: return WBNav(u, subschema, self.instance[position]) except IndexError: [log]
                    return WBNav(u, subschema, [None] | None) | raise; no try = raise.  WBNav.value = return self.instance;
                    CSVNav adds nothing  ->  nav_pos_test, nav_pos_attr, nav_absent
  dnav            DNav.name: [if self.schema.type != "object": raise TypeError(...)]; subschema = self.schema.properties[name];
                    value = self.instance[name] (DM_key_error) | self.instance.get(name) (DM_none);
                    return DNav(u, subschema, value).  DNav.value = return self.instance  ->  dnav_missing
  row_values      Row.name = return self.nav.name(name); Row.values = [self.nav.name(n).value() for n in <schema>.properties]
                    (true) | list(self.instance) (false)  ->  values_per_property
  external        ExternalSchemaLoader.load: the same dict shape over enumerate(self.sheet.row_iter()[, start]) with
                    row.name(K).value() as an expression; META_SCHEMA's properties with their integer keywords
                    ->  ext_enum_start, ext_key, ext_props, meta_properties

EXPR ::= the loop item | the enumerate counter | str(EXPR) | name_cleaner(EXPR) | "literal" | non-negative int literal
       | row.name("literal").value()        (str() of a counter / an int and a counter / an int as KEY are refused)
"""
import ast
import copy
import os
import re
from translate import Unrecognised, _parse, GEN as GEN_DIR

NAME = "HeaderRowParams"
PARTS = ["heading_header", "loader_body", "row_iter", "binding", "wbnav", "dnav", "row_values", "external"]


# ------------------------------------------------------------------ AST helpers


class _Uncast(ast.NodeTransformer):
    """typing.cast(T, x) -> x"""

    def visit_Call(self, node):
        self.generic_visit(node)
        if isinstance(node.func, ast.Name) and node.func.id == "cast" and len(node.args) == 2 and not node.keywords:
            return node.args[1]
        return node


def _strip_doc(body):
    if body and isinstance(body[0], ast.Expr) and isinstance(body[0].value, ast.Constant) and isinstance(body[0].value.value, str):
        return body[1:]
    return body


def _class(tree, name):
    found = [n for n in tree.body if isinstance(n, ast.ClassDef) and n.name == name]
    if len(found) != 1:
        raise Unrecognised(f"class {name} not found exactly once")
    return found[0]


def _method(cls, name, required=True):
    found = [n for n in cls.body if isinstance(n, (ast.FunctionDef, ast.AsyncFunctionDef)) and n.name == name]
    for n in cls.body:      # an alias such as `body = something` would replace the method
        if isinstance(n, ast.Assign) and any(isinstance(t, ast.Name) and t.id == name for t in n.targets):
            raise Unrecognised(f"{cls.name}.{name} is rebound by an assignment")
    if not found:
        if required:
            raise Unrecognised(f"{cls.name}.{name} not found")
        return None
    if len(found) != 1 or isinstance(found[0], ast.AsyncFunctionDef) or found[0].decorator_list:
        raise Unrecognised(f"{cls.name}.{name}: several definitions, async or decorated")
    fn = _Uncast().visit(copy.deepcopy(found[0]))
    fn.body = _strip_doc(fn.body)
    return fn


def _params(fn):
    a = fn.args
    if a.vararg or a.kwarg or a.kwonlyargs or a.posonlyargs or a.defaults:
        raise Unrecognised(f"{fn.name}: parameter list shape")
    return [x.arg for x in a.args]


def _same(a, b):
    return ast.dump(a) == ast.dump(b)


def _norm(n):
    """dump of an expression with the load/store context erased"""
    return ast.dump(n).replace("Load()", "X").replace("Store()", "X")


def _is_name(n, ident):
    return isinstance(n, ast.Name) and n.id == ident


def _attr_path(n):
    """a.b.c -> ['a', 'b', 'c'] (None when the expression is not a dotted name)"""
    out = []
    while isinstance(n, ast.Attribute):
        out.append(n.attr)
        n = n.value
    if isinstance(n, ast.Name):
        out.append(n.id)
        return out[::-1]
    return None


def _is_path(n, *path):
    return _attr_path(n) == list(path)


def _call(n, *path, nargs=None):
    """n is a call of the dotted name `path` without keywords; returns the positional arguments, else None"""
    if not (isinstance(n, ast.Call) and not n.keywords and _is_path(n.func, *path)):
        return None
    if nargs is not None and len(n.args) != nargs:
        return None
    return n.args


def _str_const(n):
    return n.value if isinstance(n, ast.Constant) and isinstance(n.value, str) else None


def _assign(stmt):
    """(target, value) of a single-target assignment (annotated or not), else None"""
    if isinstance(stmt, ast.Assign) and len(stmt.targets) == 1:
        return stmt.targets[0], stmt.value
    if isinstance(stmt, ast.AnnAssign) and stmt.value is not None:
        return stmt.target, stmt.value
    return None


# ------------------------------------------------------------------ Coq printing


def _txt(s):
    return "[" + "; ".join(str(ord(c)) for c in s) + "]%N"


def _readable(s):
    return s.replace("(*", "( *").replace("*)", "* )").replace('"', "'")


def _expr_coq(e):
    kind = e[0]
    if kind in ("E_item", "E_count"):
        return kind
    if kind in ("E_str", "E_clean"):
        return f"({kind} {_expr_coq(e[1])})"
    if kind in ("E_text", "E_field"):
        return f"({kind} {_txt(e[1])})"
    if kind == "E_int":
        return f"(E_int {e[1]})"
    raise Unrecognised(f"expression {e!r}")


def _expr_readable(e):
    kind = e[0]
    return {"E_item": lambda: "item", "E_count": lambda: "n", "E_str": lambda: f"str({_expr_readable(e[1])})",
            "E_clean": lambda: f"name_cleaner({_expr_readable(e[1])})", "E_text": lambda: repr(e[1]),
            "E_int": lambda: str(e[1]), "E_field": lambda: f"row.name({e[1]!r}).value()"}[kind]()


def _props_coq(props):
    return "[\n  " + ";\n  ".join(f"({_txt(k)}, {_expr_coq(e)})" for k, e in props) + "]" if props else "[]"


def _props_readable(key, props):
    return _readable(_expr_readable(key) + ": {" + ", ".join(f"{k!r}: {_expr_readable(e)}" for k, e in props) + "}")


# ------------------------------------------------------------------ the comprehension shared by header() and load()


def _expr(n, item, count, row):
    if item and _is_name(n, item):
        return ("E_item",)
    if _is_name(n, count):
        return ("E_count",)
    if isinstance(n, ast.Constant):
        if isinstance(n.value, str):
            return ("E_text", n.value)
        if isinstance(n.value, int) and not isinstance(n.value, bool) and 0 <= n.value < 100000:
            return ("E_int", n.value)
        raise Unrecognised(f"literal {n.value!r}")
    a = _call(n, "str", nargs=1)
    if a is not None:
        sub = _expr(a[0], item, count, row)
        if sub[0] in ("E_count", "E_int"):
            raise Unrecognised("str() of a number is not modelled")
        return ("E_str", sub)
    a = _call(n, "name_cleaner", nargs=1)
    if a is not None:
        return ("E_clean", _expr(a[0], item, count, row))
    if row and isinstance(n, ast.Call) and not n.args and not n.keywords and isinstance(n.func, ast.Attribute) and n.func.attr == "value":
        a = _call(n.func.value, row, "name", nargs=1)
        if a is not None and _str_const(a[0]) is not None:
            return ("E_field", a[0].value)
    raise Unrecognised("expression " + ast.dump(n)[:120])


def _keywords(d, item, count, row):
    if not isinstance(d, ast.Dict):
        raise Unrecognised("property value is not a dict display")
    props = []
    for k, v in zip(d.keys, d.values):
        if k is None or _str_const(k) is None:
            raise Unrecognised("keyword is not a string literal")
        props.append((k.value, _expr(v, item, count, row)))
    if len({k for k, _ in props}) != len(props):
        raise Unrecognised("a keyword is written twice")
    return props


def _enumerate(it, source_ok):
    """enumerate(SRC[, start]) -> start"""
    if not (isinstance(it, ast.Call) and _is_name(it.func, "enumerate") and 1 <= len(it.args) <= 2):
        raise Unrecognised("loop is not over enumerate(...)")
    start = None
    if len(it.args) == 2:
        start = it.args[1]
    for kw in it.keywords:
        if kw.arg != "start" or start is not None:
            raise Unrecognised("enumerate keywords")
        start = kw.value
    if not source_ok(it.args[0]):
        raise Unrecognised("enumerate is over something else")
    if start is None:
        return 0
    if not (isinstance(start, ast.Constant) and isinstance(start.value, int) and not isinstance(start.value, bool)
            and 0 <= start.value < 100000):
        raise Unrecognised("enumerate start is not a small literal")
    return start.value


def _loop_vars(target, item_wanted):
    if not (isinstance(target, ast.Tuple) and len(target.elts) == 2 and all(isinstance(e, ast.Name) for e in target.elts)):
        raise Unrecognised("loop target is not `n, item`")
    count, item = target.elts[0].id, target.elts[1].id
    if count == item:
        raise Unrecognised("loop variables coincide")
    return count, item


def _schema_dict(stmts, source_ok, rowwise):
    """the statements that build and return {"type": "object", "properties": {KEY: {...} for n, x in enumerate(SRC)}}.
    Returns (start, key expression, keywords)."""
    stmts = list(stmts)
    loop = None        # (name of the dict, start, key, props) when the properties are filled by a for loop
    if len(stmts) >= 3 and _assign(stmts[0]) and isinstance(stmts[1], ast.For):
        tgt, val = _assign(stmts[0])
        f = stmts[1]
        if isinstance(tgt, ast.Name) and isinstance(val, ast.Dict) and not val.keys and not f.orelse and len(f.body) == 1:
            count, item = _loop_vars(f.target, None)
            start = _enumerate(f.iter, source_ok)
            st = _assign(f.body[0])
            if not (st and isinstance(st[0], ast.Subscript) and _is_name(st[0].value, tgt.id)):
                raise Unrecognised("loop body is not `properties[KEY] = {...}`")
            row = item if rowwise else None
            key = _expr(st[0].slice, None if rowwise else item, count, row)
            loop = (tgt.id, start, key, _keywords(st[1], None if rowwise else item, count, row))
            stmts = stmts[2:]
    if len(stmts) == 2 and _assign(stmts[0]) and isinstance(stmts[1], ast.Return):
        tgt, val = _assign(stmts[0])
        if not (isinstance(tgt, ast.Name) and _is_name(stmts[1].value, tgt.id)):
            raise Unrecognised("the schema is not returned through one local name")
        top = val
    elif len(stmts) == 1 and isinstance(stmts[0], ast.Return) and stmts[0].value is not None:
        top = stmts[0].value
    else:
        raise Unrecognised("statements after the first row are not `json_schema = {...}; return json_schema`")
    if not isinstance(top, ast.Dict) or [(_str_const(k) if k is not None else None) for k in top.keys] != ["type", "properties"]:
        raise Unrecognised("the schema is not {'type': ..., 'properties': ...}")
    if _str_const(top.values[0]) != "object":
        raise Unrecognised("the schema type is not the literal 'object'")
    pv = top.values[1]
    if loop:
        if not _is_name(pv, loop[0]):
            raise Unrecognised("the loop-built dict is not the properties")
        return loop[1], loop[2], loop[3]
    if not (isinstance(pv, ast.DictComp) and len(pv.generators) == 1):
        raise Unrecognised("properties is not a dict comprehension with one for clause")
    g = pv.generators[0]
    if g.ifs or g.is_async:
        raise Unrecognised("the comprehension has a condition")
    count, item = _loop_vars(g.target, None)
    start = _enumerate(g.iter, source_ok)
    row = item if rowwise else None
    key = _expr(pv.key, None if rowwise else item, count, row)
    return start, key, _keywords(pv.value, None if rowwise else item, count, row)


def _check_key(key):
    if key[0] in ("E_count", "E_int"):
        raise Unrecognised("a number as property key is not modelled")


# ------------------------------------------------------------------ part: heading_header

EXN_CODES = {"ValueError": 1, "TypeError": 2, "IndexError": 3, "KeyError": 4, "RuntimeError": 5, "NotImplementedError": 6,
             "AttributeError": 10, "StopIteration": 11, "AssertionError": 12}


def part_heading_header(wb, si):
    fn = _method(_class(wb, "HeadingRowSchemaLoader"), "header")
    me, source = _params(fn)
    body = fn.body
    if not (body and isinstance(body[0], ast.Try)):
        raise Unrecognised("header does not start with try: first = next(source)")
    t = body[0]
    if t.orelse or t.finalbody or len(t.body) != 1 or len(t.handlers) != 1:
        raise Unrecognised("try statement shape")
    st = _assign(t.body[0])
    if not (st and isinstance(st[0], ast.Name) and _call(st[1], "next", nargs=1) is not None and _is_name(st[1].args[0], source)):
        raise Unrecognised("the first row is not `first = next(source)`")
    first = st[0].id
    h = t.handlers[0]
    if not (_is_name(h.type, "StopIteration") and len(h.body) == 1):
        raise Unrecognised("except clause shape")
    hb = h.body[0]
    if isinstance(hb, ast.Return) and (hb.value is None or (isinstance(hb.value, ast.Constant) and hb.value.value is None)):
        on_empty, on_empty_txt = "None", "returns None"
    elif isinstance(hb, ast.Raise) and hb.exc is not None:
        cls = hb.exc.func if isinstance(hb.exc, ast.Call) else hb.exc
        if not (isinstance(cls, ast.Name) and cls.id in EXN_CODES):
            raise Unrecognised("exception raised on an empty sheet")
        on_empty, on_empty_txt = f"(Some {EXN_CODES[cls.id]}%N)", "raises " + cls.id
    else:
        raise Unrecognised("except clause body")
    start, key, props = _schema_dict(body[1:], lambda n: _is_name(n, first), rowwise=False)
    _check_key(key)
    return (
        "(* HeadingRowSchemaLoader.header: next(source) raising StopIteration " + on_empty_txt + " (None = header returns None, no schema;\n"
        "   Some c = an exception with wire code c); the counter of enumerate(first) starts at hdr_enum_start; every heading\n"
        "   yields the property  " + _props_readable(key, props) + " *)\n"
        f"Definition hdr_on_empty : option N := {on_empty}.\n"
        f"Definition hdr_enum_start : nat := {start}.\n"
        f"Definition hdr_key : expr := {_expr_coq(key)}.\n"
        f"Definition hdr_props : list (list N * expr) := {_props_coq(props)}.\n"
    )


# ------------------------------------------------------------------ part: loader_body


def _pred(cond, row):
    """the condition of a filter over rows -> body_pred"""
    a = _call(cond, "any", nargs=1)
    if a is not None:
        if _is_name(a[0], row):
            return "P_any_truthy"
        g = a[0]
        if isinstance(g, ast.GeneratorExp) and len(g.generators) == 1 and not g.generators[0].ifs and not g.generators[0].is_async \
                and isinstance(g.generators[0].target, ast.Name) and _is_name(g.generators[0].iter, row):
            c = g.generators[0].target.id
            e = g.elt
            if _is_name(e, c):
                return "P_any_truthy"

            def not_none(x):
                return (isinstance(x, ast.Compare) and _is_name(x.left, c) and len(x.ops) == 1 and isinstance(x.ops[0], ast.IsNot)
                        and isinstance(x.comparators[0], ast.Constant) and x.comparators[0].value is None)

            def not_empty(x):
                return (isinstance(x, ast.Compare) and _is_name(x.left, c) and len(x.ops) == 1 and isinstance(x.ops[0], ast.NotEq)
                        and _str_const(x.comparators[0]) == "")
            if isinstance(e, ast.BoolOp) and isinstance(e.op, ast.And) and len(e.values) == 2 and (
                    (not_none(e.values[0]) and not_empty(e.values[1])) or (not_empty(e.values[0]) and not_none(e.values[1]))):
                return "P_any_nonblank"
            if isinstance(e, ast.Compare) and _is_name(e.left, c) and len(e.ops) == 1 and isinstance(e.ops[0], ast.NotIn) \
                    and isinstance(e.comparators[0], (ast.Tuple, ast.List, ast.Set)) and len(e.comparators[0].elts) == 2 \
                    and all(isinstance(x, ast.Constant) for x in e.comparators[0].elts) \
                    and sorted((repr(x.value) for x in e.comparators[0].elts)) == ["''", "None"]:
                return "P_any_nonblank"
        raise Unrecognised("any(...) condition of the row filter")
    if _is_name(cond, row):
        return "P_nonempty"
    a = _call(cond, "len", nargs=1)
    if a is not None and _is_name(a[0], row):
        return "P_nonempty"
    if isinstance(cond, ast.Compare) and len(cond.ops) == 1 and isinstance(cond.ops[0], ast.Gt) \
            and _call(cond.left, "len", nargs=1) is not None and _is_name(cond.left.args[0], row) \
            and isinstance(cond.comparators[0], ast.Constant) and cond.comparators[0].value == 0 and not isinstance(cond.comparators[0].value, bool):
        return "P_nonempty"
    raise Unrecognised("condition of the row filter")


def _body_kind(fn):
    me, source = _params(fn)
    b = fn.body
    if len(b) != 1:
        raise Unrecognised(f"{fn.name}: more than one statement")
    s = b[0]
    if isinstance(s, ast.Return) and s.value is not None:
        v = s.value
        if _is_name(v, source):
            return "B_source"
        if isinstance(v, ast.GeneratorExp) and len(v.generators) == 1:
            g = v.generators[0]
            if not g.is_async and isinstance(g.target, ast.Name) and _is_name(g.iter, source) and _is_name(v.elt, g.target.id):
                if not g.ifs:
                    return "B_source"
                if len(g.ifs) == 1:
                    return f"(B_filter {_pred(g.ifs[0], g.target.id)})"
        raise Unrecognised("body returns something else")
    if isinstance(s, ast.Expr) and isinstance(s.value, ast.YieldFrom) and _is_name(s.value.value, source):
        return "B_source"
    if isinstance(s, ast.For) and isinstance(s.target, ast.Name) and _is_name(s.iter, source) and not s.orelse and len(s.body) == 1:
        row = s.target.id
        inner = s.body[0]

        def yields_row(x):
            return isinstance(x, ast.Expr) and isinstance(x.value, ast.Yield) and _is_name(x.value.value, row)
        if yields_row(inner):
            return "B_source"
        if isinstance(inner, ast.If) and not inner.orelse and len(inner.body) == 1 and yields_row(inner.body[0]):
            return f"(B_filter {_pred(inner.test, row)})"
    raise Unrecognised("body statement shape")


def part_loader_body(wb, si):
    base = _class(wb, "SchemaLoader")
    hd = _method(base, "header")
    _params(hd)
    if not (len(hd.body) == 1 and isinstance(hd.body[0], ast.Return)
            and (hd.body[0].value is None or (isinstance(hd.body[0].value, ast.Constant) and hd.body[0].value.value is None))):
        raise Unrecognised("SchemaLoader.header is not `return None`")
    kb = _body_kind(_method(base, "body"))
    heading = _class(wb, "HeadingRowSchemaLoader")
    if not (len(heading.bases) == 1 and (_is_name(heading.bases[0], "SchemaLoader")
                                         or (isinstance(heading.bases[0], ast.Subscript) and _is_name(heading.bases[0].value, "SchemaLoader")))):
        raise Unrecognised("HeadingRowSchemaLoader is not a direct subclass of SchemaLoader")
    own = _method(heading, "body", required=False)
    kh = _body_kind(own) if own is not None else kb
    return (
        "(* SchemaLoader.header returns None and consumes nothing.  body(): B_source = the iterator handed in, unchanged;\n"
        "   B_filter p = only the rows for which p holds.  body_heading is the body() HeadingRowSchemaLoader "
        + ("defines" if own is not None else "inherits") + ". *)\n"
        f"Definition body_base : body_kind := {kb}.\n"
        f"Definition body_heading : body_kind := {kh}.\n"
    )


# ------------------------------------------------------------------ part: row_iter


def part_row_iter(wb, si):
    fn = _method(_class(wb, "Sheet"), "row_iter")
    (me,) = _params(fn)
    sheet = _class(wb, "Sheet")
    alias = [n for n in sheet.body if isinstance(n, ast.Assign) and any(_is_name(t, "rows") for t in n.targets)]
    if not (len(alias) == 1 and _is_name(alias[0].value, "row_iter")) or any(
            isinstance(n, (ast.FunctionDef, ast.AsyncFunctionDef)) and n.name == "rows" for n in sheet.body):
        raise Unrecognised("Sheet.rows is not the alias `rows = row_iter`")
    stmts = list(fn.body)
    wbname = None
    st = _assign(stmts[0]) if stmts else None
    if st and isinstance(st[0], ast.Name) and _call(st[1], me, "workbook", nargs=0) is not None:
        wbname = st[0].id
        stmts = stmts[1:]
    if wbname is None:
        raise Unrecognised("row_iter does not start with wb = self.workbook()")

    def is_instance_iter(n):
        return (isinstance(n, ast.Call) and _is_path(n.func, wbname, "unpacker", "instance_iter") and len(n.args) == 1
                and _is_path(n.args[0], me, "name") and len(n.keywords) == 1 and n.keywords[0].arg is None
                and _is_path(n.keywords[0].value, wbname, "kwargs"))
    # the iterator: self.raw_instance_iter = <instance_iter call>  (optionally through a local name)
    st = _assign(stmts[0]) if stmts else None
    if not (st and is_instance_iter(st[1])):
        raise Unrecognised("the second statement does not store wb.unpacker.instance_iter(self.name, **wb.kwargs)")
    handles = [_norm(st[0])]
    if not (isinstance(st[0], ast.Name) or _is_path(st[0], me, "raw_instance_iter")):
        raise Unrecognised("the iterator is stored somewhere else")
    stmts = stmts[1:]
    st = _assign(stmts[0]) if stmts else None
    if st and _norm(st[1]) == handles[0] and (
            isinstance(st[0], ast.Name) or _is_path(st[0], me, "raw_instance_iter")):
        handles.append(_norm(st[0]))           # a second handle on the same iterator
        stmts = stmts[1:]

    def is_handle(n):
        return _norm(n) in handles
    # json_schema = self.loader.header(IT)
    st = _assign(stmts[0]) if stmts else None
    if not (st and isinstance(st[0], ast.Name) and _call(st[1], me, "loader", "header", nargs=1) is not None and is_handle(st[1].args[0])):
        raise Unrecognised("header() is not called first, on the stored iterator")
    js = st[0].id
    stmts = stmts[1:]

    def binds_schema(s):
        a = _assign(s)
        if not (a and _is_path(a[0], me, "schema")):
            return False
        v = a[1]
        return (isinstance(v, ast.Call) and not v.keywords and len(v.args) == 1 and _is_name(v.args[0], js)
                and isinstance(v.func, ast.Attribute) and v.func.attr == "from_json" and _call(v.func.value, "SchemaMaker", nargs=0) is not None)
    if not stmts:
        raise Unrecognised("nothing after header()")
    s = stmts[0]

    def bare_return(x):
        return isinstance(x, ast.Return) and (x.value is None or (isinstance(x.value, ast.Constant) and x.value.value is None))
    if isinstance(s, ast.If) and _is_name(s.test, js) and not s.orelse and len(s.body) == 1 and binds_schema(s.body[0]):
        guard = "G_truthy"
    elif isinstance(s, ast.If) and _is_name(s.test, js) and len(s.body) == 1 and binds_schema(s.body[0]) \
            and len(s.orelse) == 1 and bare_return(s.orelse[0]):
        guard = "G_stop"
    elif isinstance(s, ast.If) and isinstance(s.test, ast.UnaryOp) and isinstance(s.test.op, ast.Not) and _is_name(s.test.operand, js) \
            and not s.orelse and len(s.body) == 1 and bare_return(s.body[0]) and len(stmts) >= 2 and binds_schema(stmts[1]):
        guard = "G_stop"
        stmts = stmts[1:]
    elif binds_schema(s):
        guard = "G_always"
    else:
        raise Unrecognised("how the loaded schema is bound")
    stmts = stmts[1:]
    if not (len(stmts) == 1 and isinstance(stmts[0], ast.For)):
        raise Unrecognised("the row loop is not the last statement")
    f = stmts[0]
    a = _call(f.iter, me, "loader", "body", nargs=1)
    if not (a is not None and isinstance(f.target, ast.Name) and not f.orelse):
        raise Unrecognised("the row loop is not over self.loader.body(...)")
    if is_handle(a[0]):
        same = "true"
    elif is_instance_iter(a[0]):
        same = "false"
    else:
        raise Unrecognised("what body() iterates over")
    inst = f.target.id

    def new_row(n):
        args = _call(n, "Row", nargs=2)
        return args is not None and _is_name(args[0], me) and _is_name(args[1], inst)
    fb = list(f.body)
    rows = "B_source"
    if len(fb) == 1 and isinstance(fb[0], ast.If) and not fb[0].orelse:
        rows = f"(B_filter {_pred(fb[0].test, inst)})"
        fb = list(fb[0].body)
    elif len(fb) >= 2 and isinstance(fb[0], ast.If) and not fb[0].orelse and len(fb[0].body) == 1 and isinstance(fb[0].body[0], ast.Continue) \
            and isinstance(fb[0].test, ast.UnaryOp) and isinstance(fb[0].test.op, ast.Not):
        rows = f"(B_filter {_pred(fb[0].test.operand, inst)})"
        fb = fb[1:]
    ok = False
    if len(fb) == 2:
        a0 = _assign(fb[0])
        ok = (a0 and _is_path(a0[0], me, "row") and new_row(a0[1]) and isinstance(fb[1], ast.Expr)
              and isinstance(fb[1].value, ast.Yield) and _is_path(fb[1].value.value, me, "row"))
    elif len(fb) == 1:
        ok = isinstance(fb[0], ast.Expr) and isinstance(fb[0].value, ast.Yield) and fb[0].value.value is not None and new_row(fb[0].value.value)
    if not ok:
        raise Unrecognised("the loop body is not `self.row = Row(self, instance); yield self.row`")
    return (
        "(* Sheet.row_iter: header() runs first on the iterator of the unpacker; ri_same_iterator = body() is handed that same\n"
        "   iterator (false: a second instance_iter call, the rows start again); ri_guard = G_truthy: the schema is bound only\n"
        "   `if json_schema:`, G_always: from_json is applied to whatever header returned, G_stop: without a schema from header no\n"
        "   row is delivered; ri_rows = B_source: every instance body() yields becomes exactly one Row, B_filter p: only those with p *)\n"
        f"Definition ri_same_iterator : bool := {same}.\n"
        f"Definition ri_guard : guard_kind := {guard}.\n"
        f"Definition ri_rows : body_kind := {rows}.\n"
    )


# ------------------------------------------------------------------ part: binding


def part_binding(wb, si):
    sheet = _class(wb, "Sheet")
    init = _method(sheet, "__init__")
    me = _params(init)[0]
    loaders = 0
    for s in init.body:
        a = _assign(s)
        if a and _is_path(a[0], me, "loader"):
            if _call(a[1], "SchemaLoader", nargs=0) is None:
                raise Unrecognised("Sheet.__init__ installs another loader")
            loaders += 1
        elif a and _is_path(a[0], me, "schema"):
            raise Unrecognised("Sheet.__init__ binds a schema")
        elif not (a or isinstance(s, ast.AnnAssign)):
            raise Unrecognised("Sheet.__init__ statement shape")
    if loaders != 1:
        raise Unrecognised("Sheet.__init__ does not install SchemaLoader() exactly once")
    fn = _method(sheet, "set_schema")
    me, schema = _params(fn)
    seen_schema = resets = False
    if not (fn.body and isinstance(fn.body[-1], ast.Return) and _is_name(fn.body[-1].value, me)):
        raise Unrecognised("set_schema does not end with return self")
    for s in fn.body[:-1]:
        a = _assign(s)
        if a and _is_path(a[0], me, "schema") and _is_name(a[1], schema) and not seen_schema:
            seen_schema = True
        elif a and _is_path(a[0], me, "loader") and _call(a[1], "SchemaLoader", nargs=0) is not None and not resets:
            resets = True
        else:
            raise Unrecognised("set_schema statement shape")
    if not seen_schema:
        raise Unrecognised("set_schema does not bind the schema")
    fn = _method(sheet, "set_schema_loader")
    me, loader = _params(fn)
    b = fn.body
    a = _assign(b[0]) if len(b) == 2 else None
    if not (a and _is_path(a[0], me, "loader") and _is_name(a[1], loader) and isinstance(b[1], ast.Return) and _is_name(b[1].value, me)):
        raise Unrecognised("set_schema_loader is not `self.loader = loader; return self`")
    return (
        "(* a new Sheet has the do-nothing SchemaLoader() and no schema; set_schema_loader(l) replaces the loader only;\n"
        "   set_schema(s) binds s and, when set_schema_resets_loader, installs the do-nothing SchemaLoader() again *)\n"
        f"Definition set_schema_resets_loader : bool := {'true' if resets else 'false'}.\n"
    )


# ------------------------------------------------------------------ part: wbnav


def part_wbnav(wb, si):
    nav = _class(si, "WBNav")
    fn = _method(nav, "name")
    me, name = _params(fn)
    stmts = list(fn.body)
    # optional: if self.schema.type != "object": raise TypeError(...)
    if stmts and isinstance(stmts[0], ast.If):
        s = stmts[0]
        t = s.test
        if not (isinstance(t, ast.Compare) and _is_path(t.left, me, "schema", "type") and len(t.ops) == 1 and isinstance(t.ops[0], ast.NotEq)
                and _str_const(t.comparators[0]) == "object" and not s.orelse and len(s.body) == 1 and isinstance(s.body[0], ast.Raise)):
            raise Unrecognised("the leading if of WBNav.name")
        stmts = stmts[1:]
    st = _assign(stmts[0]) if stmts else None
    if not (st and isinstance(st[0], ast.Name) and isinstance(st[1], ast.Subscript)
            and _is_path(st[1].value, me, "schema", "properties") and _is_name(st[1].slice, name)):
        raise Unrecognised("the property is not looked up by `self.schema.properties[name]`")
    sub = st[0].id
    stmts = stmts[1:]

    def is_attrs(n):
        return _is_path(n, sub, "attributes")

    def fallback(n):
        a = n.args if (isinstance(n, ast.Call) and not n.keywords and isinstance(n.func, ast.Attribute) and n.func.attr == "index") else None
        if a is None or len(a) != 1 or not _is_name(a[0], name):
            return False
        la = _call(n.func.value, "list", nargs=1)
        if la is None:
            return False
        return _is_path(la[0], me, "schema", "properties") or _call(la[0], me, "schema", "properties", "keys", nargs=0) is not None

    def attr_get(n):
        """subschema.attributes.get(ATTR) -> ATTR"""
        a = _call(n, sub, "attributes", "get", nargs=1)
        return _str_const(a[0]) if a is not None else None

    def attr_item(n):
        """subschema.attributes[ATTR] -> ATTR"""
        return _str_const(n.slice) if isinstance(n, ast.Subscript) and is_attrs(n.value) else None

    def attr_in(n):
        """ATTR in subschema.attributes -> ATTR"""
        if isinstance(n, ast.Compare) and len(n.ops) == 1 and isinstance(n.ops[0], ast.In) and is_attrs(n.comparators[0]):
            return _str_const(n.left)
        return None
    if not stmts:
        raise Unrecognised("WBNav.name ends early")
    s = stmts[0]
    test = attr = pos = None
    a = _assign(s)
    if isinstance(s, ast.If) and len(s.body) == 1 and len(s.orelse) == 1 and _assign(s.body[0]) and _assign(s.orelse[0]):
        (t1, v1), (t2, v2) = _assign(s.body[0]), _assign(s.orelse[0])
        if isinstance(t1, ast.Name) and _is_name(t2, t1.id) and fallback(v2):
            pos = t1.id
            if attr_in(s.test) is not None and attr_item(v1) == attr_in(s.test):
                test, attr = "PT_in", attr_in(s.test)
            elif attr_get(s.test) is not None and attr_get(s.test) in (attr_item(v1), attr_get(v1)):
                test, attr = "PT_truthy", attr_get(s.test)
    elif a and isinstance(a[0], ast.Name):
        v = a[1]
        if isinstance(v, ast.BoolOp) and isinstance(v.op, ast.Or) and len(v.values) == 2 and attr_get(v.values[0]) is not None and fallback(v.values[1]):
            test, attr, pos = "PT_truthy", attr_get(v.values[0]), a[0].id
        elif isinstance(v, ast.IfExp) and fallback(v.orelse):
            if attr_in(v.test) is not None and attr_item(v.body) == attr_in(v.test):
                test, attr, pos = "PT_in", attr_in(v.test), a[0].id
            elif attr_get(v.test) is not None and attr_get(v.test) in (attr_item(v.body), attr_get(v.body)):
                test, attr, pos = "PT_truthy", attr_get(v.test), a[0].id
    if test is None or not attr:
        raise Unrecognised("how WBNav.name finds the position")
    stmts = stmts[1:]

    def nav_of(n, what):
        """WBNav(<unpacker>, subschema, <what>) -> the third argument when `what` is None"""
        args = _call(n, "WBNav", nargs=3)
        if args is None or not _is_name(args[1], sub) or _call(args[0], me, "unpacker", nargs=0) is None:
            return None
        return args[2]

    def is_cell(n):
        return isinstance(n, ast.Subscript) and _is_path(n.value, me, "instance") and _is_name(n.slice, pos)
    if len(stmts) != 1:
        raise Unrecognised("statements after the position")
    s = stmts[0]
    if isinstance(s, ast.Return) and s.value is not None and nav_of(s.value, None) is not None and is_cell(nav_of(s.value, None)):
        absent = "A_raise"
    elif isinstance(s, ast.Try) and not s.orelse and not s.finalbody and len(s.body) == 1 and len(s.handlers) == 1 \
            and isinstance(s.body[0], ast.Return) and s.body[0].value is not None and nav_of(s.body[0].value, None) is not None \
            and is_cell(nav_of(s.body[0].value, None)) and _is_name(s.handlers[0].type, "IndexError"):
        hb = list(s.handlers[0].body)
        if hb and isinstance(hb[0], ast.Expr) and isinstance(hb[0].value, ast.Call) and (_attr_path(hb[0].value.func) or [""])[0] in ("logger", "logging"):
            hb = hb[1:]
        if len(hb) == 1 and isinstance(hb[0], ast.Raise) and hb[0].exc is None:
            absent = "A_raise"
        elif len(hb) == 1 and isinstance(hb[0], ast.Return) and hb[0].value is not None and nav_of(hb[0].value, None) is not None:
            m = nav_of(hb[0].value, None)
            if isinstance(m, ast.List) and len(m.elts) == 1 and isinstance(m.elts[0], ast.Constant) and m.elts[0].value is None:
                absent = "A_list_none"
            elif isinstance(m, ast.Constant) and m.value is None:
                absent = "A_none"
            else:
                raise Unrecognised("the instance substituted for a missing cell")
        else:
            raise Unrecognised("the IndexError handler")
    else:
        raise Unrecognised("how WBNav.name fetches the cell")
    fn = _method(nav, "value")
    (me,) = _params(fn)
    if not (len(fn.body) == 1 and isinstance(fn.body[0], ast.Return) and _is_path(fn.body[0].value, me, "instance")):
        raise Unrecognised("WBNav.value is not `return self.instance`")
    csv = _class(si, "CSVNav")
    if not (len(csv.bases) == 1 and _is_name(csv.bases[0], "WBNav") and all(isinstance(x, ast.Pass) for x in _strip_doc(csv.body))):
        raise Unrecognised("CSVNav is not an empty subclass of WBNav")
    return (
        "(* WBNav.name: the property is properties[name] (KeyError); its column is the attribute nav_pos_attr (" + _readable(repr(attr)) + ") of the property -\n"
        "   PT_in: whenever the attribute is present (`in`), PT_truthy: only when its value is truthy (a position 0 counts as missing) -\n"
        "   otherwise the index of the name among the property keys; instance[position] raising IndexError gives\n"
        "   A_list_none: a navigator over the list [None], A_none: over None, A_raise: the IndexError itself.\n"
        "   WBNav.value is the instance itself; CSVNav adds nothing. *)\n"
        f"Definition nav_pos_test : pos_test := {test}.\n"
        f"Definition nav_pos_attr : list N := {_txt(attr)}.\n"
        f"Definition nav_absent : absent_kind := {absent}.\n"
    )


# ------------------------------------------------------------------ part: dnav


def part_dnav(wb, si):
    nav = _class(si, "DNav")
    fn = _method(nav, "name")
    me, name = _params(fn)
    stmts = list(fn.body)
    if stmts and isinstance(stmts[0], ast.If):
        s = stmts[0]
        t = s.test
        if not (isinstance(t, ast.Compare) and _is_path(t.left, me, "schema", "type") and len(t.ops) == 1 and isinstance(t.ops[0], ast.NotEq)
                and _str_const(t.comparators[0]) == "object" and not s.orelse and len(s.body) == 1 and isinstance(s.body[0], ast.Raise)):
            raise Unrecognised("the leading if of DNav.name")
        stmts = stmts[1:]
    if len(stmts) != 3:
        raise Unrecognised("DNav.name statement count")
    a0, a1 = _assign(stmts[0]), _assign(stmts[1])
    if not (a0 and isinstance(a0[0], ast.Name) and isinstance(a0[1], ast.Subscript)
            and _is_path(a0[1].value, me, "schema", "properties") and _is_name(a0[1].slice, name)):
        raise Unrecognised("the property is not looked up by `self.schema.properties[name]`")
    if not (a1 and isinstance(a1[0], ast.Name) and a1[0].id != a0[0].id):
        raise Unrecognised("the member is not fetched into a local name")
    v = a1[1]
    if isinstance(v, ast.Subscript) and _is_path(v.value, me, "instance") and _is_name(v.slice, name):
        missing = "DM_key_error"
    elif _call(v, me, "instance", "get", nargs=1) is not None and _is_name(v.args[0], name):
        missing = "DM_none"
    else:
        raise Unrecognised("how DNav.name fetches the member")
    r = stmts[2]
    args = _call(r.value, "DNav", nargs=3) if isinstance(r, ast.Return) and r.value is not None else None
    if not (args is not None and _call(args[0], me, "unpacker", nargs=0) is not None and _is_name(args[1], a0[0].id) and _is_name(args[2], a1[0].id)):
        raise Unrecognised("DNav.name does not return DNav(unpacker, subschema, value)")
    fn = _method(nav, "value")
    (me,) = _params(fn)
    if not (len(fn.body) == 1 and isinstance(fn.body[0], ast.Return) and _is_path(fn.body[0].value, me, "instance")):
        raise Unrecognised("DNav.value is not `return self.instance`")
    return (
        "(* DNav.name: the property is properties[name] (KeyError); the member is instance[name] - DM_key_error: a missing member is a\n"
        "   KeyError - or instance.get(name) - DM_none: a missing member reads as None.  DNav.value is the instance itself. *)\n"
        f"Definition dnav_missing : dnav_missing_kind := {missing}.\n"
    )


# ------------------------------------------------------------------ part: row_values


def part_row_values(wb, si):
    row = _class(wb, "Row")
    fn = _method(row, "name")
    me, name = _params(fn)
    if not (len(fn.body) == 1 and isinstance(fn.body[0], ast.Return) and fn.body[0].value is not None
            and _call(fn.body[0].value, me, "nav", "name", nargs=1) is not None and _is_name(fn.body[0].value.args[0], name)):
        raise Unrecognised("Row.name is not `return self.nav.name(name)`")
    init = _method(row, "__init__")
    ok = False
    for s in init.body:
        a = _assign(s)
        if a and _is_path(a[0], _params(init)[0], "nav"):
            v = a[1]
            ok = (isinstance(v, ast.Call) and not v.keywords and _is_path(v.func, _params(init)[0], "unpacker", "nav") and len(v.args) == 2
                  and _is_path(v.args[0], _params(init)[1], "schema") and _is_path(v.args[1], _params(init)[0], "instance"))
    if not ok:
        raise Unrecognised("Row.__init__ does not build self.nav = self.unpacker.nav(sheet.schema, self.instance)")
    fn = _method(row, "values")
    (me,) = _params(fn)
    if not (len(fn.body) == 1 and isinstance(fn.body[0], ast.Return) and fn.body[0].value is not None):
        raise Unrecognised("Row.values is not a single return")
    v = fn.body[0].value
    a = _call(v, "list", nargs=1)
    if a is not None and _is_path(a[0], me, "instance"):
        per = "false"
    elif isinstance(v, ast.ListComp) and len(v.generators) == 1:
        g = v.generators[0]
        src_ok = (isinstance(g.iter, ast.Attribute) and g.iter.attr == "properties" and (
            _is_path(g.iter.value, me, "schema")
            or (isinstance(g.iter.value, ast.Attribute) and g.iter.value.attr == "schema" and _call(g.iter.value.value, me, "sheet", nargs=0) is not None)))
        e = v.elt
        elt_ok = (isinstance(g.target, ast.Name) and isinstance(e, ast.Call) and not e.args and not e.keywords
                  and isinstance(e.func, ast.Attribute) and e.func.attr == "value"
                  and _call(e.func.value, me, "nav", "name", nargs=1) is not None and _is_name(e.func.value.args[0], g.target.id))
        if g.ifs or g.is_async or not src_ok or not elt_ok:
            raise Unrecognised("the list comprehension of Row.values")
        per = "true"
    else:
        raise Unrecognised("what Row.values returns")
    return (
        "(* Row.name(k) = nav.name(k).  Row.values(): true = one nav.name(k).value() per schema property, in property order;\n"
        "   false = the cells of the instance as they are *)\n"
        f"Definition values_per_property : bool := {per}.\n"
    )


# ------------------------------------------------------------------ part: external


def part_external(wb, si):
    cls = _class(wb, "ExternalSchemaLoader")
    init = _method(cls, "__init__")
    me, sheet = _params(init)
    if not any((_assign(s) and _is_path(_assign(s)[0], me, "sheet") and _is_name(_assign(s)[1], sheet)) for s in init.body):
        raise Unrecognised("ExternalSchemaLoader.__init__ does not keep the sheet")
    fn = _method(cls, "load")
    (me,) = _params(fn)

    def rows_of_sheet(n):
        return _call(n, me, "sheet", "row_iter", nargs=0) is not None or _call(n, me, "sheet", "rows", nargs=0) is not None
    start, key, props = _schema_dict(fn.body, rows_of_sheet, rowwise=True)
    _check_key(key)
    meta = [n for n in cls.body if _assign(n) and _is_name(_assign(n)[0], "META_SCHEMA")]
    if len(meta) != 1 or not isinstance(_assign(meta[0])[1], ast.Dict):
        raise Unrecognised("META_SCHEMA is not one dict display")
    md = _assign(meta[0])[1]
    top = {(_str_const(k) if k is not None else None): v for k, v in zip(md.keys, md.values)}
    if None in top or _str_const(top.get("type")) != "object" or not isinstance(top.get("properties"), ast.Dict):
        raise Unrecognised("META_SCHEMA shape")
    mprops = []
    for k, v in zip(top["properties"].keys, top["properties"].values):
        if k is None or _str_const(k) is None or not isinstance(v, ast.Dict):
            raise Unrecognised("META_SCHEMA property shape")
        ints = []
        for kk, vv in zip(v.keys, v.values):
            if kk is None or _str_const(kk) is None or not isinstance(vv, ast.Constant):
                raise Unrecognised("META_SCHEMA keyword shape")
            if isinstance(vv.value, int) and not isinstance(vv.value, bool):
                if not 0 <= vv.value < 100000:
                    raise Unrecognised("META_SCHEMA integer keyword out of range")
                ints.append((kk.value, vv.value))
            elif not isinstance(vv.value, str):
                raise Unrecognised("META_SCHEMA keyword value is neither a string nor an integer")
        mprops.append((k.value, ints))
    if len({k for k, _ in mprops}) != len(mprops):
        raise Unrecognised("META_SCHEMA property written twice")
    mtxt = "[\n  " + ";\n  ".join("(" + _txt(k) + ", [" + "; ".join(f"({_txt(a)}, {b})" for a, b in ints) + "])" for k, ints in mprops) + "]"
    return (
        "(* ExternalSchemaLoader.load: the counter of enumerate(self.sheet.row_iter()) starts at ext_enum_start; every row yields the\n"
        "   property  " + _props_readable(key, props) + "\n"
        "   meta_properties = the properties of ExternalSchemaLoader.META_SCHEMA in order, each with its integer-valued keywords\n"
        "   (" + _readable(", ".join(f"{k}: {dict(ints)}" for k, ints in mprops)) + ") *)\n"
        f"Definition ext_enum_start : nat := {start}.\n"
        f"Definition ext_key : expr := {_expr_coq(key)}.\n"
        f"Definition ext_props : list (list N * expr) := {_props_coq(props)}.\n"
        f"Definition meta_properties : list (list N * list (list N * nat)) := {mtxt}.\n"
    )


PART_FUNCS = {"heading_header": part_heading_header, "loader_body": part_loader_body, "row_iter": part_row_iter,
              "binding": part_binding, "wbnav": part_wbnav, "dnav": part_dnav, "row_values": part_row_values,
              "external": part_external}

PRELUDE = (
    "From Coq Require Import NArith List.\nImport ListNotations.\n"
    "(* the vocabulary of the parameters (fixed text, not read from the source) *)\n"
    "(* an expression of the comprehensions in HeadingRowSchemaLoader.header and ExternalSchemaLoader.load: the loop item (the\n"
    "   heading), the enumerate counter, str(e), name_cleaner(e), a string literal, an int literal, row.name(k).value() *)\n"
    "Inductive expr := E_item | E_count | E_str (e : expr) | E_clean (e : expr) | E_text (s : list N) | E_int (n : nat) | E_field (k : list N).\n"
    "(* the condition of a body() that filters: some cell is truthy; some cell is neither None nor the empty string; the row has a cell *)\n"
    "Inductive body_pred := P_any_truthy | P_any_nonblank | P_nonempty.\n"
    "Inductive body_kind := B_source | B_filter (p : body_pred).\n"
    "Inductive guard_kind := G_truthy | G_always | G_stop.\n"
    "Inductive pos_test := PT_in | PT_truthy.\n"
    "Inductive absent_kind := A_list_none | A_none | A_raise.\n"
    "Inductive dnav_missing_kind := DM_key_error | DM_none.\n"
)


def _begin(part):
    return f"(* ---- part {part} ---- *)\n"


def _end(part):
    return f"(* ---- end {part} ---- *)\n"


def _pinned_parts():
    try:
        text = open(os.path.join(GEN_DIR, NAME + ".pinned")).read()
    except OSError:
        raise Unrecognised("no pinned file to fall back to")
    out = {}
    for p in PARTS:
        m = re.search(re.escape(_begin(p)) + "(.*?)" + re.escape(_end(p)), text, re.S)
        if not m:
            raise Unrecognised(f"pinned file has no part {p}")
        out[p] = m.group(1)
    return out


def gen_HeaderRowParams(src):
    wb = _parse(src, "stingray/workbook.py")
    si = _parse(src, "stingray/schema_instance.py")
    notes, blocks, pinned = [], [], None
    for p in PARTS:
        try:
            try:
                body = PART_FUNCS[p](wb, si)
            except Unrecognised:
                raise
            except Exception as ex:          # an AST shape nobody thought of: fail closed
                raise Unrecognised(f"{type(ex).__name__}: {ex}")
            notes.append(f"{p}=source")
        except Unrecognised as ex:
            if pinned is None:
                pinned = _pinned_parts()
            body = pinned[p]
            notes.append(f"{p}=pinned({ex})")
        blocks.append(_begin(p) + body + _end(p))
    if not any(n.endswith("=source") for n in notes):
        raise Unrecognised("nothing recognised: " + "; ".join(notes))
    return (
        "(* GENERATED by harness/t1_workbook.py from src/stingray/workbook.py and src/stingray/schema_instance.py -- do not edit *)\n"
        "(* parts: " + _readable(" ".join(notes)) + " *)\n" + PRELUDE + "".join(blocks)
    )


GENERATORS = {NAME: gen_HeaderRowParams}
