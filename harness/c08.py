"""C08 - generated schemas are valid, loadable and tell the truth about each field
(cobol_parser.JSONSchemaMaker / JSONSchemaMakerExtendedVocabulary, schema_instance.SchemaMaker, EBCDIC.value)."""
import io

from codec_common import SPELLINGS, PACKED, BINARY, DISPLAY, FLOAT4, FLOAT8, canon, enc_packed, enc_zoned
from layout_common import gen_tree, print_copybook, assign_names, tree_sx, schema_sx, spell, extra_clauses

GEN = ["JsonTypeParams", "EstructParams", "Cp037", "ConversionParams", "ConversionBodyParams"]
RULE = ("field: EVERY (13 USAGE spellings x unsigned/signed x (m,n) with 1<=m+n<=18 x {digit runs written out, 9(m), 9(n), both}) copybook through "
        "schema_iter (type, contentEncoding, conversion, minLength, maxLength of the field), the same field through "
        "JSONSchemaMakerExtendedVocabulary and type(EBCDIC().nav(...).name(f).value()) on a record holding the mainframe encoding of a random value "
        "(the judge checks the picture text IS the printed picture and the bytes ARE the specification's encoding); text X(k)/A(k). "
        "Every copybook holds SEVERAL 01 records that declare the same data names (FLD, FILLER; N<id> in trees) with other pictures, usages and "
        "structure, a third of the items written without a USAGE clause stand in a record whose 01 entry carries a USAGE clause (the item's own clauses decide), and some fields carry clauses that do not affect storage (BLANK WHEN ZERO, JUSTIFIED RIGHT, VALUE); data names of tree items are spelled in upper, mixed and lower case; the record of interest is not the first (streams field-other-record / field-filler / tree-first-record / tree-third-record look at "
        "the other positions and at the FILLER item); the extended generator is ONE maker for all records as schema_iter has; ONE EBCDIC() serves "
        "every value read and size fallback of the run. Tree documents are compared with the lengths they STATE (minLength = maxLength). "
        "tree: random record descriptions of C01's generator (+ FILLER redefiners) -> emitted schema compared with the model's build, "
        "Draft202012Validator.check_schema, SchemaMaker.from_json, the object every $ref / maxItemsDependsOn ended up bound to; the extended generator's "
        "document must have the same structure. meta: the whole emitted document as JSON, unchanged and with one keyword broken at a time, "
        "check_schema's verdict against Spec/SchemaTruth.v valid_schema; the unchanged document (and the extended generator's document of the same description) "
        "is also compared, member by member and in order, with Model/SchemaDoc.v doc over the model's build of the record description the harness printed "
        "(names, data names, USAGE and PICTURE as printed; type / contentEncoding / conversion from the model of json_type; the cobol text read back from the emitted anchor). "
        "digit-names / digit-names-meta: the same two kinds of case for record descriptions whose data names BEGIN WITH A DIGIT (9x3, 4ST-NAME, 07-cnt: legal COBOL) - "
        "all names, only elementary items, only groups, only REDEFINES targets and redefiners, only DEPENDING ON counters and their tables, one name, a random half; "
        "every tree case carries the names the harness printed and every error Draft202012Validator(META_SCHEMA).iter_errors reports (keyword, last path step, offending value): "
        "on these documents check_schema raises (known finding K-digit-first-name) and the judge demands that every error is the $anchor pattern on a digit-first name, one per such name, "
        "and that structure, lengths, loading, bound references, the extended document and (meta) the whole document member by member are as for any other description. "
        "Non-trivial = every case; distinct = distinct case lines.")
TRIVIAL_BRANCHES = []
ASSUMPTIONS = [
    "how a PICTURE string yields (signed, integer digits, fraction digits) in estruct is the scanner's business (C13); json_type's own test is modelled on the raw text",
    "pictures with P (scaling positions), editing characters or lower-case letters are outside the quantified picture family",
    "str.upper on PICTURE characters is ASCII upper-casing",
    "decoding of valid encodings is C02's theorems (reused); byte lengths are C04's specification",
    "the 2020-12 meta-schema is modelled for the keywords the generator emits (type $anchor $ref oneOf properties items maxItems minLength maxLength title "
    "contentEncoding); every other keyword is treated as unknown to the meta-schema; the model is tied to jsonschema's check_schema by the meta stream",
    "the tree model carries names as identifiers; the clean streams spell every data name with a letter first (a legal anchor); data names that begin with a digit "
    "are the digit-names streams (known finding K-digit-first-name; Props/C08c.v C08c_valid_iff_no_digit_first: the exact boundary); other characters a COBOL "
    "data name cannot hold are outside the property (C17 cleans header names, not COBOL names)",
    "the emitted DOCUMENT is Model/SchemaDoc.v doc over build (C08c): texts come from tables of names, data names, cobol texts and json_type keywords; "
    "the text of the cobol keyword (level + source of the entry; unconstrained by the meta-schema) is not modelled - the meta stream reads it back from "
    "the emitted sub-schema bearing the entry's $anchor and compares where it stands and that tables, inner items and $ref placeholders repeat it",
    "loading: SchemaMaker.from_json is modelled on the generated tree (name_cache keyed by $anchor else title) and compared on every tree case; "
    "no theorem composes it with build (C15 proves the loader on arbitrary documents)",
]
TRUSTED = ["jsonschema.Draft202012Validator.check_schema as the meaning of 'valid JSON Schema (2020-12)'"]

TYPES = {"string": 1, "integer": 2, "number": 3, "decimal": 4, "array": 5, "object": 6, "null": 7, "boolean": 8}
ENCODINGS = {"cp037": 1, "packed-decimal": 2, "bigendian-int": 3, "bigendian-float": 4, "bigendian-double": 5}
CONVERSIONS = {"null": 1, "bool": 2, "integer": 3, "number": 4, "string": 5, "decimal": 6}
PYTYPES = {"NoneType": 0, "bool": 1, "int": 2, "float": 3, "str": 4, "Decimal": 5}
SIGNS = [0xA, 0xB, 0xC, 0xD, 0xE, 0xF]
CLASSES = {"AtomicSchema": 0, "ArraySchema": 1, "DependsOnArraySchema": 2, "ObjectSchema": 3, "OneOfSchema": 4, "RefToSchema": 5}


# ---------------------------------------------------------------- inputs


def digit_pairs():
    for m in range(0, 19):
        for n in range(0, 19 - m):
            if m + n:
                yield m, n


def inputs(ctx):
    rng = ctx.rng
    quick = ctx.tier == "quick"
    # ---- every spelling x sign x (m, n) x way of writing the digit runs, standard generator
    ctx.exhaustive.append("field_13_spellings_x_sign_x_mn<=18_x_repeat_styles_both_generators")
    for u in range(13):
        for signed in (False, True):
            for m, n in digit_pairs():
                for ri, rf in ((False, False), (True, False), (False, True), (True, True)):
                    if (ri and m == 0) or (rf and n == 0):
                        continue                      # the same text as a style already listed
                    for _ in range(1 if quick else 4):
                        yield "field", dict(k=1, gen=0, u=u, pic=[0, signed, m, n, ri, rf], nav=True, seed=rng.randrange(1 << 30),
                                            no_usage=(u == DISPLAY and rng.random() < 0.3))
                    yield "field-ext", dict(k=1, gen=1, u=u, pic=[0, signed, m, n, ri, rf], nav=False, seed=rng.randrange(1 << 30), no_usage=False)
    # ---- text pictures
    ks = list(range(1, 41)) + [64, 100, 255, 256, 1000]
    for k in ks:
        for alpha in (False, True):
            for rep in (False, True):
                if not rep and k > 40:
                    continue
                yield "text", dict(k=1, gen=0, u=DISPLAY, pic=[1, alpha, k, rep], nav=True, seed=rng.randrange(1 << 30), no_usage=rng.random() < 0.5)
                yield "text-ext", dict(k=1, gen=1, u=DISPLAY, pic=[1, alpha, k, rep], nav=False, seed=rng.randrange(1 << 30), no_usage=False)
    # ---- the OTHER records of such copybooks: first / last record, and the FILLER item (same name in every record)
    import random as _random
    for i in range(600 if quick else 6000):
        r2 = _random.Random(rng.randrange(1 << 30))
        u, pic = clean_field(r2)
        yield "field-other-record", dict(k=1, gen=i % 2, u=u, pic=pic, nav=(i % 2 == 0), seed=rng.randrange(1 << 30), no_usage=False,
                                         pos=r2.choice([0, 0, 2]))
        kk = r2.randint(1, 40)
        yield "field-filler", dict(k=1, gen=i % 2, u=DISPLAY, pic=[1, False, kk, True], nav=(i % 2 == 0), seed=rng.randrange(1 << 30),
                                   no_usage=True, pos=r2.choice([1, 1, 2]), target="FILLER")
    # ---- record trees
    n = 150 if quick else 2500
    for i in range(n):
        yield "tree", dict(k=2, seed=rng.randrange(1 << 30), opts={}, filler_redef=(i % 2 == 0))
        if i % 5 == 0:
            yield "tree-first-record", dict(k=2, seed=rng.randrange(1 << 30), opts={}, filler_redef=False, before=0, after=1)
            yield "tree-third-record", dict(k=2, seed=rng.randrange(1 << 30), opts={}, filler_redef=True, before=2)
    for i in range(15 if quick else 200):
        yield "tree-redef-in-occurs", dict(k=2, seed=rng.randrange(1 << 30), opts=dict(redef_in_occurs=True, allow_odo=False), filler_redef=False)
        yield "tree-occurs-elem-in-union", dict(k=2, seed=rng.randrange(1 << 30), opts=dict(occurs_elem_in_union=True, allow_odo=False), filler_redef=False)
    # ---- the emitted document against the meta-schema, unchanged and with one keyword broken
    for i in range(25 if quick else 300):
        seed = rng.randrange(1 << 30)
        yield "meta", dict(k=3, seed=seed, mut=0, pick=0)
        for mut in range(1, len(MUTATIONS) + 1):
            yield "meta-mutated", dict(k=3, seed=seed, mut=mut, pick=rng.randrange(1 << 30))
    # ---- more unchanged documents: each is also compared with the model's rendering of the description (C08c)
    for i in range(175 if quick else 2200):
        yield "meta", dict(k=3, seed=rng.randrange(1 << 30), mut=0, pick=0)
    # ---- data names that begin with a digit (known finding K-digit-first-name): trees and whole documents
    for i in range(70 if quick else 700):
        mode = DN_MODES[i % len(DN_MODES)]
        pos = dict(before=0, after=1) if i % 5 == 3 else dict(before=2) if i % 5 == 4 else {}
        yield "digit-names", dict(k=2, seed=rng.randrange(1 << 30), opts={}, filler_redef=(i % 2 == 0),
                                  dn=dict(mode=mode, seed=rng.randrange(1 << 30)), **pos)
        yield "digit-names-meta", dict(k=3, seed=rng.randrange(1 << 30), mut=0, pick=0, dn=dict(mode=mode, seed=rng.randrange(1 << 30)))


# ---------------------------------------------------------------- kind 1: one elementary item


def run_text(ch, rep, k):
    if k == 0:
        return ""
    return f"{ch}({k})" if rep else ch * k


def pic_text(pic):
    if pic[0] == 0:
        _, signed, m, n, ri, rf = pic
        return ("S" if signed else "") + run_text("9", ri, m) + (("V" + run_text("9", rf, n)) if n else "")
    _, alpha, k, rep = pic
    return run_text("A" if alpha else "X", rep, k)


def clean_field(rng):
    """(usage, pic) of a field outside every known-bad family, for the OTHER records of a copybook"""
    r = rng.randrange(4)
    if r == 0:
        return DISPLAY, [1, False, rng.randint(1, 30), rng.random() < 0.5]
    if r == 1:
        m = rng.randint(0, 9)
        return rng.choice(PACKED), [0, rng.random() < 0.5, m, rng.randint(1 if m == 0 else 0, 9), rng.random() < 0.5, rng.random() < 0.5]
    if r == 2:
        m = rng.randint(0, 9)
        return DISPLAY, [0, rng.random() < 0.5, m, rng.randint(1 if m == 0 else 0, 9), False, False]
    return rng.choice(BINARY), [0, False, rng.randint(1, 9), rng.randint(0, 9), rng.random() < 0.5, False]


def field_records(c):
    """the records of the copybook: [(fld_usage, fld_pic, filler_k, no_usage)], and the index of the record of interest.
    A copybook holds SEVERAL 01 records (schema_iter keeps one generator and one unpacker for all of them); every record
    declares the same data names FLD and FILLER with its own USAGE / PICTURE.  The field of interest is FLD (or the FILLER)
    of record `pos`; it comes first in its record so that the instance is value bytes + padding."""
    import random
    rng = random.Random(c.get("seed", 0) * 7 + 3)
    pos = c.get("pos", 1)
    nrec = pos + 1 + (rng.randrange(3) == 0)
    recs = []
    for i in range(nrec):
        u, pic = clean_field(rng)
        recs.append([u, pic, rng.randint(1, 40), False])
    if c.get("target", "FLD") == "FLD":
        recs[pos][0], recs[pos][1], recs[pos][3] = c["u"], c["pic"], c["no_usage"]
    else:
        recs[pos][2] = c["pic"][2]
    return recs, pos


def field_copybook(c):
    # one clause per line: a line reaching column 72 would lose its newline (C07 finding)
    recs, pos = field_records(c)
    filler_first = c.get("target", "FLD") == "FILLER"
    lines = []
    for i, (u, pic, fk, no_usage) in enumerate(recs):
        if no_usage and (c.get("seed", 0) + i) % 3 == 0:
            # the record (a group) carries a USAGE clause of its own and the item has none: the item's own clauses decide
            # (none = DISPLAY), here as everywhere in this library
            gu = ["COMP-3", "BINARY", "COMP", "PACKED-DECIMAL", "COMPUTATIONAL-4"][(c.get("seed", 0) // 3 + i) % 5]
            lines += [f"       01  R{i}", f"               USAGE {gu}."]
        else:
            lines.append(f"       01  R{i}.")
        fld = ["           05  FLD"]
        # clauses that do not affect storage, on some fields (chosen from the case's seed): they must change nothing
        extra = []
        h = (c.get("seed", 0) + 5 * i) % 7
        if pic[0] == 0:
            if h == 1 and u == DISPLAY and not pic[1]:
                extra.append("BLANK WHEN ZERO")
            elif h == 2:
                extra.append("VALUE ZERO")
        elif h == 1:
            extra.append("JUSTIFIED RIGHT")
        elif h == 2:
            extra.append("VALUE SPACES")
        clauses = [f"PIC {pic_text(pic)}"] + ([] if no_usage else [f"USAGE {SPELLINGS[u]}"]) + extra
        for j, cl in enumerate(clauses):
            fld.append("               " + cl + ("." if j == len(clauses) - 1 else ""))
        filler_pic = pic_text(c["pic"]) if (filler_first and i == pos) else f"X({fk})"
        fil = ["           05  FILLER", f"               PIC {filler_pic}."]
        lines += (fil + fld) if (filler_first and i == pos) else (fld + fil)
    return "\n".join(lines) + "\n"


def make_value(c, rng):
    """a value of the item and its mainframe encoding, as the wire forms (val, buffer)"""
    u, pic = c["u"], c["pic"]
    if pic[0] == 1:
        k = pic[2]
        letters = list(range(0xC1, 0xCA)) + list(range(0xD1, 0xDA)) + list(range(0xE2, 0xEA)) + list(range(0x81, 0x8A))
        buf = [rng.choice(letters) if pic[1] else rng.randrange(256) for _ in range(k)]
        return [4], buf
    _, signed, m, n, _, _ = pic
    d = m + n
    if u == DISPLAY:
        ds = [rng.randrange(10) for _ in range(d + (1 if signed else 0))]
        z = rng.choice(SIGNS)
        return [1, ds, z], enc_zoned(ds, z)
    if u in PACKED:
        ds = [rng.randrange(10) for _ in range(d)]
        s = rng.choice(SIGNS)
        return [2, ds, s], enc_packed(ds, s)
    if u in BINARY:
        w = 2 if d <= 4 else 4 if d <= 9 else 8
        top = 1 << (8 * w - 1)
        v = rng.choice([0, -1, top - 1, -top, rng.randrange(-top, top)])
        return [3, w, v], list(int(v).to_bytes(w, "big", signed=True))
    w = 4 if u in FLOAT4 else 8
    return [0], [rng.randrange(256) for _ in range(w)]


def keywords(f):
    def code(table, key):
        if key not in f:
            return 0
        v = f[key]
        return table.get(v, 99) if isinstance(v, str) else 99
    def length(key):
        v = f.get(key, -1)
        return v if isinstance(v, int) and not isinstance(v, bool) else -2
    return [code(TYPES, "type"), code(ENCODINGS, "contentEncoding"), code(CONVERSIONS, "conversion"), length("minLength"), length("maxLength")]


_SHARED = {}


def shared_unpacker():
    """ONE EBCDIC() for every value read of a run (a file's workbook keeps one unpacker for all its schemas)"""
    if "u" not in _SHARED:
        from stingray.schema_instance import EBCDIC
        _SHARED["u"] = EBCDIC()
    return _SHARED["u"]


def observe_field(c):
    import random
    from lib import observe_call, S
    text = pic_text(c["pic"])
    cb = field_copybook(c)
    recs, pos = field_records(c)
    target = c.get("target", "FLD")
    holder = {}

    def emit():
        from stingray.cobol_parser import schema_iter, structure, dde_sentences, reference_format, JSONSchemaMakerExtendedVocabulary
        if c["gen"] == 0:
            docs = list(schema_iter(io.StringIO(cb)))
        else:
            maker = JSONSchemaMakerExtendedVocabulary()          # one generator for all records, as schema_iter has
            docs = [maker.jsonschema(dde) for dde in structure(dde_sentences(reference_format(io.StringIO(cb))))]
        assert len(docs) == len(recs)
        js = docs[pos]
        holder["js"] = js
        names = [k for k in js["properties"] if k.startswith(target)]
        assert len(names) == 1
        holder["name"] = names[0]
        return js["properties"][names[0]]
    emitted = observe_call(emit, keywords)
    val, buf, nav, pad = [0], [], [2], []
    if c["nav"] and c["gen"] == 0 and emitted[0] == 0:
        rng = random.Random(c["seed"])
        val, buf = make_value(c, rng)
        pad = [rng.randrange(256) for _ in range(64)]           # the rest of the record

        def deliver():
            from stingray.schema_instance import SchemaMaker, BytesInstance
            schema = SchemaMaker.from_json(holder["js"])
            nav = shared_unpacker().nav(schema, BytesInstance(bytes(buf + pad)))
            return nav.name(holder["name"]).value()
        nav = observe_call(deliver, lambda v: [PYTYPES.get(type(v).__name__, 99), canon(v)])
        if nav[0] == 0:
            nav = [0, nav[1][0], nav[1][1]]
    return [1, c["gen"], c["u"], c["pic"], S(text), val, buf, emitted, nav, pad]


# ---------------------------------------------------------------- data names (the clean spelling, and names that begin with a digit)

# which data names of a description begin with a digit
DN_MODES = ["all", "elem", "group", "redef", "counter", "one", "mixed"]


def dn_spell(i, digit):
    """the data name of item i in the digit-names streams (this runner's OWN pool): a COBOL data name needs one letter
    somewhere, not first - upper, mixed and lower case as in the clean pool"""
    if digit:
        return [f"{i}N", f"{i}-Fld", f"9x{i}", f"{i}ST-NAME", f"0{i}-cnt"][i % 5]
    return [f"N{i}", f"Nm-{i}", f"fld-{i}x", f"N{i}", f"Q{i}-Cnt"][i % 5]


def dn_roles(tree):
    """ids of the named entries by role"""
    roles = dict(all=[], elem=[], group=[], redef=[], counter=[])

    def go(n):
        if not n["filler"]:
            roles["all"].append(n["id"])
            roles["elem" if n["kind"] == "elem" else "group"].append(n["id"])
        if n["redef"] is not None:
            roles["redef"].append(n["redef"])
            if not n["filler"]:
                roles["redef"].append(n["id"])
        if n["occ"] is not None and n["occ"][0] == "odo":
            roles["counter"].append(n["occ"][1])
            if not n["filler"]:
                roles["counter"].append(n["id"])
        for k in n["kids"]:
            go(k)
    go(tree)
    return {k: sorted(set(v)) for k, v in roles.items()}


def dn_digits(tree, dn):
    """the ids whose data name begins with a digit (never empty)"""
    import random
    roles = dn_roles(tree)
    r = random.Random(dn["seed"])
    mode = dn["mode"]
    if mode == "one":
        ids = [r.choice(roles["all"])]
    elif mode == "mixed":
        ids = [i for i in roles["all"] if r.random() < 0.5]
    else:
        ids = roles[mode]
    return set(ids) or {r.choice(roles["all"])}


def dn_tree(c):
    """the description of a digit-names case: the first tree of the case's seeds in which the role asked for occurs"""
    mode = c["dn"]["mode"]
    for k in range(40):
        tree, fillers = make_tree(dict(c, seed=c["seed"] + 7919 * k))
        if mode not in ("redef", "counter") or dn_roles(tree)[mode]:
            break
    return tree, fillers


def case_tree(c):
    return dn_tree(c) if c.get("dn") else make_tree(c)


def naming(c, tree):
    """(spelling of the data name of id i, id -> unique name of the entries of tree)"""
    if c.get("dn"):
        digits = dn_digits(tree, c["dn"])
        nm = lambda i: dn_spell(i, i in digits)
    else:
        nm = spell
    names, fill = {}, [0]

    def go(n):
        if n["filler"]:
            fill[0] += 1
            names[n["id"]] = f"FILLER-{fill[0]}"
        else:
            names[n["id"]] = nm(n["id"])
        for k in n["kids"]:
            go(k)
    go(tree)
    assert len(set(names.values())) == len(names)
    return nm, names


def print_named(tree, nm):
    """layout_common.print_copybook with the data names spelled by nm"""
    if nm is spell:
        return print_copybook(tree)
    lines = []

    def go(n, depth):
        level = "01" if depth == 0 else f"{depth * 5:02d}"
        ind = " " * (7 + 4 * min(depth, 6))
        parts = [f"{level}  {'FILLER' if n['filler'] else nm(n['id'])}"]
        if n["redef"] is not None:
            parts.append(f"REDEFINES {nm(n['redef'])}")
        if n["occ"] is not None:
            if n["occ"][0] == "times":
                parts.append(f"OCCURS {n['occ'][1]} TIMES")
            else:
                v = n["id"] % 6
                lower = "" if v in (1, 4) else "0 TO "
                times = "" if v in (2, 4) else " TIMES"
                on = "" if v in (3, 5) else " ON"
                parts.append(f"OCCURS {lower}{n['occ'][2]}{times}")
                parts.append(f"DEPENDING{on} {nm(n['occ'][1])}")
        if n["kind"] == "elem":
            parts.append(f"PIC {n['pic']}")
            if n["usage"] != "DISPLAY":
                parts.append(f"USAGE {n['usage']}")
            parts += extra_clauses(n)
        for j, p in enumerate(parts):
            lines.append((ind if j == 0 else ind + "    ") + p + ("." if j == len(parts) - 1 else ""))
        for k in n["kids"]:
            go(k, depth + 1)
    go(tree, 0)
    assert all(len(l) < 72 for l in lines)
    return "\n".join(lines) + "\n"


def meta_errors(js):
    """every error the real validator reports for the document under the 2020-12 meta-schema: (keyword of the meta-schema
    that failed, last step of the path into the document, offending value), in a fixed order"""
    from lib import S
    from jsonschema import Draft202012Validator
    out = []
    for e in Draft202012Validator(Draft202012Validator.META_SCHEMA).iter_errors(js):
        last = e.absolute_path[-1] if e.absolute_path else ""
        out.append([S(str(e.validator)), S(last) if isinstance(last, str) else [], json_sx(e.instance)])
    return sorted(out, key=repr)


# ---------------------------------------------------------------- kind 2: record trees


def make_tree(c):
    import random
    rng = random.Random(c["seed"])
    tree = gen_tree(rng, **c["opts"])
    fillers = []
    if c.get("filler_redef"):
        def go(n):
            if n["redef"] is not None and rng.random() < 0.5:
                n["filler"] = True
            for k in n["kids"]:
                go(k)
        go(tree)

    def collect(n):
        if n["filler"]:
            fillers.append(n["id"])
        for k in n["kids"]:
            collect(k)
    collect(tree)
    return tree, fillers


def key_sx(name, rev):
    if name is None:
        return [0]
    if name.startswith("REDEFINES-"):
        return [1, [1, rev.get(name[len("REDEFINES-"):], 999999)]]
    return [1, [0, rev.get(name, 999999)]]


def resolved_sites(schema, rev):
    """every RefToSchema / DependsOnArraySchema of the loaded graph in document order (an array's own reference after
    the sites inside its items): (name referred to, class of the object bound, its $anchor)"""
    from stingray.schema_instance import ArraySchema, DependsOnArraySchema, ObjectSchema, OneOfSchema, RefToSchema
    out = []

    def bound(target):
        if target is None:
            return [9, [0]]
        return [CLASSES.get(type(target).__name__, 9), key_sx(target._attributes.get("$anchor"), rev)]

    def go(s):
        if isinstance(s, RefToSchema):
            out.append([key_sx(s.ref.lstrip("#"), rev)[1], bound(s.ref_to)])
        elif isinstance(s, OneOfSchema):
            for a in s.alternatives:
                go(a)
        elif isinstance(s, ArraySchema):
            go(s._items)
            if isinstance(s, DependsOnArraySchema):
                out.append([key_sx(s.max_ref.lstrip("#"), rev)[1], bound(s.max_ref_to)])
        elif isinstance(s, ObjectSchema):
            for v in s.properties.values():
                go(v)
    go(schema)
    return out


def clean(x):
    """wire forms hold integers only: anything else the implementation put into the document becomes -1"""
    if isinstance(x, bool):
        return int(x)
    if isinstance(x, int):
        return x
    if isinstance(x, (list, tuple)):
        return [clean(i) for i in x]
    return -1


def tree_copybook(c):
    """the copybook text: the record of interest between other 01 records (before: c['before'], default 1; after: 0 or 1).
    The other records are clean trees of the same generator, so they declare the SAME data names (N<id>, FILLER)
    with other pictures, usages and structure.  Returns (text, index of the record of interest, number of records)."""
    import random
    tree, fillers = case_tree(c)
    nm, _ = naming(c, tree)
    r = random.Random(c["seed"] * 5 + 1)
    before = c.get("before", 1)
    after = c.get("after", r.randrange(2))
    texts = []
    for i in range(before + after):
        other = gen_tree(random.Random(r.randrange(1 << 30)))
        texts.append(print_named(other, nm))
    texts.insert(before, print_named(tree, nm))
    return "".join(texts), before, before + after + 1


class EmittedSizes:
    """size of an elementary schema AS THE DOCUMENT STATES IT: minLength (= maxLength); the inner item of an elementary
    OCCURS carries no lengths, there the size is what the run's one long-lived unpacker computes"""
    def calcsize(self, schema):
        a = schema.attributes
        if "minLength" in a or "maxLength" in a:
            mn, mx = a.get("minLength"), a.get("maxLength")
            return mn if (isinstance(mn, int) and mn == mx) else -1
        return shared_unpacker().calcsize(schema)


def records_of(it, n):
    """the first n results of an iterator of documents, an exception in place of the record that raised (later ones are lost)"""
    out = []
    for _ in range(n):
        try:
            out.append(next(it))
        except StopIteration:
            break
        except BaseException as ex:
            if isinstance(ex, (KeyboardInterrupt, SystemExit, MemoryError)):
                raise
            out.append(ex)
    return out


def observe_tree(c):
    from lib import exn_code, S
    tree, fillers = case_tree(c)
    _, names = naming(c, tree)
    rev = {v: k for k, v in names.items()}
    cb, pos, nrec = tree_copybook(c)
    from stingray.cobol_parser import schema_iter, structure, dde_sentences, reference_format, JSONSchemaMakerExtendedVocabulary
    from stingray.schema_instance import SchemaMaker
    from jsonschema import Draft202012Validator
    docs = records_of(iter(schema_iter(io.StringIO(cb))), nrec)
    js = docs[pos] if pos < len(docs) else RuntimeError("record missing")
    if isinstance(js, BaseException):
        js, schema_obs = None, [1, exn_code(js)]
    else:
        schema_obs = [0, clean(schema_sx(js, rev, EmittedSizes()))]
    maker = JSONSchemaMakerExtendedVocabulary()                   # one generator for all records, as schema_iter has
    xdocs = records_of((maker.jsonschema(dde) for dde in structure(dde_sentences(reference_format(io.StringIO(cb))))), nrec)
    xjs = xdocs[pos] if pos < len(xdocs) else RuntimeError("record missing")
    if isinstance(xjs, BaseException):
        ext_obs = [1, exn_code(xjs)]
    else:
        ext_obs = [0, clean(schema_sx(xjs, rev, EmittedSizes()))]
    check_obs, load_obs, sites, errors = [2], [2], [], []
    if js is not None:
        try:
            Draft202012Validator.check_schema(js)
            check_obs = [0]
        except Exception:
            check_obs = [1]
        errors = meta_errors(js)
        try:
            schema = SchemaMaker.from_json(js)
            load_obs = [0]
            sites = resolved_sites(schema, rev)
        except BaseException as ex:
            if isinstance(ex, (KeyboardInterrupt, SystemExit, MemoryError)):
                raise
            load_obs = [1, exn_code(ex)]
    # the names the harness printed (id, unique name) and what the real validator objects to, error by error
    return [2, tree_sx(tree), fillers, schema_obs, ext_obs, check_obs, load_obs, sites,
            [[i, S(names[i])] for i in sorted(names)], errors]


# ---------------------------------------------------------------- kind 3: the document against the meta-schema


def json_sx(v):
    if v is None:
        return [0]
    if isinstance(v, bool):
        return [1, int(v)]
    if isinstance(v, int):
        return [2, v]
    if isinstance(v, str):
        return [3, [ord(ch) for ch in v]]
    if isinstance(v, list):
        return [4, [json_sx(x) for x in v]]
    if isinstance(v, dict):
        return [5, [[[ord(ch) for ch in k], json_sx(x)] for k, x in v.items()]]
    return [6]


# (keyword to break, replacement) - one keyword of one sub-schema at a time
MUTATIONS = [
    ("oneOf", []), ("$anchor", "1bad"), ("$anchor", "has space"), ("$anchor", 7), ("type", "strng"), ("type", 3), ("type", []),
    ("type", ["string", "string"]), ("type", ["string", "null"]), ("maxLength", -1), ("minLength", "3"), ("maxItems", -2), ("maxItems", None),
    ("properties", []), ("properties", "x"), ("items", []), ("items", 3), ("items", True), ("oneOf", {}), ("oneOf", [3]), ("$ref", 5), ("$ref", "#X Y"),
    ("title", 5), ("contentEncoding", ["cp037"]), ("cobol", 12), ("conversion", {"a": 1}), ("maxItemsDependsOn", "x"), ("$anchor", "a.b-c_d"),
    ("minLength", 0), ("type", "null"), ("oneOf", [True]), ("properties", {"x": 3}), ("properties", {"x": False}),
]


def sub_schemas(d, acc):
    if isinstance(d, dict):
        acc.append(d)
        for x in d.get("oneOf", []):
            sub_schemas(x, acc)
        if "items" in d:
            sub_schemas(d["items"], acc)
        for x in d.get("properties", {}).values():
            sub_schemas(x, acc)
    return acc


def observe_meta(c):
    import copy
    import random
    tree, _ = case_tree(dict(c, opts={}, filler_redef=True))
    nm, names = naming(c, tree)
    cb = print_named(tree, nm)
    from stingray.cobol_parser import schema_iter
    from jsonschema import Draft202012Validator
    (js,) = list(schema_iter(io.StringIO(cb)))
    js = copy.deepcopy(js)
    if c["mut"]:
        key, repl = MUTATIONS[c["mut"] - 1]
        nodes = [d for d in sub_schemas(js, []) if key in d]
        if not nodes:
            return None
        random.Random(c["pick"]).choice(nodes)[key] = copy.deepcopy(repl)
    try:
        Draft202012Validator.check_schema(js)
        verdict = 0
    except Exception:
        verdict = 1
    if c["mut"]:
        return [3, c["mut"], json_sx(js), verdict, [], []]
    # the unchanged document travels with the record description it was printed from, so that the judge can render the
    # MODEL's document (Model/SchemaDoc.v doc_of over Model/Layout.v build) and compare it with the emitted one member by member
    from stingray.cobol_parser import structure, dde_sentences, reference_format, JSONSchemaMakerExtendedVocabulary
    maker = JSONSchemaMakerExtendedVocabulary()
    (xjs,) = [maker.jsonschema(dde) for dde in structure(dde_sentences(reference_format(io.StringIO(cb))))]
    try:
        Draft202012Validator.check_schema(xjs)
        xverdict = 0
    except Exception:
        xverdict = 1
    return [3, 0, json_sx(js), verdict, tree_sx(tree), text_table(tree, nm, names), json_sx(xjs), xverdict, meta_errors(js)]


def text_table(tree, nm, names):
    """what the generator wrote for every entry: (id, unique name, data name as written, USAGE spelling index, PICTURE text)"""
    from lib import S
    rows = []

    def go(n):
        title = "FILLER" if n["filler"] else nm(n["id"])
        if n["kind"] == "elem":
            rows.append([n["id"], S(names[n["id"]]), S(title), SPELLINGS.index(n["usage"]), S(n["pic"])])
        else:
            rows.append([n["id"], S(names[n["id"]]), S(title), DISPLAY, []])
        for k in n["kids"]:
            go(k)
    go(tree)
    return rows


def observe(ctx, c):
    if c["k"] == 1:
        return observe_field(c)
    if c["k"] == 2:
        return observe_tree(c)
    return observe_meta(c)


def describe(c):
    if c["k"] == 1:
        return dict(c, picture=pic_text(c["pic"]), usage=SPELLINGS[c["u"]], generator="extended" if c["gen"] else "standard",
                    copybook=field_copybook(c), record_of_interest=field_records(c)[1], item=c.get("target", "FLD"))
    if c["k"] == 2:
        cb, pos, nrec = tree_copybook(c)
        return dict(c, copybook=cb, record_of_interest=pos)
    tree, _ = case_tree(dict(c, opts={}, filler_redef=True))
    return dict(c, mutation=(MUTATIONS[c["mut"] - 1] if c["mut"] else None), copybook=print_named(tree, naming(c, tree)[0]))
