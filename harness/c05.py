"""C05 - record framing: what was written in a RECFM is what is read back
(estruct.RECFM_F / RECFM_V / RECFM_VB / RECFM_N: record_iter, rdw_iter, bdw_iter, used).

The harness WRITES file images (struct.pack + concatenation: test-input construction), runs the real readers on
them and serialises what they yielded.  The judge re-derives the image from the records with the Coq Spec writer
(verdict 9 when the harness image differs), decides the property on the observation and compares it with the model.
"""
import atexit
import io
import itertools
import os
import re
import shutil
import struct
import tempfile

from lib import exn_code

GEN = ["RecfmParams"]
RULE = ("record lists written as F (lrecl 1..65536), V, VB (random legal blockings incl. blocks of exactly 65535 bytes) and N; "
        "lengths concentrated on 1, 2, 16383-16385, 20000, 32756-32768 (N: straddling the 32768-byte refill boundary), 65531 and random; "
        "V and VB (single-pass and resumed alike): about half of the files also hold records WITHOUT data bytes (length word 4) - first, between others, last, "
        "several in a row, nothing but empty records; in VB per block (first / middle / last of a block, a block of empty records only, a block with no record, "
        "an empty record as the last 4 bytes of a block of exactly 65535 bytes); F and N have no empty records (outside their domains); "
        "resumed reading: F / V / VB files read in 2-5 passes on one reader object (islice of record_iter / rdw_iter / bdw_iter, cut points 0, 1, all-but-one, all, beyond, random; VB record-level cuts at block boundaries, 15% inside a block = outside the domain), each pass must deliver exactly its share; "
        "both io.BufferedReader and io.BytesIO sources; thorough adds all ordered pairs of 19 boundary lengths and all triples of 8 for N. "
        "Branch = 10*format (0 F, 1 V, 2 VB, 3 N, 4/5/6 = F/V/VB resumed) + class: 0 no records, 1/2 in the domain (N: 2 = file longer than the buffer; VB: 2 = some block "
        "holds several records; F: 2 = lrecl + 4 does not fit a length word), 6/7 in the domain with empty records (V, VB: 6 = some record is empty; VB: 7 = some block ENDS "
        "with an empty record - the input repaired by eee0fb2), "
        "3 / 9 = outside the property's domain (illegal record list / raw or corrupt image) and the implementation equals the model, "
        "4 / 8 (F also 5) = outside the domain and the implementation differs from the model (informational, never an alarm: "
        "the property says nothing there). Non-trivial = at least one record; distinct = distinct case lines.")
TRIVIAL_BRANCHES = [0, 10, 20, 30, 40, 50, 60]
ASSUMPTIONS = [
    "source.read(n) on a regular file or BytesIO returns exactly min(n, remaining) bytes (short reads of pipes/sockets are outside the property)",
    "read(n) for n < 0: io.BufferedReader raises ValueError for n < -1 and reads to EOF for -1; io.BytesIO reads to EOF (modelled; reached only by corrupt headers, outside the theorems)",
    "struct '>H2x' = two-byte big-endian unsigned length followed by two pad bytes (modelled by hand, tied by this run and by the T1 format check)",
    "assert statements are enabled (no python -O): RECFM_VB reports a corrupt block by AssertionError",
    "resumed reading: an abandoned iterator is never resumed; a RECFM_VB record-level iterator abandoned inside a block keeps the rest of that block (inherent: outside the property, modelled)",
    "the consumer of RECFM_N calls used(n) exactly once per buffer with the true record length (the theorem's driving sequence)",
]
TRUSTED = ["harness/c05.py: image writer (checked by the judge against Spec.write_*), lossless run-length form of byte strings (enc)",
           "harness/t1_c05.py: AST shapes of RECFM_N.__init__/record_iter, the struct formats and the assert of RECFM_VB._data_iter"]

FMT = {"F": 0, "V": 1, "VB": 2, "N": 3}
BOUNDARY_N = [1, 2, 16383, 16384, 16385, 20000] + list(range(32756, 32769))
TRIPLE_N = [1, 2, 16384, 20000, 32756, 32760, 32767, 32768]

# ------------------------------------------------------------------ byte strings on the wire

_RUNS = re.compile(rb"(.)\1{2,}", re.S)


def enc(b):
    """bytes -> segments: [0, b...] literal, [1, start, step, count] arithmetic progression mod 256 (lossless)."""
    n = len(b)
    segs = []
    pos = 0
    if n >= 4:
        d = bytes((y - x) & 255 for x, y in zip(b, b[1:]))
        for m in _RUNS.finditer(d):
            i, j = m.span()            # deltas i..j-1 are equal: bytes i..j are a progression
            if i < pos:
                i = pos
            cnt = j - i + 1
            if cnt < 4:
                continue
            _lit(segs, b, pos, i)
            segs.append([1, b[i], d[i], cnt])
            pos = j + 1
    _lit(segs, b, pos, n)
    return segs


def _lit(segs, b, a, z):
    """literal segments of at most 2000 bytes (Coq's parser overflows its stack on very long list literals)"""
    while a < z:
        segs.append([0] + list(b[a:min(z, a + 2000)]))
        a += 2000


def mk(spec):
    """record spec -> bytes: hex string (literal) or [n, start, step]"""
    if isinstance(spec, str):
        return bytes.fromhex(spec)
    n, start, step = spec
    pat = bytes((start + k * step) & 255 for k in range(256))
    return (pat * (n // 256 + 1))[:n]


# ------------------------------------------------------------------ sources

_TMP = []


def _tmpdir():
    if not _TMP:
        _TMP.append(tempfile.mkdtemp(prefix="c05_"))
        atexit.register(shutil.rmtree, _TMP[0], True)
    return _TMP[0]


def open_src(kind, image):
    if kind == 1:
        return io.BytesIO(image)
    path = os.path.join(_tmpdir(), "image.bin")
    with open(path, "wb") as f:
        f.write(image)
    return open(path, "rb")


def _end_exc(ex):
    if isinstance(ex, (KeyboardInterrupt, SystemExit, MemoryError)):
        raise ex
    return [1, exn_code(ex)]


def drain(kind, image, make_iter):
    """run one iterator to its end; (items, ending, tell)"""
    cap = len(image) + 8
    items = []
    with open_src(kind, image) as src:
        try:
            end = [0]
            for x in make_iter(src):
                items.append(enc(x))
                if len(items) >= cap:
                    end = [2]
                    break
        except BaseException as ex:
            end = _end_exc(ex)
        return [items, end, src.tell()]


def drive_N(cls, kind, image, lens):
    """the RECFM_N protocol: for each buffer take buffer[:n] and announce used(n); n = 0 -> used is not called"""
    items = []
    with open_src(kind, image) as src:
        try:
            reader = cls(src)
            end = [0]
            i = 0
            for buf in reader.record_iter():
                if i >= len(lens):
                    items.append([len(buf), []])
                    end = [3]
                    break
                n = lens[i]
                i += 1
                items.append([len(buf), enc(buf[:n])])
                if n:
                    reader.used(n)
        except BaseException as ex:
            end = _end_exc(ex)
        return [items, end, src.tell()]


def multi_pass(make_reader, kind, image, passes):
    """resumed reading: every pass starts a NEW iterator on the SAME reader; a pass with k >= 0 takes k items with
    islice and leaves its iterator suspended (the abandoned iterators stay referenced until the source is closed)"""
    obs = []
    abandoned = []
    with open_src(kind, image) as src:
        reader = make_reader(src)
        cap = len(image) + 8
        for w, k in passes:
            items = []
            end = [0]
            try:
                it = [reader.record_iter, reader.rdw_iter, getattr(reader, "bdw_iter", None)][w]()
                abandoned.append(it)
                for x in itertools.islice(it, k if k >= 0 else cap):
                    items.append(enc(x))
            except BaseException as ex:
                end = _end_exc(ex)
            obs.append([items, end, src.tell()])
        del abandoned[:]
    return obs


# ------------------------------------------------------------------ observe


def observe(ctx, inp):
    from stingray import estruct
    fmt = inp["fmt"]
    kind = inp.get("kind", 0)
    lrecl = inp.get("lrecl")
    lens = []
    if "raw" in inp:
        clean, recs_sx = 0, []
        image = bytes.fromhex(inp["raw"])
        lens = inp.get("lens", [])
    else:
        clean = 1
        if fmt == "VB":
            blocks = [[mk(r) for r in b] for b in inp["blocks"]]
            recs_sx = [[enc(r) for r in b] for b in blocks]
            parts = []
            for b in blocks:
                body = b"".join(struct.pack(">H2x", len(r) + 4) + r for r in b)
                parts.append(struct.pack(">H2x", len(body) + 4) + body)
            image = b"".join(parts)
        else:
            recs = [mk(r) for r in inp["recs"]]
            recs_sx = [enc(r) for r in recs]
            if fmt == "V":
                image = b"".join(struct.pack(">H2x", len(r) + 4) + r for r in recs)
            else:
                image = b"".join(recs)
            if fmt == "N":
                lens = inp.get("lens", [len(r) for r in recs])
    empty = [[], [0], 0]
    if "passes" in inp:
        passes = [list(p) for p in inp["passes"]]
        make = {"F": lambda src: estruct.RECFM_F(src, lrecl), "V": estruct.RECFM_V, "VB": estruct.RECFM_VB}[fmt]
        obs = multi_pass(make, kind, image, passes)
        return [FMT[fmt] + 4, kind, clean, lrecl or 0, recs_sx, passes, enc(image), obs, [], []]
    if fmt == "F":
        oA = drain(kind, image, lambda s: estruct.RECFM_F(s, lrecl).record_iter())
        oB = drain(kind, image, lambda s: estruct.RECFM_F(s, lrecl).rdw_iter())
        oC = empty
    elif fmt == "V":
        oA = drain(kind, image, lambda s: estruct.RECFM_V(s).record_iter())
        oB = drain(kind, image, lambda s: estruct.RECFM_V(s).rdw_iter())
        oC = empty
    elif fmt == "VB":
        oA = drain(kind, image, lambda s: estruct.RECFM_VB(s).record_iter())
        oB = drain(kind, image, lambda s: estruct.RECFM_VB(s).rdw_iter())
        oC = drain(kind, image, lambda s: estruct.RECFM_VB(s).bdw_iter())
    else:
        oA = drive_N(estruct.RECFM_N, kind, image, lens)
        oB = oC = empty
    return [FMT[fmt], kind, clean, lrecl or 0, recs_sx, lens, enc(image), oA, oB, oC]


def describe(inp):
    def one(r):
        return f"{len(r) // 2}B:{r[:16]}" if isinstance(r, str) else f"{r[0]}B(start {r[1]} step {r[2]})"
    d = {k: v for k, v in inp.items() if k not in ("recs", "blocks")}
    if "passes" in inp:
        names = ["record_iter", "rdw_iter", "bdw_iter"]
        d["passes"] = [f"{names[w]} x{k}" if k >= 0 else f"{names[w]} to the end" for w, k in inp["passes"]]
    if "recs" in inp:
        d["recs"] = [one(r) for r in inp["recs"][:12]] + (["..."] if len(inp["recs"]) > 12 else [])
        d["n_recs"] = len(inp["recs"])
    if "blocks" in inp:
        d["blocks"] = [[one(r) for r in b[:6]] + (["..."] if len(b) > 6 else []) for b in inp["blocks"][:6]]
        d["n_blocks"] = len(inp["blocks"])
    return d


# ------------------------------------------------------------------ generators


def rec(rng, n):
    if n <= 48 and rng.random() < 0.5:
        return rng.randbytes(n).hex()
    return [n, rng.randrange(256), rng.choice([1, 3, 5, 7, 11, 13, 37, 101, 127, 129, 251, 255, 2, 6])]


def small_len(rng):
    return rng.choice([1, 1, 2, 3, 4, 5, 8, 80, 251, 252, 253, 255, 256, 257, rng.randint(1, 40), rng.randint(1, 600)])


def big_len(rng, top):
    c = [1, 2, 16383, 16384, 16385, 20000, 32752, 32756, 32760, 32764, 32767, 32768, top - 1, top, rng.randint(1, top), rng.randint(1, top)]
    return min(top, rng.choice(c))


def gen_F(rng, big):
    if big:
        lrecl = rng.choice([4096, 16384, 20000, 32756, 32760, 32768, 65531, 65532, 65536, rng.randint(1000, 70000)])
        k = rng.randint(1, max(1, 70000 // lrecl))
    else:
        lrecl = small_len(rng)
        k = rng.randint(0, 12)
    return {"fmt": "F", "kind": rng.randrange(2), "lrecl": lrecl, "recs": [rec(rng, lrecl) for _ in range(k)]}


def with_empties(rng, lens, p_none):
    """record lengths -> the same lengths with records of length 0 put in: none, last, first, between two others,
    two or three in a row (anywhere, the end included), only empty records, or each gap with probability 0.3"""
    style = 0 if rng.random() < p_none else rng.choice([1, 1, 2, 3, 4, 5, 6])
    lens = list(lens)
    if style == 0:
        return lens
    if style == 1:
        return lens + [0]
    if style == 2:
        return [0] + lens
    if style == 3:
        if len(lens) < 2:
            return lens + [0]
        k = rng.randint(1, len(lens) - 1)
        return lens[:k] + [0] + lens[k:]
    if style == 4:
        k = rng.choice([0, len(lens), len(lens), rng.randint(0, len(lens))])
        return lens[:k] + [0] * rng.randint(2, 3) + lens[k:]
    if style == 5:
        return [0] * rng.randint(1, 4)
    out = []
    for n in lens:
        if rng.random() < 0.3:
            out.append(0)
        out.append(n)
    if rng.random() < 0.5:
        out.append(0)
    return out


def gen_V(rng, big):
    if big:
        lens = [big_len(rng, 65531) for _ in range(rng.randint(1, 2))] + [small_len(rng) for _ in range(rng.randint(0, 4))]
        rng.shuffle(lens)
    else:
        lens = [small_len(rng) for _ in range(rng.randint(0, 14))]
    lens = with_empties(rng, lens, 0.45)
    return {"fmt": "V", "kind": rng.randrange(2), "recs": [rec(rng, n) for n in lens]}


def gen_VB(rng, big):
    blocks = []
    p_none = 1.0 if rng.random() < 0.35 else 0.5            # a third of the files hold no empty record at all
    for _ in range(rng.randint(0 if not big else 1, 5 if not big else 2)):
        if p_none < 1.0 and rng.random() < 0.06:
            blocks.append([])                                 # a block with no record (BDW 4): legal, yields nothing
            continue
        lens = []
        style = rng.randrange(4)
        want = rng.randint(1, 9)
        # where the records without data bytes of this block go is drawn first, so that the blocks that are filled
        # to exactly 65535 bytes stay exactly full with them (each costs its 4-byte descriptor word)
        probe = with_empties(rng, [1] * want, p_none)
        n_empty = probe.count(0)
        only_empty = 1 not in probe
        room = 65535 - 4 - 4 * n_empty
        while not only_empty and len(lens) < want and room >= 5:
            if big and style == 0:
                n = room - 4                                  # one record filling the block to exactly 65535
            elif big and style == 1:
                n = min(room - 4, big_len(rng, 65527))
            elif big and style == 2 and len(lens) == want - 1:
                n = room - 4                                  # last record tops the block up to 65535
            else:
                n = min(room - 4, small_len(rng))
            lens.append(n)
            room -= n + 4
        # put the drawn pattern of empties around the records actually made (fewer than [want] when the block filled up)
        out, it = [], iter(lens)
        for x in probe:
            if x == 0:
                out.append(0)
            else:
                n = next(it, None)
                if n is not None:
                    out.append(n)
        blocks.append([rec(rng, n) for n in out])
    return {"fmt": "VB", "kind": rng.randrange(2), "blocks": blocks}


def gen_N(rng, big):
    if big:
        style = rng.randrange(5)
        if style == 0:                                       # equal records (fixed-length file read as N)
            n = rng.choice(BOUNDARY_N + [10000, 30000])
            lens = [n] * rng.randint(2, 5)
        elif style == 1:                                     # many small records then boundary ones
            lens = [rng.randint(1, 6000) for _ in range(rng.randint(3, 10))] + [rng.choice(BOUNDARY_N) for _ in range(rng.randint(1, 2))]
        else:
            lens = [rng.choice(BOUNDARY_N + [rng.randint(1, 32768), rng.randint(1, 32768), rng.randint(1, 300)])
                    for _ in range(rng.randint(2, 5))]
    else:
        lens = [small_len(rng) for _ in range(rng.randint(0, 10))]
    return {"fmt": "N", "kind": rng.randrange(2), "recs": [rec(rng, n) for n in lens]}


def gen_raw(rng):
    fmt = rng.choice(["F", "V", "V", "VB", "VB", "VB", "N"])
    n = rng.randint(0, 40)
    pool = rng.choice([[0, 0, 0, 1, 4, 5, 6, 8, 9, 12], list(range(16)), list(range(256))])
    image = bytes(rng.choice(pool) for _ in range(n))
    inp = {"fmt": fmt, "kind": rng.randrange(2), "raw": image.hex()}
    if fmt == "F":
        inp["lrecl"] = rng.choice([None, 0, 1, 2, 3, 5, 7, 64, -1, -2, -5])
    if fmt == "N":
        inp["lens"] = [rng.choice([0, 1, 2, 3, 5, n, n + 3]) if rng.random() < 0.3 else rng.randint(1, 6) for _ in range(rng.randint(0, 12))]
    return inp


def vb_corrupt(rng):
    """a legal small VB image with one header byte changed: inside the model, outside the theorem"""
    blocks = []
    for _ in range(rng.randint(1, 3)):
        blocks.append([rng.randbytes(rng.randint(0, 6)) for _ in range(rng.randint(0, 4))])
    parts = []
    for b in blocks:
        body = b"".join(struct.pack(">H2x", len(r) + 4) + r for r in b)
        parts.append(struct.pack(">H2x", len(body) + 4) + body)
    image = bytearray(b"".join(parts))
    if image and rng.random() < 0.7:
        k = rng.randrange(len(image))
        image[k] = rng.choice([0, 1, 3, 4, 5, 8, image[k] ^ 1, 255])
    if rng.random() < 0.2:
        del image[rng.randrange(len(image) + 1):]
    return {"fmt": rng.choice(["VB", "VB", "V"]), "kind": rng.randrange(2), "raw": bytes(image).hex()}


def cut_points(rng, n):
    """how many items each partial pass takes out of n: 0, 1, all-but-one, all, more than all, random"""
    cuts = []
    left = n
    for _ in range(rng.randint(1, 4)):
        k = rng.choice([0, 1, 1, 2, max(left - 1, 0), left, left + 2, rng.randint(0, left + 1), rng.randint(0, left + 1)])
        cuts.append(k)
        left = max(left - k, 0)
    return cuts


def gen_multi(rng, fmt, big):
    """one file, one reader, several iterators one after the other; the last pass runs to exhaustion"""
    if fmt == "F":
        inp = gen_F(rng, big)
        if inp["lrecl"] > 65531:
            inp["lrecl"] = 65531
            inp["recs"] = [rec(rng, 65531) for _ in inp["recs"][:2]]
        if not big:
            inp["recs"] = [rec(rng, inp["lrecl"]) for _ in range(rng.randint(0, 14))]
        inp["passes"] = [[rng.randrange(2), k] for k in cut_points(rng, len(inp["recs"]))] + [[rng.randrange(2), -1]]
    elif fmt == "V":
        inp = gen_V(rng, big)
        inp["passes"] = [[rng.randrange(2), k] for k in cut_points(rng, len(inp["recs"]))] + [[rng.randrange(2), -1]]
    else:
        inp = gen_VB(rng, big)
        while not big and len(inp["blocks"]) < 2 and rng.random() < 0.8:
            inp = gen_VB(rng, big)
        blocks = inp["blocks"]
        inside = rng.random() < 0.15           # some record-level cuts inside a block (outside the property, model only)
        passes = []
        at = 0                                  # index of the next unread block
        for _ in range(rng.randint(1, 4)):
            w = rng.randrange(3)
            j = rng.choice([0, 1, 1, 2, len(blocks) - at - 1, len(blocks) - at, rng.randint(0, len(blocks) - at + 1)])
            j = max(j, 0)
            if w == 2:
                k = j
            else:
                k = sum(len(b) for b in blocks[at:at + j])
                if inside and k > 0:
                    k -= 1
            passes.append([w, k])
            at = min(at + j, len(blocks))
        inp["passes"] = passes + [[rng.randrange(3), -1]]
    return inp


def fixed_cases():
    three = [[20000, 1, 1], [20000, 2, 3], [20000, 3, 5]]
    yield {"fmt": "N", "kind": 0, "recs": three}                                       # the record list the original tree mis-read
    yield {"fmt": "N", "kind": 1, "recs": three}
    yield {"fmt": "N", "kind": 0, "recs": [[32768, 0, 1], [32768, 7, 3], [1, 9, 1]]}
    yield {"fmt": "N", "kind": 0, "recs": [[32767, 0, 1], [2, 7, 3], [32768, 9, 1], [1, 1, 1]]}
    yield {"fmt": "N", "kind": 0, "recs": [[100, 0, 1], [200, 7, 3]], "lens": [100, 0]}  # consumer forgets used(): RuntimeError
    yield {"fmt": "N", "kind": 0, "recs": [[100, 0, 1], [200, 7, 3]], "lens": [100]}     # consumer stops early
    yield {"fmt": "N", "kind": 0, "recs": [[40000, 0, 1], [5, 7, 3]]}                    # record longer than the buffer: outside the domain
    yield {"fmt": "N", "kind": 0, "recs": [[1, k, 1] for k in range(40)] + [[32768, 5, 7], [1, 0, 1]]}
    yield {"fmt": "F", "kind": 0, "lrecl": 4, "recs": ["c1c2c3c4", "c5c6c7c8"]}
    # resumed reading: header record with one iterator, the rest with another; batches; block-wise copy
    yield {"fmt": "V", "kind": 1, "recs": ["c8c4d9", "c1c2c3c4", "c5c6", "c7"], "passes": [[0, 1], [1, -1]]}
    yield {"fmt": "V", "kind": 0, "recs": [[300, 1, 1], [5, 2, 3], [20000, 3, 5], [1, 4, 7], [7, 5, 1]], "passes": [[0, 2], [0, 2], [0, 2], [0, -1]]}
    yield {"fmt": "V", "kind": 0, "recs": ["c1", "c2c3"], "passes": [[0, 0], [1, 5], [0, -1]]}
    yield {"fmt": "F", "kind": 0, "lrecl": 3, "recs": ["c1c2c3", "c4c5c6", "c7c8c9"], "passes": [[0, 1], [1, 1], [0, -1]]}
    yield {"fmt": "F", "kind": 0, "lrecl": None, "recs": ["c1c2"], "passes": [[0, 0], [0, 1], [0, -1]]}
    yield {"fmt": "VB", "kind": 1, "blocks": [["c8c4d9"], ["c1c2", "c3"], ["c4", "c5c6c7"]], "passes": [[0, 1], [0, -1]]}
    yield {"fmt": "VB", "kind": 0, "blocks": [["c8c4d9"], ["c1c2", "c3"], ["c4", "c5c6c7"], ["c8"]], "passes": [[2, 1], [1, 2], [2, 1], [0, -1]]}
    yield {"fmt": "VB", "kind": 0, "blocks": [["c1c2", "c3"], ["c4"]], "passes": [[0, 1], [0, -1]]}   # cut inside a block: the rest of the block is lost (outside the domain)
    yield {"fmt": "VB", "kind": 0, "blocks": [[[40000, 1, 1]], [[20000, 2, 3], [9, 1, 1]], [[3, 3, 5]]], "passes": [[2, 1], [0, 2], [1, -1]]}
    yield {"fmt": "F", "kind": 0, "lrecl": None, "recs": ["c1c2c3c4"]}                   # TypeError
    yield {"fmt": "F", "kind": 0, "lrecl": 4, "recs": ["c1c2c3c4", "c5c6"]}              # short last record: outside the domain
    yield {"fmt": "F", "kind": 0, "lrecl": 65531, "recs": [[65531, 1, 1], [65531, 2, 3]]}
    yield {"fmt": "F", "kind": 0, "lrecl": 65532, "recs": [[65532, 1, 1]]}               # rdw_iter cannot pack 65536
    yield {"fmt": "V", "kind": 0, "recs": ["", "c1", ""]}                                 # empty records are legal in V
    yield {"fmt": "V", "kind": 0, "recs": [[65531, 1, 1], [1, 2, 3], [65531, 3, 5]]}
    yield {"fmt": "V", "kind": 0, "recs": [[252, 1, 1], [253, 1, 1], [508, 2, 1], [65276, 1, 3]]}   # length words 0x0100, 0x0101, 0x0200, 0xff00
    yield {"fmt": "VB", "kind": 0, "blocks": [[[65527, 1, 1]], [[1, 2, 3]], [[32760, 3, 5], [32759, 4, 7]]]}
    yield {"fmt": "VB", "kind": 0, "blocks": [[[1, k % 256, 1] for k in range(1500)]]}   # 1500 one-byte records in one block
    yield {"fmt": "VB", "kind": 0, "blocks": [[[1, 7, 1], [65522, 1, 1]]]}               # block of exactly 65535 bytes
    yield {"fmt": "VB", "kind": 0, "blocks": [["c1", ""]]}                                # block ending in an empty record (AssertionError before eee0fb2)
    yield {"fmt": "VB", "kind": 1, "blocks": [["0102", ""]]}                              # the witness of C05_VB_empty_last_old_refuted
    yield {"fmt": "VB", "kind": 0, "blocks": [["", "c1"]]}                                # empty record first in a block
    yield {"fmt": "VB", "kind": 0, "blocks": [[]]}                                        # a block with no record
    yield {"fmt": "VB", "kind": 0, "blocks": [[""]]}                                      # nothing but one empty record
    yield {"fmt": "VB", "kind": 0, "blocks": [["", "c1", "", "c2c3", ""], ["", ""], [], ["c4", "", ""]]}   # first, middle, last, block of empties, empty block, two in a row at the end
    yield {"fmt": "VB", "kind": 1, "blocks": [["", ""], ["c1"], [""], ["", "c2", ""]]}
    yield {"fmt": "VB", "kind": 0, "blocks": [[[65523, 1, 1], ""]]}                      # block of exactly 65535 bytes whose last 4 bytes are an empty record
    yield {"fmt": "VB", "kind": 0, "blocks": [["", [65515, 1, 1], "", ""], ["c1", ""]]}  # the same with empties first and two in a row last
    yield {"fmt": "VB", "kind": 0, "blocks": [[""] * 16382]}                             # 16382 empty records: a block of 65532 bytes
    yield {"fmt": "V", "kind": 1, "recs": ["", "", "c1c2", "", "", ""]}
    yield {"fmt": "V", "kind": 0, "recs": [""]}
    # resumed reading over empty records
    yield {"fmt": "V", "kind": 0, "recs": ["", "c1", "", "", "c2c3", ""], "passes": [[0, 1], [1, 2], [0, 2], [1, -1]]}
    yield {"fmt": "V", "kind": 1, "recs": ["", "", ""], "passes": [[1, 1], [0, 1], [0, -1]]}
    yield {"fmt": "VB", "kind": 0, "blocks": [["", "c1", ""], ["", ""], ["c2", ""]], "passes": [[0, 3], [1, 2], [0, -1]]}
    yield {"fmt": "VB", "kind": 1, "blocks": [["c1", ""], [""], [], ["", "c2"]], "passes": [[2, 1], [0, 1], [2, 1], [1, -1]]}
    yield {"fmt": "VB", "kind": 0, "blocks": [["c1", ""], ["c2", ""]], "passes": [[0, 2], [0, 2], [0, -1]]}
    yield {"fmt": "VB", "kind": 0, "blocks": [["c1", "", ""], ["c2"]], "passes": [[0, 2], [0, -1]]}   # cut before the last (empty) record of a block: outside the domain
    yield {"fmt": "VB", "kind": 0, "raw": "0008000000000000"}                             # record length word 0: never ends
    yield {"fmt": "VB", "kind": 1, "raw": "000c00000000000000030000"}
    yield {"fmt": "V", "kind": 0, "raw": "00030000c1c2"}                                  # size - 4 = -1: rest of file
    yield {"fmt": "V", "kind": 0, "raw": "00020000c1c2"}                                  # size - 4 = -2: ValueError on a buffered file
    yield {"fmt": "V", "kind": 1, "raw": "00020000c1c2"}                                  # ... but not on BytesIO
    yield {"fmt": "V", "kind": 0, "raw": "000500"}                                        # truncated RDW: struct.error


def inputs(ctx):
    rng = ctx.rng
    thorough = ctx.tier != "quick"
    for inp in fixed_cases():
        yield "fixed", inp
    scale = 8 if thorough else 1
    for g, name, n_small, n_big in [(gen_F, "F", 40, 10), (gen_V, "V", 70, 12), (gen_VB, "VB", 100, 12), (gen_N, "N", 40, 70)]:
        for _ in range(n_small * scale):
            yield name + "-small", g(rng, False)
        for _ in range(n_big * scale):
            yield name + "-big", g(rng, True)
    for fmt, n_small, n_big in [("F", 40, 3), ("V", 90, 5), ("VB", 110, 5)]:
        for _ in range(n_small * scale):
            yield fmt + "-resumed", gen_multi(rng, fmt, False)
        for _ in range(n_big * scale):
            yield fmt + "-resumed-big", gen_multi(rng, fmt, True)
    for _ in range(250 * scale):
        yield "raw", gen_raw(rng)
    for _ in range(150 * scale):
        yield "corrupt", vb_corrupt(rng)
    if thorough:
        for a in BOUNDARY_N:
            for b in BOUNDARY_N:
                yield "N-pairs", {"fmt": "N", "kind": 0, "recs": [[a, 1, 1], [b, 2, 3], [7, 3, 5]]}
        for a in TRIPLE_N:
            for b in TRIPLE_N:
                for c in TRIPLE_N:
                    yield "N-triples", {"fmt": "N", "kind": 0, "recs": [[a, 1, 1], [b, 2, 3], [c, 3, 5], [3, 4, 7]]}
