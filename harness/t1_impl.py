"""T1 plug-in for C03: the glue of the four third-party-backed unpackers of src/stingray/implementations.py
(XLSUnpacker, XLSXUnpacker, ODSUnpacker, NumbersUnpacker) -> coq/Gen/ImplParams.v.

coq/Model/Workbook.v ([sheet_names], [wb_instances], [name_sep], [partition_sep]) INTERPRETS the four records emitted
here, so an edit of how a class turns the parsed document into sheet names and rows changes the model, and the closed-form
lemmas at the top of coq/Proofs/WorkbookP.v (rule_names_book, rule_instances_book, rule_names_numbers, name_sep_eq,
partition_sep_unf, ...) - and with them coq/Props/C03.v and coq/Props/C03d.v - stop compiling.

One independent part per class (XLS, XLSX, ODS, NUMBERS).  A part whose source shape is not recognised keeps the text it
has in the committed coq/Gen/ImplParams.pinned (the run then relies on the correspondence check for that class); the header
comment of the generated file says which parts came from the source.  Nothing is guessed: every statement of the two
methods read must match one of the shapes below (typing.cast(T, x) is read as x, docstrings are skipped, the names of
locals and loop variables do not matter, a local bound once is read as the expression it was bound to).

The class read for a part is the one the facade class binds: `self.unpacker = X()` in XLS_Workbook.__init__ etc.

sheet_iter     `yield from G` | `return G` | `return iter(G)` | the equivalent for loop(s) ending in `yield ELT`, with
               G = SEQ (a sequence of names)  |  (ELT for x in SEQ)  |  [ELT for x in SEQ]
                 | (COMPOSITE for s in SEQ(sheets) for t in SEQ(s.tables))                      (Numbers)
               names (the stored sheet names in order; which spelling is a fact about the third-party library):
                 XLS   self.the_file.sheet_names()  |  x.name for x in self.the_file.sheets()
                 XLSX  self.the_file.sheetnames     |  x.title for x in self.the_file.worksheets
                 ODS   self.the_file.sheet_names()
               COMPOSITE = f"{s.name}SEP{t.name}" | s.name + "SEP" + t.name | "SEP".join([s.name, t.name])
               -> g_names (NA_names | NA_composite SEP), g_names_ops, g_tables_ops
instance_iter  [a, _, b = name.partition(SEP)]  [S = LOOKUP]  [T = ...]
               [if S:] for row in SEQ(ROWS): yield CELLS      (or `yield from` / `return` of the generator expression)
               LOOKUP  XLS self.the_file.sheet_by_name(name);  XLSX, ODS self.the_file[name];
                       NUMBERS self.the_file.sheets[name.partition(SEP)[0]].tables[name.partition(SEP)[2]]
               ROWS    XLS S.get_rows();  XLSX S.iter_rows([min_row=i][, max_row=j][, values_only=b]) | S.rows | S.values;
                       ODS S (iteration over the sheet);  NUMBERS T.iter_rows(...) | T.rows()
               CELLS   [EXPR for c in SEQ(row)] | list(...)/tuple(...) of the generator | SEQ(row)
               EXPR ::= c | EXPR.attr | str(EXPR)
               -> g_lookup, g_min_row, g_max_row, g_values_only, g_rows_ops, g_rows_guard, g_cells_ops, g_cell
SEQ(x) ::= x | list(SEQ) | tuple(SEQ) | iter(SEQ) | reversed(SEQ) | SEQ[i:j:k] | islice(SEQ, ...)     (k >= 1;
           a slice that selects everything - x[:], x[0:], x[::1] - is no step)
Anything else - a condition in a comprehension, another call, a conversion of a name - is refused.
"""
import ast
import copy
import os
import re
from translate import Unrecognised, _parse, GEN as GEN_DIR

NAME = "ImplParams"
PARTS = ["XLS", "XLSX", "ODS", "NUMBERS"]
WORKBOOK_CLASS = {"XLS": "XLS_Workbook", "XLSX": "XLSX_Workbook", "ODS": "ODS_Workbook", "NUMBERS": "Numbers_Workbook"}

# facts about the third-party libraries (fixed text, not read from the source): which spellings give the stored sheet
# names in order, how a sheet is found by name, which calls give every stored row in order
NAME_LISTS = {"XLS": [("call", "sheet_names")], "XLSX": [("attr", "sheetnames")], "ODS": [("call", "sheet_names")], "NUMBERS": []}
NAME_OBJECTS = {"XLS": [("call", "sheets", "name")], "XLSX": [("attr", "worksheets", "title")], "ODS": [], "NUMBERS": []}


# ------------------------------------------------------------------ AST helpers


class _Uncast(ast.NodeTransformer):
    """typing.cast(T, x) -> x"""

    def visit_Call(self, node):
        self.generic_visit(node)
        if isinstance(node.func, ast.Name) and node.func.id == "cast" and len(node.args) == 2 and not node.keywords:
            return node.args[1]
        return node


class _Subst(ast.NodeTransformer):
    """a local bound once -> the expression it was bound to"""

    def __init__(self, env):
        self.env = env

    def visit_Name(self, node):
        if isinstance(node.ctx, ast.Load) and node.id in self.env:
            return copy.deepcopy(self.env[node.id])
        return node


def _strip_doc(body):
    if body and isinstance(body[0], ast.Expr) and isinstance(body[0].value, ast.Constant) and isinstance(body[0].value.value, str):
        return body[1:]
    return body


def _classes(tree):
    """all class definitions in source order, including those nested in try: blocks"""
    out = []

    def visit(stmts):
        for s in stmts:
            if isinstance(s, ast.ClassDef):
                out.append(s)
            elif isinstance(s, ast.Try):
                visit(s.body)
            elif isinstance(s, (ast.If, ast.With)):
                raise Unrecognised("class definitions under if/with are not recognised")
    visit(tree.body)
    return out


def _class(tree, name):
    found = [c for c in _classes(tree) if c.name == name]
    if len(found) != 1:
        raise Unrecognised(f"class {name} not found exactly once")
    return found[0]


def _method(cls, name):
    found = [n for n in cls.body if isinstance(n, (ast.FunctionDef, ast.AsyncFunctionDef)) and n.name == name]
    for n in cls.body:
        if isinstance(n, (ast.Assign, ast.AnnAssign)):
            targets = n.targets if isinstance(n, ast.Assign) else [n.target]
            if any(isinstance(t, ast.Name) and t.id == name for t in targets):
                raise Unrecognised(f"{cls.name}.{name} is rebound by an assignment")
    if len(found) != 1 or isinstance(found[0], ast.AsyncFunctionDef) or found[0].decorator_list:
        raise Unrecognised(f"{cls.name}.{name}: not exactly one plain definition")
    fn = _Uncast().visit(copy.deepcopy(found[0]))
    fn.body = _strip_doc(fn.body)
    return fn


def _is_name(n, ident):
    return isinstance(n, ast.Name) and n.id == ident


def _attr_path(n):
    out = []
    while isinstance(n, ast.Attribute):
        out.append(n.attr)
        n = n.value
    if isinstance(n, ast.Name):
        out.append(n.id)
        return out[::-1]
    return None


def _is_path(n, *path):
    return _attr_path(n) == list(path)


def _same(a, b):
    return ast.dump(a) == ast.dump(b)


def _str_const(n):
    return n.value if isinstance(n, ast.Constant) and isinstance(n.value, str) else None


def _int_const(n):
    """an int literal, possibly negated; None for the literal None; raises for anything else"""
    if isinstance(n, ast.Constant) and n.value is None:
        return None
    if isinstance(n, ast.Constant) and isinstance(n.value, int) and not isinstance(n.value, bool) and abs(n.value) < 100000:
        return n.value
    if isinstance(n, ast.UnaryOp) and isinstance(n.op, ast.USub) and isinstance(n.operand, ast.Constant) \
            and isinstance(n.operand.value, int) and not isinstance(n.operand.value, bool) and abs(n.operand.value) < 100000:
        return -n.operand.value
    raise Unrecognised("a bound that is not a small int literal")


def _assign(stmt):
    if isinstance(stmt, ast.Assign) and len(stmt.targets) == 1:
        return stmt.targets[0], stmt.value
    if isinstance(stmt, ast.AnnAssign) and stmt.value is not None:
        return stmt.target, stmt.value
    return None


def _unpacker_of(cls):
    init = [n for n in cls.body if isinstance(n, ast.FunctionDef) and n.name == "__init__"]
    if len(init) != 1:
        raise Unrecognised(f"{cls.name}.__init__ not found")
    found = []
    for n in ast.walk(init[0]):
        a = _assign(n) if isinstance(n, (ast.Assign, ast.AnnAssign)) else None
        if a and _is_path(a[0], "self", "unpacker"):
            v = a[1]
            if not (isinstance(v, ast.Call) and isinstance(v.func, ast.Name) and not v.args and not v.keywords):
                raise Unrecognised(f"{cls.name}: unpacker construction shape")
            found.append(v.func.id)
    if len(found) != 1:
        raise Unrecognised(f"{cls.name}: expected one self.unpacker = X()")
    return found[0]


# ------------------------------------------------------------------ sequences


def _slice_op(a, b, c):
    """x[:], x[0:], x[::1] select everything: no step at all"""
    return [] if (a in (None, 0) and b is None and c == 1) else [("slice", a, b, c)]


def _seq(n, is_base):
    """SEQ(base) -> (what is_base returned for the base, list of ops innermost first)"""
    got = is_base(n)
    if got is not None:
        return got, []
    if isinstance(n, ast.Call) and not n.keywords and isinstance(n.func, ast.Name) and len(n.args) == 1 \
            and n.func.id in ("list", "tuple", "iter", "reversed"):
        base, ops = _seq(n.args[0], is_base)
        return base, ops + ([("rev",)] if n.func.id == "reversed" else [])
    if isinstance(n, ast.Subscript) and isinstance(n.slice, ast.Slice):
        base, ops = _seq(n.value, is_base)
        sl = n.slice
        a = _int_const(sl.lower) if sl.lower is not None else None
        b = _int_const(sl.upper) if sl.upper is not None else None
        c = _int_const(sl.step) if sl.step is not None else None
        c = 1 if c is None else c
        if c < 1:
            raise Unrecognised("a slice step below 1 is not modelled")
        return base, ops + _slice_op(a, b, c)
    if isinstance(n, ast.Call) and not n.keywords and (_is_name(n.func, "islice") or _is_path(n.func, "itertools", "islice")) \
            and 2 <= len(n.args) <= 4:
        base, ops = _seq(n.args[0], is_base)
        nums = [_int_const(x) for x in n.args[1:]]
        if len(nums) == 1:
            a, b, c = None, nums[0], 1
        else:
            a, b, c = nums[0], nums[1], (nums[2] if len(nums) == 3 and nums[2] is not None else 1)
        if any(x is not None and x < 0 for x in (a, b)) or c < 1:
            raise Unrecognised("islice bounds")
        return base, ops + _slice_op(a, b, c)
    raise Unrecognised("sequence expression " + ast.dump(n)[:100])


def _the_file(n):
    return _is_path(n, "self", "the_file")


def _api(n, kind, name, of):
    """n is `<of>.name` (kind attr) or `<of>.name()` (kind call), <of> given as a predicate"""
    if kind == "call":
        if not (isinstance(n, ast.Call) and not n.args and not n.keywords):
            return False
        n = n.func
    return isinstance(n, ast.Attribute) and n.attr == name and of(n.value)


# ------------------------------------------------------------------ sheet_iter


def _generator_of(fn):
    """the body of a method as (element, [(target, iterable), ...]) - element None when the body delivers a sequence as it is"""
    body = fn.body
    if len(body) != 1:
        raise Unrecognised(f"{fn.name}: more than one statement")
    s = body[0]
    g = None
    if isinstance(s, ast.Return) and s.value is not None:
        g = s.value
        if any(isinstance(x, (ast.Yield, ast.YieldFrom)) for x in ast.walk(fn)):
            raise Unrecognised(f"{fn.name}: return in a generator")
    elif isinstance(s, ast.Expr) and isinstance(s.value, ast.YieldFrom):
        g = s.value.value
    if g is not None:
        while isinstance(g, ast.Call) and _is_name(g.func, "iter") and len(g.args) == 1 and not g.keywords \
                and isinstance(g.args[0], (ast.GeneratorExp, ast.ListComp)):
            g = g.args[0]
        if isinstance(g, (ast.GeneratorExp, ast.ListComp)):
            gens = []
            for c in g.generators:
                if c.ifs or c.is_async or not isinstance(c.target, ast.Name):
                    raise Unrecognised(f"{fn.name}: comprehension clause shape")
                gens.append((c.target.id, c.iter))
            return g.elt, gens
        return None, [(None, g)]
    # for loops ending in one yield
    gens = []
    while isinstance(s, ast.For):
        if s.orelse or len(s.body) != 1 or not isinstance(s.target, ast.Name):
            raise Unrecognised(f"{fn.name}: loop shape")
        gens.append((s.target.id, s.iter))
        s = s.body[0]
    if gens and isinstance(s, ast.Expr) and isinstance(s.value, ast.Yield) and s.value.value is not None:
        return s.value.value, gens
    raise Unrecognised(f"{fn.name}: statement shape")


def _composite(elt, s, t):
    """the separator of f'{s.name}SEP{t.name}' and its equivalents"""
    def is_field(n, var):
        return _is_path(n, var, "name")
    if isinstance(elt, ast.JoinedStr) and len(elt.values) == 3:
        a, m, b = elt.values
        if isinstance(a, ast.FormattedValue) and isinstance(b, ast.FormattedValue) and a.conversion == -1 and b.conversion == -1 \
                and a.format_spec is None and b.format_spec is None and is_field(a.value, s) and is_field(b.value, t) \
                and _str_const(m) is not None:
            return m.value
    if isinstance(elt, ast.BinOp) and isinstance(elt.op, ast.Add) and isinstance(elt.left, ast.BinOp) and isinstance(elt.left.op, ast.Add):
        if is_field(elt.left.left, s) and _str_const(elt.left.right) is not None and is_field(elt.right, t):
            return elt.left.right.value
    if isinstance(elt, ast.Call) and not elt.keywords and len(elt.args) == 1 and isinstance(elt.func, ast.Attribute) \
            and elt.func.attr == "join" and _str_const(elt.func.value) is not None \
            and isinstance(elt.args[0], (ast.List, ast.Tuple)) and len(elt.args[0].elts) == 2 \
            and is_field(elt.args[0].elts[0], s) and is_field(elt.args[0].elts[1], t):
        return elt.func.value.value
    raise Unrecognised("the composite name is not f'{sheet.name}SEP{table.name}'")


def _sheet_iter(part, cls):
    fn = _method(cls, "sheet_iter")
    if [a.arg for a in fn.args.args] != ["self"] or fn.args.vararg or fn.args.kwarg or fn.args.kwonlyargs or fn.args.posonlyargs:
        raise Unrecognised("sheet_iter parameter list")
    elt, gens = _generator_of(fn)

    def name_list(n):
        return True if any(_api(n, k, a, _the_file) for k, a in NAME_LISTS[part]) else None

    if part == "NUMBERS":
        if elt is None or len(gens) != 2:
            raise Unrecognised("Numbers sheet_iter is not a generator over sheets and tables")
        (s, it1), (t, it2) = gens
        if s == t:
            raise Unrecognised("loop variables coincide")
        sep = _composite(elt, s, t)
        _, ops1 = _seq(it1, lambda n: True if _api(n, "attr", "sheets", _the_file) else None)
        _, ops2 = _seq(it2, lambda n: True if _api(n, "attr", "tables", lambda v: _is_name(v, s)) else None)
        if sep == "":
            raise Unrecognised("empty separator")
        return dict(names=("composite", sep), names_ops=ops1, tables_ops=ops2)
    if len(gens) != 1:
        raise Unrecognised("sheet_iter has more than one for clause")
    var, it = gens[0]
    if elt is None or _is_name(elt, var):
        _, ops = _seq(it, name_list)
        return dict(names=("names",), names_ops=ops, tables_ops=[])
    for kind, coll, attr in NAME_OBJECTS[part]:
        if _is_path(elt, var, attr):
            _, ops = _seq(it, lambda n: True if _api(n, kind, coll, _the_file) else None)
            return dict(names=("names",), names_ops=ops, tables_ops=[])
    raise Unrecognised("what sheet_iter yields")


# ------------------------------------------------------------------ instance_iter


def _cell_expr(n, var):
    if _is_name(n, var):
        return ("CE_item",)
    if isinstance(n, ast.Attribute):
        return ("CE_attr", n.attr, _cell_expr(n.value, var))
    if isinstance(n, ast.Call) and _is_name(n.func, "str") and len(n.args) == 1 and not n.keywords:
        return ("CE_str", _cell_expr(n.args[0], var))
    raise Unrecognised("cell expression " + ast.dump(n)[:100])


def _cells(n, row):
    """what is yielded for one row -> (cells_ops, cell_expr)"""
    while isinstance(n, ast.Call) and isinstance(n.func, ast.Name) and n.func.id in ("list", "tuple") and len(n.args) == 1 \
            and not n.keywords and isinstance(n.args[0], (ast.GeneratorExp, ast.ListComp)):
        n = n.args[0]
    if isinstance(n, (ast.ListComp, ast.GeneratorExp)):
        if isinstance(n, ast.GeneratorExp):
            raise Unrecognised("a bare generator is yielded for a row")
        if len(n.generators) != 1:
            raise Unrecognised("row comprehension clauses")
        g = n.generators[0]
        if g.ifs or g.is_async or not isinstance(g.target, ast.Name) or g.target.id == row:
            raise Unrecognised("row comprehension shape")
        _, ops = _seq(g.iter, lambda x: True if _is_name(x, row) else None)
        return ops, _cell_expr(n.elt, g.target.id)
    _, ops = _seq(n, lambda x: True if _is_name(x, row) else None)
    return ops, ("CE_item",)


def _rows_base(part, name_param):
    """predicate for ROWS: returns (lookup, min_row, max_row, values_only) for a recognised base"""

    def sheet_lookup(n):
        """the sheet (table) object -> lookup rule, else None"""
        if part == "XLS":
            if isinstance(n, ast.Call) and not n.keywords and len(n.args) == 1 and _is_name(n.args[0], name_param) \
                    and isinstance(n.func, ast.Attribute) and n.func.attr == "sheet_by_name" and _the_file(n.func.value):
                return ("LK_name",)
            return None
        if part in ("XLSX", "ODS"):
            if isinstance(n, ast.Subscript) and _the_file(n.value) and _is_name(n.slice, name_param):
                return ("LK_name",)
            return None
        # NUMBERS: self.the_file.sheets[P0].tables[P2]
        if not (isinstance(n, ast.Subscript) and isinstance(n.value, ast.Attribute) and n.value.attr == "tables"):
            return None
        inner = n.value.value
        if not (isinstance(inner, ast.Subscript) and _api(inner.value, "attr", "sheets", _the_file)):
            return None

        def part_of(x, idx):
            if not (isinstance(x, ast.Subscript) and isinstance(x.slice, ast.Constant) and x.slice.value == idx
                    and not isinstance(x.slice.value, bool)):
                return None
            c = x.value
            if isinstance(c, ast.Call) and not c.keywords and len(c.args) == 1 and isinstance(c.func, ast.Attribute) \
                    and c.func.attr == "partition" and _is_name(c.func.value, name_param):
                return _str_const(c.args[0])
            return None
        s0, s2 = part_of(inner.slice, 0), part_of(n.slice, 2)
        if s0 is None or s2 is None or s0 != s2 or s0 == "":
            return None
        return ("LK_partition", s0)

    def base(n):
        if part == "XLS":
            if isinstance(n, ast.Call) and not n.args and not n.keywords and isinstance(n.func, ast.Attribute) and n.func.attr == "get_rows":
                lk = sheet_lookup(n.func.value)
                return (lk, None, None, False, n.func.value) if lk else None
            return None
        if part == "ODS":
            lk = sheet_lookup(n)
            return (lk, None, None, False, n) if lk else None
        # XLSX and NUMBERS
        if isinstance(n, ast.Call) and isinstance(n.func, ast.Attribute) and n.func.attr == "iter_rows":
            lk = sheet_lookup(n.func.value)
            if not lk:
                return None
            if len(n.args) > 2:
                raise Unrecognised("iter_rows with column bounds")
            vals = {"min_row": None, "max_row": None, "values_only": False}
            for key, a in zip(("min_row", "max_row"), n.args):
                vals[key] = _int_const(a)
            for kw in n.keywords:
                if kw.arg in ("min_row", "max_row") and vals[kw.arg] is None:
                    vals[kw.arg] = _int_const(kw.value)
                elif kw.arg == "values_only" and isinstance(kw.value, ast.Constant) and isinstance(kw.value.value, bool):
                    vals["values_only"] = kw.value.value
                else:
                    raise Unrecognised("iter_rows keyword " + str(kw.arg))
            for key in ("min_row", "max_row"):
                if vals[key] is not None and vals[key] < 0:
                    raise Unrecognised("negative row bound")
            return (lk, vals["min_row"], vals["max_row"], vals["values_only"], n.func.value)
        if part == "XLSX" and isinstance(n, ast.Attribute) and n.attr in ("rows", "values"):
            lk = sheet_lookup(n.value)
            return (lk, None, None, n.attr == "values", n.value) if lk else None
        if part == "NUMBERS" and isinstance(n, ast.Call) and not n.args and not n.keywords and isinstance(n.func, ast.Attribute) \
                and n.func.attr == "rows":
            lk = sheet_lookup(n.func.value)
            return (lk, None, None, False, n.func.value) if lk else None
        return None
    return base


def _instance_iter(part, cls):
    fn = _method(cls, "instance_iter")
    a = fn.args
    if [x.arg for x in a.args][:1] != ["self"] or len(a.args) != 2 or a.vararg or a.kwonlyargs or a.posonlyargs or a.defaults:
        raise Unrecognised("instance_iter parameter list")
    name_param = a.args[1].arg
    env = {}
    stmts = list(fn.body)
    # leading single assignments to locals
    while stmts and _assign(stmts[0]) is not None:
        tgt, val = _assign(stmts[0])
        val = _Subst(env).visit(copy.deepcopy(val))
        if isinstance(tgt, ast.Name):
            names = [(tgt.id, val)]
        elif isinstance(tgt, ast.Tuple) and all(isinstance(e, ast.Name) for e in tgt.elts) \
                and isinstance(val, ast.Call) and isinstance(val.func, ast.Attribute) and val.func.attr == "partition":
            if len(tgt.elts) != 3:
                raise Unrecognised("partition is not unpacked into three names")
            names = [(e.id, ast.Subscript(value=copy.deepcopy(val), slice=ast.Constant(value=i), ctx=ast.Load()))
                     for i, e in enumerate(tgt.elts)]
        else:
            raise Unrecognised("assignment target shape")
        for ident, v in names:
            if ident == name_param or ident == "self":
                raise Unrecognised("a parameter is rebound")
            if ident in env and ident != "_":
                raise Unrecognised(f"local {ident} is bound twice")
            env[ident] = v
        stmts = stmts[1:]
    env.pop("_", None)
    if len(stmts) != 1:
        raise Unrecognised("instance_iter: statements after the lookups")
    s = stmts[0]
    guard_test = None
    if isinstance(s, ast.If):
        if s.orelse or len(s.body) != 1:
            raise Unrecognised("guard shape")
        guard_test = _Subst(env).visit(copy.deepcopy(s.test))
        s = s.body[0]
    # the loop, or the generator expression
    if isinstance(s, ast.For):
        if s.orelse or len(s.body) != 1 or not isinstance(s.target, ast.Name):
            raise Unrecognised("row loop shape")
        y = s.body[0]
        if not (isinstance(y, ast.Expr) and isinstance(y.value, ast.Yield) and y.value.value is not None):
            raise Unrecognised("the row loop does not yield")
        row, it, elt = s.target.id, s.iter, y.value.value
    else:
        g = None
        if isinstance(s, ast.Expr) and isinstance(s.value, ast.YieldFrom):
            g = s.value.value
        elif isinstance(s, ast.Return) and s.value is not None and guard_test is None \
                and not any(isinstance(x, (ast.Yield, ast.YieldFrom)) for x in ast.walk(fn)):
            g = s.value
        if not (isinstance(g, ast.GeneratorExp) and len(g.generators) == 1 and not g.generators[0].ifs
                and not g.generators[0].is_async and isinstance(g.generators[0].target, ast.Name)):
            raise Unrecognised("instance_iter: neither a row loop nor a generator expression")
        row, it, elt = g.generators[0].target.id, g.generators[0].iter, g.elt
    if row in env or row == name_param:
        raise Unrecognised("the row variable shadows a local")
    it = _Subst(env).visit(copy.deepcopy(it))
    (lk, lo, hi, values_only, sheet_expr), rows_ops = _seq(it, _rows_base(part, name_param))
    guard = False
    if guard_test is not None:
        if not _same(guard_test, sheet_expr):
            raise Unrecognised("the guard is not the truth value of the sheet")
        guard = True
    elt = _Subst(env).visit(copy.deepcopy(elt))
    cells_ops, cell = _cells(elt, row)
    return dict(lookup=lk, min_row=lo, max_row=hi, values_only=values_only, rows_ops=rows_ops, guard=guard,
                cells_ops=cells_ops, cell=cell)


# ------------------------------------------------------------------ Coq printing


def _txt(s):
    return "[" + "; ".join(str(ord(c)) for c in s) + "]%N"


def _readable(s):
    return s.replace("(*", "( *").replace("*)", "* )").replace('"', "'")


def _z(v):
    return "None" if v is None else (f"(Some {v}%Z)" if v >= 0 else f"(Some ({v})%Z)")


def _ops(ops):
    def one(op):
        if op[0] == "rev":
            return "SO_reversed"
        return f"SO_slice {_z(op[1])} {_z(op[2])} {op[3]}"
    return "[" + "; ".join(one(o) for o in ops) + "]"


def _ops_readable(ops, what):
    for op in ops:
        if op[0] == "rev":
            what = f"reversed({what})"
        else:
            a, b, c = ("" if x is None else str(x) for x in op[1:])
            what = f"{what}[{a}:{b}" + (f":{c}]" if op[3] != 1 else "]")
    return what


def _cell_coq(e):
    if e[0] == "CE_item":
        return "CE_item"
    if e[0] == "CE_attr":
        return f"(CE_attr {_txt(e[1])} {_cell_coq(e[2])})"
    return f"(CE_str {_cell_coq(e[1])})"


def _cell_readable(e):
    if e[0] == "CE_item":
        return "cell"
    if e[0] == "CE_attr":
        return f"{_cell_readable(e[2])}.{e[1]}"
    return f"str({_cell_readable(e[1])})"


def _part_text(part, unpacker, si, ii):
    names = "NA_names" if si["names"][0] == "names" else f"(NA_composite {_txt(si['names'][1])})"
    lookup = "LK_name" if ii["lookup"][0] == "LK_name" else f"(LK_partition {_txt(ii['lookup'][1])})"
    if si["names"][0] == "names":
        names_txt = _ops_readable(si["names_ops"], "the stored sheet names")
    else:
        names_txt = ("sheet.name + " + repr(si["names"][1]) + " + table.name for sheet in " + _ops_readable(si["names_ops"], "sheets")
                     + " for table in " + _ops_readable(si["tables_ops"], "sheet.tables"))
    rows_txt = "the stored rows"
    if ii["min_row"] is not None or ii["max_row"] is not None:
        rows_txt += f" from row number {ii['min_row']} to {ii['max_row']} (None = the end)"
    rows_txt = _ops_readable(ii["rows_ops"], rows_txt)
    b = lambda x: "true" if x else "false"
    return (
        f"(* {unpacker}.sheet_iter yields  " + _readable(names_txt) + "\n"
        f"   {unpacker}.instance_iter(name): the sheet is found by " + _readable(
            "the name" if ii["lookup"][0] == "LK_name" else "name.partition(" + repr(ii["lookup"][1]) + ") -> sheets[first].tables[last]")
        + ";\n   rows = " + _readable(rows_txt) + (" when the sheet is truthy" if ii["guard"] else "")
        + (", values only" if ii["values_only"] else "") + ";\n   for each row  ["
        + _readable(_cell_readable(ii["cell"])) + " for cell in " + _readable(_ops_readable(ii["cells_ops"], "row")) + "] *)\n"
        f"Definition glue_{part} : glue := {{|\n"
        f"  g_names := {names}; g_names_ops := {_ops(si['names_ops'])}; g_tables_ops := {_ops(si['tables_ops'])};\n"
        f"  g_lookup := {lookup};\n"
        f"  g_min_row := {_z(ii['min_row'])}; g_max_row := {_z(ii['max_row'])}; g_values_only := {b(ii['values_only'])};\n"
        f"  g_rows_ops := {_ops(ii['rows_ops'])}; g_rows_guard := {b(ii['guard'])};\n"
        f"  g_cells_ops := {_ops(ii['cells_ops'])}; g_cell := {_cell_coq(ii['cell'])} |}}.\n"
    )


def part(tree, p):
    wb = _class(tree, WORKBOOK_CLASS[p])
    unpacker = _unpacker_of(wb)
    cls = _class(tree, unpacker)
    si = _sheet_iter(p, cls)
    ii = _instance_iter(p, cls)
    if (p == "NUMBERS") != (ii["lookup"][0] == "LK_partition"):
        raise Unrecognised("lookup rule of the wrong kind")
    return _part_text(p, unpacker, si, ii)


PRELUDE = (
    "From Coq Require Import ZArith NArith List.\nImport ListNotations.\n"
    "(* the vocabulary of the parameters (fixed text, not read from the source) *)\n"
    "(* a step applied to a sequence before it is iterated, innermost first: reversed(x); x[a:b:c] or islice(x, a, b, c) with\n"
    "   Python's reading of omitted (None) and negative bounds, c >= 1 *)\n"
    "Inductive seq_op := SO_reversed | SO_slice (a b : option Z) (c : nat).\n"
    "(* what sheet_iter yields: the stored sheet names; or sheet.name + sep + table.name for every table of every sheet *)\n"
    "Inductive names_api := NA_names | NA_composite (sep : list N).\n"
    "(* how instance_iter(name) finds the rows: the sheet of that name; or name.partition(sep) -> sheets[first].tables[last] *)\n"
    "Inductive lookup_rule := LK_name | LK_partition (sep : list N).\n"
    "(* what is delivered for one cell: the item of the row as the library hands it over, an attribute of it, str() of it *)\n"
    "Inductive cell_expr := CE_item | CE_attr (a : list N) (e : cell_expr) | CE_str (e : cell_expr).\n"
    "(* g_min_row / g_max_row: the arguments of iter_rows, None = not given; g_values_only: the library hands over values, not\n"
    "   cell objects; g_rows_guard: the rows are read only `if sheet:`; the *_ops are applied to the sequence of sheets (names), of\n"
    "   the tables of one sheet, of the rows of the sheet, of the cells of one row *)\n"
    "Record glue := mk_glue {\n"
    "  g_names : names_api; g_names_ops : list seq_op; g_tables_ops : list seq_op;\n"
    "  g_lookup : lookup_rule;\n"
    "  g_min_row : option Z; g_max_row : option Z; g_values_only : bool;\n"
    "  g_rows_ops : list seq_op; g_rows_guard : bool;\n"
    "  g_cells_ops : list seq_op; g_cell : cell_expr }.\n"
)


def _begin(p):
    return f"(* ---- part {p} ---- *)\n"


def _end(p):
    return f"(* ---- end {p} ---- *)\n"


def _pinned_parts():
    try:
        text = open(os.path.join(GEN_DIR, NAME + ".pinned")).read()
    except OSError:
        raise Unrecognised("no pinned file to fall back to")
    out = {}
    for p in PARTS:
        m = re.search(re.escape(_begin(p)) + "(.*?)" + re.escape(_end(p)), text, re.S)
        if not m:
            raise Unrecognised(f"pinned file has no part {p}")
        out[p] = m.group(1)
    return out


def gen_ImplParams(src):
    tree = _parse(src, "stingray/implementations.py")
    notes, blocks, pinned = [], [], None
    for p in PARTS:
        try:
            try:
                body = part(tree, p)
            except Unrecognised:
                raise
            except Exception as ex:          # an AST shape nobody thought of: fail closed
                raise Unrecognised(f"{type(ex).__name__}: {ex}")
            notes.append(f"{p}=source")
        except Unrecognised as ex:
            if pinned is None:
                pinned = _pinned_parts()
            body = pinned[p]
            notes.append(f"{p}=pinned({ex})")
        blocks.append(_begin(p) + body + _end(p))
    if not any(n.endswith("=source") for n in notes):
        raise Unrecognised("nothing recognised: " + "; ".join(notes))
    return (
        "(* GENERATED by harness/t1_impl.py from src/stingray/implementations.py -- do not edit *)\n"
        "(* parts: " + _readable(" ".join(notes)) + " *)\n" + PRELUDE + "".join(blocks)
    )


GENERATORS = {NAME: gen_ImplParams}
