"""C07b - the copybook parser end to end on RAW TEXT: a second engine of C07 (copybook to schema: every entry appears once,
in place, and none is lost).

Every case is a copybook TEXT.  The implementation's  list(schema_iter(io.StringIO(text)))  is serialised completely and
in key order (every keyword of every document), or the class of the exception; the judge (coq/Judge/JC07b.v) runs the
composed model coq/Model/Pipeline.v  schemas_of_text  on the same text and compares.  Nothing here decides anything:
the copybooks printed from abstract forests also carry the printed entries, from which the judge (not this file) decides
whether the observed documents define every kept entry once, in order, nested as the levels nest.
"""
import ast
import io
import os
import re
import textwrap
import warnings

from lib import S, observe_call
import copybook_gen as G
import c07 as C7

GEN = ["ClausesParams", "PictureParams", "EstructParams", "JsonTypeParams", "Cp037", "TextCodec", "ConversionParams", "PipelineParams", "StructureParams", "RefFormatParams"]
RULE = ("raw copybook texts: (a) every copybook of the repository (sample/*.cob, *.cpy and every string constant of tests/*.py, "
        "demo/*.py and src/stingray/*.py that holds a level number, a data name and a period; as written and dedented); "
        "(b) copybooks printed from random forests by harness/copybook_gen.py (all spelling options: sequence numbers, comment and "
        "blank lines, indentation, margin, one entry per line or broken lines, PIC/PICTURE IS, TIMES, USAGE IS, REDEFINES, OCCURS, "
        "DEPENDING ON, FILLER, 66/77/88; a strict stream inside the well-formed domain and outside every known trigger, plus wild "
        "level sequences, repeated names, and one stream per known trigger) and by harness/layout_common.py (record trees with "
        "computed sizes, every usage); (c) the same texts with one to three small edits (delete / duplicate / swap a line, drop "
        "the final newline, insert / delete / replace a character, change a level number, lower-case or mis-case a reserved word, "
        "join two lines, cut the text, indent or outdent a line, turn a line into a comment or continuation line), valid or not; "
        "(d) token soups laid out as card images; (e) stream text_nav (Judge/JTextNav.v): the first record of repository, special, printed and edited texts is loaded (SchemaMaker.from_json) and navigated by EBCDIC().nav on a record of drawn bytes along every path its document offers (names, first / last / one refused index of every table), value() read at every atomic leaf; compared with Model/TextLayout.v layout_of_doc + Model/Layout.v navigation + the decoder kind_of_cobol takes from the cobol keyword. Non-trivial = the model reads at least one entry; distinct = distinct case lines.")
TRIVIAL_BRANCHES = [0, 32, 64, 129]
ASSUMPTIONS = [
    "the composed model coq/Model/Pipeline.v imports the layer models (RefFormat, Clauses, Structure, Picture, Estruct, JsonType) and adds "
    "the glue between them, estruct's second parse of the cobol keyword text and the emission of every keyword in insertion order; it is "
    "tied to the code by this run on raw text only",
    "the decoder's clause pattern (estruct.clause_pattern: usage alternation in pattern order, PIC / PICTURE, no flags, the negative lookbehind in "
    "front of both alternatives and the negative lookahead behind the usage word with their character classes - or their absence) is read from the "
    "source by harness/t1_c07b.py (Gen/PipelineParams.v) and interpreted by Model/Pipeline.v est_scan_b; an unrecognised shape falls back to the pinned text",
    "io.StringIO(text) yields lines ending at a line feed (no newline translation)",
    "int() of the OCCURS digit run is taken for runs of at most 4300 digits (CPython's conversion limit is not modelled)",
    "Unmodelled outcomes (a packed-decimal item with a DB/CR picture; scanner fuel) are skipped, not judged; the evidence counts them "
    "in branches >= 64",
]
TRUSTED = ["harness/copybook_gen.py and harness/layout_common.py printers (affect coverage only: the judge reads the text itself)"]

LEVEL_NAME_PERIOD = re.compile(r"(?<![\w-])\d\d\s+[A-Za-z][\w-]*[^\n]*\.", re.S)
KEYWORDS = ["PIC", "PICTURE", "USAGE", "COMP-3", "COMP", "COMPUTATIONAL", "BINARY", "DISPLAY", "PACKED-DECIMAL", "OCCURS", "TIMES",
            "DEPENDING", "ON", "REDEFINES", "FILLER", "VALUE", "IS", "TO", "INDEXED", "BY", "BLANK", "WHEN", "ZERO", "SYNC",
            "JUSTIFIED", "RIGHT", "SIGN", "LEADING", "SEPARATE", "COMP-1", "COMP-2", "COMP-4"]


# ------------------------------------------------------------------ (a) the repository's own copybooks
def repo_texts(repo):
    out = []
    for root, dirs, files in os.walk(repo):
        dirs[:] = sorted(d for d in dirs if d not in (".git", "build", "__pycache__", ".tox", ".mypy_cache", ".pytest_cache"))
        for f in sorted(files):
            if f.lower().endswith((".cob", ".cpy", ".cbl", ".copy")):
                try:
                    out.append(open(os.path.join(root, f), encoding="utf-8", errors="replace").read())
                except OSError:
                    pass
    for sub in ("tests", "demo", os.path.join("src", "stingray")):
        d = os.path.join(repo, sub)
        if not os.path.isdir(d):
            continue
        for f in sorted(os.listdir(d)):
            if not f.endswith(".py"):
                continue
            try:
                with warnings.catch_warnings():
                    warnings.simplefilter("ignore")
                    tree = ast.parse(open(os.path.join(d, f), encoding="utf-8").read())
            except (OSError, SyntaxError):
                continue
            for node in ast.walk(tree):
                if isinstance(node, ast.Constant) and isinstance(node.value, str) and LEVEL_NAME_PERIOD.search(node.value):
                    out.append(node.value)
    seen, uniq = set(), []
    for t in out:
        for v in (t, textwrap.dedent(t)):
            if v not in seen and len(v) <= 6000:
                seen.add(v)
                uniq.append(v)
    return uniq


# ------------------------------------------------------------------ (c) small edits
def edit(rng, text):
    lines = text.split("\n")
    m = rng.randint(0, 15)
    if m == 0 and len(lines) > 1:
        del lines[rng.randrange(len(lines))]
    elif m == 1 and lines:
        i = rng.randrange(len(lines))
        lines.insert(i, lines[i])
    elif m == 2 and len(lines) > 2:
        i = rng.randrange(len(lines) - 1)
        lines[i], lines[i + 1] = lines[i + 1], lines[i]
    elif m == 3:
        return text.rstrip("\n") if rng.random() < 0.7 else text.rstrip()
    elif m == 4 and text:
        i = rng.randrange(len(text) + 1)
        return text[:i] + rng.choice(list(".,;-*/'\"() 09XASV") + ["\n", "\t", ". ", " .", "ſ", "٣", "\x0c", "\xa0", "\u2028", "\u1680", "０", "１", "\u212a", "İ", "ı", "\x1c", "\x85", "|", "\r"]) + text[i:]
    elif m == 5 and text:
        i = rng.randrange(len(text))
        return text[:i] + text[i + 1:]
    elif m == 6 and text:
        i = rng.randrange(len(text))
        return text[:i] + rng.choice("ABCXS9V().- ,;'*-D/") + text[i + 1:]
    elif m == 7:
        hits = [h for h in re.finditer(r"(?<![\w-])\d\d(?=\s)", text)]
        if hits:
            h = rng.choice(hits)
            return text[:h.start()] + rng.choice(["01", "02", "03", "05", "10", "15", "49", "66", "77", "88", "00", "99", "1", "005"]) + text[h.end():]
    elif m == 8:
        hits = [h for h in re.finditer(r"[A-Z][A-Z0-9-]+", text)]
        if hits:
            h = rng.choice(hits)
            w = h.group(0)
            w = w.lower() if rng.random() < 0.6 else "".join(rng.choice([c.lower(), c]) for c in w)
            return text[:h.start()] + w + text[h.end():]
    elif m == 9 and len(lines) > 1:
        i = rng.randrange(len(lines) - 1)
        lines[i:i + 2] = [lines[i] + rng.choice(["", " "]) + lines[i + 1].lstrip()]
    elif m == 10 and text:
        return text[:rng.randrange(len(text))]
    elif m == 11 and lines:
        i = rng.randrange(len(lines))
        lines[i] = (" " * rng.randint(1, 8) + lines[i]) if rng.random() < 0.5 else lines[i][rng.randint(1, 8):]
    elif m == 12 and lines:
        i = rng.randrange(len(lines))
        if len(lines[i]) >= 7:
            lines[i] = lines[i][:6] + rng.choice("*-D/ ") + lines[i][7:]
    elif m == 13 and lines:
        i = rng.randrange(len(lines))
        lines.insert(i, rng.choice(["       EJECT", "000100 SKIP1", "      * A COMMENT.", "", "       COPY BOOK1.", "      /", "   ",
                                    "       05 EXTRA-ITEM PIC X.", "           10 DEEP PIC 9(3) COMP-3.", "       01 NEW-REC.", "      -        X(2)", "      -    'TAIL'.",
                                    "      -", "       01  FILLER.", "           05 FILLER PIC X VALUE \"IT'S\".", "           05  T OCCURS 2 PIC A9(2)."]))
    elif m == 14:
        hits = [h for h in re.finditer(r"[A-Z][A-Z0-9-]+", text)]
        if hits:
            h = rng.choice(hits)
            return text[:h.start()] + rng.choice(KEYWORDS + ["COMPANY", "BINARY-FLAG", "EMP-COMPANY", "WS-COMP-DATE", "TOT-BINARY", "USE-DISPLAY", "ELEM-PIC", "COMP-3X", "X-COMP-3", "X(3)", "9(0)", "S9(4)V99", "$$9.99CR", "+9", "9DB", "A9(4)", "XX(2)",
                                                       "99(3)V9(2)", "FILLER", "REDEFINES-A"]) + text[h.end():]
    elif m == 15 and lines:
        i = rng.randrange(len(lines))
        lines[i] = lines[i] + " " * rng.randint(1, 70) + rng.choice(["", "X", "."])
    return "\n".join(lines)


def edits(rng, text):
    for _ in range(rng.choice([1, 1, 1, 2, 3])):
        text = edit(rng, text)
    return text


# ------------------------------------------------------------------ (d) token soups as card images
SOUP_WORDS = KEYWORDS + ["01", "05", "10", "77", "88", "66", "A", "B-1", "CUST-NO", "REC", "FILLER", "X(3)", "9(5)", "S9(3)V99", "XX", "99",
                         "ZZ9.99", "$$9.99CR", "9DB", "+9", "A(4)", "9(0)", "A9(4)", "99(3)", "'AB'", "'PIC X'", "'A. B'", "3", "12", "0", ".", ".", ".", ",", ";",
                         "RENAMES", "THRU", "COMPANY", "comp", "pic", "Pic", "COMP-5", "EJECT", "COPY"]


def soup(rng):
    lines, cur = [], "       "
    for _ in range(rng.randint(1, 40)):
        w = rng.choice(SOUP_WORDS)
        if w == "." and rng.random() < 0.8:
            cur = cur.rstrip(" ") + "." if len(cur) > 7 else cur + "."
            if rng.random() < 0.7:
                lines.append(cur); cur = " " * rng.choice([7, 7, 7, 8, 11, 12])
            else:
                cur += " "
            continue
        if len(cur) + len(w) + 1 > rng.choice([60, 71, 71, 80]):
            lines.append(cur); cur = " " * rng.choice([7, 11, 12])
        cur += w + rng.choice([" ", " ", " ", "  ", ", "])
    lines.append(cur.rstrip() + rng.choice([".", ".", ""]))
    return "\n".join(lines) + rng.choice(["\n", "\n", ""])


# ------------------------------------------------------------------ hand-written texts aimed at the seams between the layers
SPECIAL = [
    "",
    "\n",
    "       \n",
    "      * ONLY A COMMENT.\n",
    "       01  A.\n",
    "       01  A PIC X.\n",
    "       01  A PIC X.",
    "       01  A PIC X. ",
    "01 A PIC X.\n",
    "       01  REC.\n           05  A PIC X(3).\n           05  B PIC 9(4) COMP.\n",
    # continuation lines: one, two, three in a row; a literal continued the COBOL way
    "       01  REC.\n           05  A PIC\n      -        X(3).\n",
    "       01  REC.\n           05  A\n      -        PIC\n      -        X(3)\n      -        .\n           05  B PIC X.\n",
    "       01  REC.\n           05  A PIC X(20) VALUE 'ABCDEFGHIJ\n      -    'KLMNOPQRST'.\n           05  B PIC X.\n",
    # literals: quotation marks holding an apostrophe, a period followed by a blank inside a literal
    "       01  REC.\n           05  A PIC X(5) VALUE \"DON'T\".\n           05  B PIC X(4) VALUE 'N.A.'.\n           05  C PIC X VALUE 'Q'.\n",
    "       01  REC.\n           05  A PIC X(5) VALUE 'N.A. '.\n           05  B PIC X.\n",
    "       01  REC.\n           05  A PIC X(9) VALUE 'PIC 9(3)'.\n           05  B PIC X(6) VALUE 'BINARY'.\n           05  C PIC X(6) VALUE 'COMP-3'.\n",
    # unnamed and FILLER records, several records, FILLER numbering across records
    "       01  FILLER.\n           05  FILLER PIC X.\n           05  PIC X.\n       01  FILLER.\n           05  FILLER PIC 9.\n       01.\n           05  A PIC X.\n",
    "       01  REC-A.\n           05  REC-TYPE PIC X(2).\n           05  BODY PIC X(10).\n       01  REC-B.\n           05  REC-TYPE PIC X(2).\n           05  BODY PIC 9(5) COMP-3.\n       01  REC-C.\n           05  REC-TYPE PIC X(2).\n           05  BODY PIC S9(9) COMP.\n",
    # the same sentence text as a redefined item elsewhere
    "       01  REC.\n           05  G1.\n               10  K PIC X(2).\n               10  L REDEFINES K PIC 99.\n           05  G2.\n               10  K PIC X(2).\n               10  M PIC X.\n           05  K PIC X(2).\n",
    # the same group name twice, REDEFINES in the second
    "       01  REC.\n           05  P1.\n               10  ADDR.\n                   15  ZIP PIC X(5).\n           05  P2.\n               10  ADDR.\n                   15  ZIP PIC X(5).\n                   15  ZIP-N REDEFINES ZIP PIC 9(5).\n",
    # a property that happens to be called REDEFINES-x
    "       01  REC.\n           05  A PIC X.\n           05  REDEFINES-A PIC X.\n           05  B REDEFINES A PIC 9.\n",
    "       01  REC.\n           05  A PIC X.\n           05  B REDEFINES A PIC 9.\n           05  REDEFINES-A PIC X.\n           05  C REDEFINES A PIC X.\n",
    # REDEFINES chains, REDEFINES of a group, of an OCCURS item, unknown target, two candidates, at the root
    "       01  REC.\n           05  A PIC X(4).\n           05  B REDEFINES A PIC 9(4).\n           05  C REDEFINES B PIC XX.\n           05  D REDEFINES A.\n               10  D1 PIC X.\n               10  D2 PIC X(3).\n",
    "       01  REC.\n           05  T OCCURS 3 PIC X.\n           05  U REDEFINES T PIC X(3).\n",
    "       01  REC.\n           05  A PIC X.\n           05  B REDEFINES Z PIC X.\n",
    "       01  REC.\n           05  A PIC X.\n           05  A PIC 9.\n           05  B REDEFINES A PIC X.\n",
    "       01  REC-A PIC X(4).\n       01  REC-B REDEFINES REC-A PIC 9(4).\n",
    "       01  REC.\n           05  G OCCURS 2.\n               10  A PIC X.\n               10  B REDEFINES A PIC 9.\n",
    # OCCURS forms
    "       01  REC.\n           05  N PIC 99.\n           05  T OCCURS 1 TO 10 TIMES DEPENDING ON N PIC X(2).\n           05  G OCCURS 5 DEPENDING N.\n               10  H PIC S9(3)V99 COMP-3.\n           05  U OCCURS 007 TIMES PIC X INDEXED BY I1, I2.\n           05  V OCCURS 3 ASCENDING KEY IS K INDEXED BY J.\n               10  K PIC 9.\n",
    "       01  REC.\n           05  T OCCURS ٣ PIC X.\n",
    "       01  REC.\n           05  T OCCURS 99999999999999999999 PIC X.\n",
    "       01  REC.\n           05  T OCCURS 3 OCCURS 1 TO 4 DEPENDING ON Q PIC X.\n",
    # usages and pictures: every usage word, edited pictures, signs, sizes at the thresholds
    "       01  REC.\n           05  A PIC X(3) comp.\n",
    "       01  REC.\n           05  A PIC 9(3) usage is Comp-3.\n",
    "       01  REC.\n           05  a pic x(3).\n           05  b pic s9(3) comp-3.\n",
    "       01  REC.\n           05  A PICTURE IS S9(3) USAGE IS COMP-3.\n           05  B USAGE COMP PIC 9(4).\n           05  C COMP-3 PIC 9.\n",
    "       01  REC.\n           05  A PIC ſ9.\n           05  B PIC S9V9.\n           05  C PIC s9p.\n",
    # names that the decoder's second parse trips over
    "       01  COMPANY-REC.\n           05  COMPANY PIC X(5).\n           05  BINARY-FLAG PIC X(3).\n           05  DISPLAY-NAME PIC X(8).\n           05  PICTURE-ID PIC X(2).\n           05  PIC-1 PIC 9.\n           05  USAGE-CT PIC 9(3).\n",
    "       01  REC.\n           05  COMP-3-AMT PIC X(4).\n           05  X-COMP PIC 9(4).\n           05  PACKED-DECIMAL-1 PIC 9(5).\n",
    # 66 / 77 / 88, first entry skipped level, level 00 and 99, unicode level digits
    "       77  W PIC X.\n       01  REC.\n           05  A PIC X.\n               88  A-YES VALUE 'Y'.\n               88  A-NO VALUE 'N'.\n           66  R RENAMES A.\n       77  Z PIC 9 COMP.\n",
    "       88  FIRST VALUE 1.\n       01  REC PIC X.\n",
    "       00  Z.\n           99  Y PIC X.\n       ٠١  Q PIC X.\n",
    # level numbers written with one digit; the same data name twice among siblings
    "       01 REC.\n           5  A PIC X(3).\n           05 B PIC X.\n",
    "       1  REC.\n           5  A PIC XXX.\n",
    "       01 REC.\n           5  A PIC X(10).\n           05 B PIC X.\n",
    "       01 REC.\n           05 A PIC X.\n           05 A PIC 9.\n           05 C PIC X.\n",
    "       01 REC.\n           05 G1.\n              10 A PIC X.\n           05 G1.\n              10 B PIC X.\n",
    # group without children, elementary with children, picture on a group
    "       01  REC.\n           05  G.\n           05  A PIC X.\n",
    "       01  REC PIC X(3).\n           05  A PIC X.\n",
    # directives and comments between and inside entries; COPY
    "       01  REC.\n       EJECT\n           05  A PIC X.\n      * COMMENT\n      D    05 DEBUG PIC X.\n       SKIP2\n           05  B\n      * INSIDE\n               PIC X.\n",
    "000100 01  REC.\n000200 EJECT\n000300     05  A PIC X.\n",
    "       01  REC.\n      /\n           05  A PIC X.\n",
    "       COPY BOOK1.\n       01  REC PIC X.\n",
    "       01  REC PIC X.\n       COPY BOOK1.\n",
    # beyond column 72, short lines, tabs, carriage returns, form feeds
    "       01  REC.\n           05  A-VERY-LONG-DATA-NAME-THAT-GOES-ON PIC X(10) VALUE 'ABCDEFGHIJ'.  IDENT\n           05  B PIC X.\n",
    "       01  REC.\r\n           05  A PIC X.\r\n",
    "\t01  REC.\n\t    05  A PIC X.\n",
    "       01  REC.\x0c\n           05  A PIC X.\n",
    "       01  REC.\n           05  A PIC X,\n           05  B PIC X;\n           05  C PIC X.\n",
    "       01  REC.\n           05  A, PIC X(3), VALUE 'A,B'.\n           05  B; PIC 9; COMP.\n",
]

PIC_USAGE = [("S9(4)", "COMP"), ("9(5)", "COMP"), ("S9(9)", "BINARY"), ("9(10)", "COMPUTATIONAL"), ("S9(18)", "COMP-4"), ("9(3)", "COMPUTATIONAL-4"),
             ("S9(5)V99", "COMP-3"), ("9(6)", "PACKED-DECIMAL"), ("S9", "COMPUTATIONAL-3"), ("9(4)", "COMP-1"), ("9", "COMPUTATIONAL-1"),
             ("9(8)", "COMP-2"), ("X", "COMPUTATIONAL-2"), ("X(7)", "DISPLAY"), ("ZZ,ZZ9.99", ""), ("$$$9.99CR", ""), ("+999", ""), ("999-", ""),
             ("9(3)DB", ""), ("99/99/99", ""), ("A(3)B9", ""), ("**9.9", ""), ("SV99", ""), ("S9(3)V9(2)", "USAGE IS DISPLAY"), ("PPP9", ""),
             ("9(3)DB", "COMP-3"), ("9(3)CR", "PACKED-DECIMAL"), ("+9(3)", "COMP-3"), ("9(3)CR", "COMP"), ("X(3", ""), ("9(0)", ""), ("9?9", ""),
             ("V", ""), ("S", ""), ("A9(4)", ""), ("99(3)", "COMP-3"), ("S9(4)", "COMP-5"), ("9", "COMPUTATIONAL-5")]
# usages and pictures: every usage word, edited pictures, signs, sizes at the thresholds - all in one record, and one record each
SPECIAL.append("       01  REC.\n" + "".join("           05  F%d PIC %s %s.\n" % (i, p, u) for i, (p, u) in enumerate(PIC_USAGE[:25])))
# the decoder's second parse of the entry text (estruct.clause_pattern) and the WORD BOUNDARIES of its pattern: usage words, PIC,
# PICTURE, USAGE and IS at the start, in the middle and at the end of data names, of REDEFINES / DEPENDING ON targets and of index
# names, with and without a USAGE clause of the item's own; a usage word glued to name characters behind it (COMP-3X, COMP-5,
# BINARYX: the ordered alternation goes on to the next word when the lookahead fails); words right after a separator, a
# parenthesis, an apostrophe (a literal is still re-parsed: finding K-C12-value-literal-reparsed); in lower and mixed case
SPECIAL += [
    "       01  REC.\n           05  EMP-COMPANY PIC X(10).\n           05  WS-COMP-DATE PIC 9(8).\n           05  TOT-BINARY-CT PIC 9(3).\n           05  LAST-ONE PIC X.\n",
    "       01  REC.\n           05  COMP-AMOUNT PIC S9(5)V99.\n           05  PACKED-DECIMAL-QTY PIC 9(5).\n           05  USE-DISPLAY PIC 9(3) COMP-3.\n           05  ELEMENTARY-PIC PIC X(4).\n           05  X-PICTURE PICTURE IS 9(4) USAGE IS BINARY.\n",
    "       01  COMP-3-REC.\n           05  N-COMP-3 PIC S9(4).\n           05  OLD-COMPUTATIONAL-1 PIC 9(6).\n           05  YTD-PACKED-DECIMAL PIC S9(7) PACKED-DECIMAL.\n           05  BINARY-FLAG PIC 9 BINARY.\n           05  DISPLAY-TOTAL PIC 9(4) DISPLAY.\n",
    "       01  REC.\n           05  USAGE-COMP-CT PIC 99.\n           05  THIS-IS PIC X(2).\n           05  IS-BINARY-SW PIC 9(4).\n           05  NON-USAGE-COMP-3 PIC 9(5).\n           05  PIC-9 PIC 9.\n           05  PICTURE-X PICTURE X.\n",
    "       01  REC.\n           05  EMP-COMP PIC X(6).\n           05  EMP-COMP-R REDEFINES EMP-COMP PIC 9(6).\n           05  CT-BINARY PIC 9.\n           05  T-DISPLAY OCCURS 1 TO 5 DEPENDING ON CT-BINARY PIC X(2).\n",
    "       01  REC.\n           05  T OCCURS 3 TIMES INDEXED BY IX-COMP PIC 9(4).\n           05  U OCCURS 2 INDEXED BY BINARY-IX.\n               10  V PIC X.\n",
    "       01  REC.\n           05  A PIC 9(4) COMP-3X.\n           05  B PIC 9(4) COMP-5.\n           05  C PIC 9(4) BINARYX.\n           05  D PIC 9(4) XCOMP.\n           05  E PIC 9(4) COMP-.\n           05  F PIC 9(4) COMPUTATIONAL-9.\n",
    "       01  REC.\n           05  A PIC 9(4) COMP-3, VALUE 1.\n           05  B PIC 9(4); BINARY.\n           05  C PIC 9(4) VALUE (COMP).\n           05  D PIC X(6) VALUE 'COMP-3'.\n           05  E PIC X(6) VALUE 'XCOMP-3'.\n           05  F PIC X(8) VALUE 'A BINARY'.\n           05  G PIC X(6) VALUE 'BINARYX'.\n",
    "       01  REC.\n           05  Emp-Company PIC X(3).\n           05  ws-comp-date PIC 9(8).\n           05  Tot-BINARY-ct PIC 9(3).\n           05  emp-COMP PIC 9(3).\n           05  COMP-x PIC 9(3).\n",
    "       01  REC.\n           05  G-COMP USAGE COMP-3.\n               10  EMP-COMPANY PIC 9(5).\n               10  WS-BINARY PIC 9(5) USAGE DISPLAY.\n",
    "       01  REC.\n           05  A-PIC PIC X(3) VALUE 'PIC'.\n           05  B-PIC PIC 9(3) VALUE IS 123.\n           05  USAGE-IS PIC 9(3) USAGE IS COMP.\n           05  IS-COMP PIC 9(3) IS COMP.\n",
]
SPECIAL += ["       01  REC.\n           05  F PIC %s %s.\n           05  T OCCURS 2 PIC %s %s.\n" % (p, u, p, u) for p, u in PIC_USAGE]

# ------------------------------------------------------------------ streams
def inputs(ctx):
    rng = ctx.rng
    quick = ctx.tier == "quick"
    scale = 1 if quick else 8
    pool = []

    def text_case(t):
        return dict(kind=0, text=t)

    # (a)
    repo = repo_texts(ctx.repo)
    for t in repo:
        pool.append(t)
        yield "repo", text_case(t)
    ctx.exhaustive.append("repo: every copybook file and copybook string constant of the tree (%d texts)" % len(repo))

    for t in SPECIAL:
        pool.append(t)
        yield "special", text_case(t)

    # (b) hand-written forests of C07, printed plainly
    # (entries 7 and 8 of the list name an item like one of its ancestors: outside the well-formed domain, not strict)
    for k, mk in enumerate(C7.HAND):
        c = C7.make_case(rng, mk(), spelled=False)
        pool.append(c["text"])
        yield "hand", dict(kind=1, strict=0 if k in (7, 8) else 1, text=c["text"], entries=c["entries"])

    # (b) strict: well-formed forests, unique names, no trigger of a known finding; every spelling option
    for i in range(220 * scale):
        f = G.gen_forest(rng, max_depth=rng.choice([2, 3, 4, 5]), max_children=rng.choice([2, 3, 5, 7]),
                         ragged=rng.random() < 0.5, contiguous=rng.random() < 0.2, budget=rng.choice([6, 15, 40]),
                         p_filler=rng.choice([0.05, 0.15, 0.5]), p_redefines=rng.choice([0, 0.15, 0.4]))
        c = C7.make_case(rng, f, **C7.spelling(rng))
        pool.append(c["text"])
        yield "printed_strict", dict(kind=1, strict=1, text=c["text"], entries=c["entries"])

    # (b) not strict: repeated names, wild level sequences, colliding names, FILLER-heavy, first entry 66/77/88, known triggers
    def loose(stream, forest, **popts):
        c = C7.make_case(rng, forest, **popts)
        pool.append(c["text"])
        return stream, dict(kind=1, strict=0, text=c["text"], entries=c["entries"])

    lvsets = [[1, 5, 10, 15], [1, 2, 3, 4, 5], [0, 1, 2, 49, 50, 66, 77, 88, 99], [1, 5, 5, 10, 88, 66], [3, 7, 49]]

    def uniq_names():
        k = [0]

        def f():
            k[0] += 1
            return f"{rng.choice(G.STEMS)}-{k[0]}"
        return f
    for i in range(60 * scale):
        f = G.gen_forest(rng, max_depth=rng.choice([3, 4, 5]), max_children=rng.choice([2, 3, 5]), records=rng.choice([1, 1, 2]),
                         budget=rng.choice([15, 40]), p_filler=0.05, p_redefines=rng.choice([0.2, 0.4, 0.6]),
                         p_occurs=rng.choice([0, 0.15]), p_88=0.05, p_66=0.05, p_77=0.05)
        G.repeat_names(rng, f, p=rng.choice([0.2, 0.4, 0.7]), allow_related=rng.random() < 0.5)
        yield loose("printed_dup_names", f, **C7.spelling(rng))
    for i in range(60 * scale):
        f = C7.flat_forest(rng, rng.randint(1, 14), rng.choice(lvsets), uniq_names(), p_redef=rng.choice([0, 0.1, 0.3]))
        yield loose("printed_wild", f, **C7.spelling(rng))
    for i in range(60 * scale):
        names = rng.sample(G.STEMS, rng.randint(1, 4))
        f = C7.flat_forest(rng, rng.randint(1, 12), rng.choice(lvsets), lambda: rng.choice(names), p_redef=rng.choice([0.2, 0.5]),
                           p_filler=rng.choice([0.1, 0.4]))
        yield loose("printed_collide", f, **C7.spelling(rng))
    for i in range(20 * scale):
        f = C7.flat_forest(rng, rng.randint(1, 8), [1, 5, 10, 88, 77], uniq_names(), first=[66, 77, 88], p_redef=0)
        yield loose("printed_first_skipped", f, **C7.spelling(rng))
    for i in range(30 * scale):
        f = C7.flat_forest(rng, rng.randint(2, 16), [1, 5, 5, 10, 10, 88], uniq_names(), p_filler=0.7, p_redef=0)
        yield loose("printed_fillers", f, **C7.spelling(rng))
    for i in range(15 * scale):
        f = G.gen_forest(rng, budget=10, p_redefines=0)
        if rng.random() < 0.5:
            yield loose("trigger_last_entry", f, final_newline=False, one_line=True)
        else:
            yield loose("trigger_last_entry", f, one_line=True, last_line_pad_to=rng.choice([72, 73, 80]))
    for i in range(15 * scale):
        f = G.gen_forest(rng, p_redefines=0.5, p_occurs=0.5, redefines_in_occurs=True, budget=20)
        yield loose("trigger_redefines_in_occurs", f, **C7.spelling(rng))
    for i in range(15 * scale):
        f = G.gen_forest(rng, budget=10, p_redefines=0, name_pool=G.KEYWORD_PREFIX_NAMES + G.STEMS[:6])
        yield loose("trigger_keyword_prefix", f, **C7.spelling(rng))
    for i in range(15 * scale):
        f = G.gen_forest(rng, budget=12, p_redefines=0, p_occurs=0.6, indexed_by=True)
        yield loose("trigger_indexed_by", f, **C7.spelling(rng))

    # (b) record trees of the layout checks (every usage, OCCURS / DEPENDING ON / REDEFINES, lower-case names)
    import layout_common as LC
    for i in range(100 * scale):
        t = LC.gen_tree(rng, dup_names=rng.random() < 0.2, redef_in_occurs=rng.random() < 0.1,
                        occurs_elem_in_union=rng.random() < 0.1, odo_in_table=rng.random() < 0.2)
        text = LC.print_copybook(t)
        pool.append(text)
        yield "printed_layout", text_case(text)

    # (c)
    for i in range(600 * scale):
        yield "edited", text_case(edits(rng, rng.choice(pool)))

    # (d)
    for i in range(150 * scale):
        yield "soup", text_case(soup(rng))

    # (e) from the text to locations and decoded values (Judge/JTextNav.v): the first record of a text is loaded and navigated
    # along every path its document has, on a record of drawn bytes; the values of the atomic leaves are read
    def nav_case(t):
        return dict(kind=2, text=t, record=[rng.choice(NAV_BYTES) if rng.random() < 0.85 else rng.randrange(256) for _ in range(rng.choice([0, 3, 40, 200, 600]))])
    for t in repo:
        yield "text_nav", nav_case(t)
    for t in SPECIAL:
        yield "text_nav", nav_case(t)
    for i in range(120 * scale):
        t = LC.gen_tree(rng, dup_names=rng.random() < 0.15, allow_odo=rng.random() < 0.3)
        yield "text_nav", nav_case(LC.print_copybook(t))
    for i in range(80 * scale):
        f = G.gen_forest(rng, max_depth=rng.choice([2, 3, 4]), max_children=rng.choice([2, 3, 5]), budget=rng.choice([6, 15, 40]),
                         p_filler=rng.choice([0.05, 0.3]), p_redefines=rng.choice([0, 0.15, 0.4]))
        yield "text_nav", nav_case(C7.make_case(rng, f, **C7.spelling(rng))["text"])
    for i in range(60 * scale):
        yield "text_nav", nav_case(edits(rng, rng.choice(pool)))


def ser(v):
    if isinstance(v, bool) or v is None or isinstance(v, float):
        return [9]
    if isinstance(v, int):
        return [1, v] if v >= 0 else [9]
    if isinstance(v, str):
        return [0, S(v)]
    if isinstance(v, dict):
        return [2, [[S(str(k)), ser(x)] for k, x in v.items()]]
    if isinstance(v, (list, tuple)):
        return [3, [ser(x) for x in v]]
    return [9]


# bytes a mainframe record is likely to hold: zoned digits, signed zoned digits, packed pairs and sign nibbles, blanks, letters, zero
NAV_BYTES = (list(range(0xF0, 0xFA)) * 3 + list(range(0xC0, 0xCA)) + list(range(0xD0, 0xDA)) + [0x0C, 0x1C, 0x2D, 0x3F, 0x9C, 0x5D, 0x12, 0x34, 0x56, 0x78, 0x90]
             + [0x40, 0x40, 0xC1, 0xC2, 0xE9, 0x81, 0x00, 0x00, 0x01, 0x7F, 0xFF, 0x25]
             + [0x1A, 0x2B, 0x0B, 0x9B, 0x4D, 0x0D, 0x5E, 0x6F, 0xB3, 0xA7, 0xE1])


def nav_schema(d, unpacker):
    """the emitted document as the loader reads it (keys and anchors as written), widths from the unpacker"""
    from stingray.schema_instance import AtomicSchema
    a = [1, S(d["$anchor"])] if "$anchor" in d else [0]
    if d.get("oneOf"):
        return [4, a, [nav_schema(x, unpacker) for x in d["oneOf"]]]
    if d.get("$ref"):
        return [5, S(d["$ref"].lstrip("#"))]
    t = d.get("type")
    if t == "array":
        if "maxItemsDependsOn" in d:
            return [2, a, S(d["maxItemsDependsOn"]["$ref"].lstrip("#")), nav_schema(d["items"], unpacker)]
        return [1, a, d["maxItems"], nav_schema(d["items"], unpacker)]
    if t == "object":
        return [3, a, [[S(k), nav_schema(v, unpacker)] for k, v in d["properties"].items()]]
    return [0, a, unpacker.calcsize(AtomicSchema(d))]


def nav_paths(js, limit=90):
    """every path the document offers: property names (a placeholder leads to the item it refers to), the first, last and one
    refused index of every table; (path, is an atomic leaf)"""
    anchors = {}

    def collect(d):
        if isinstance(d, dict):
            if isinstance(d.get("$anchor"), str):
                anchors[d["$anchor"]] = d
            for v in d.values():
                collect(v)
        elif isinstance(d, list):
            for v in d:
                collect(v)
    collect(js)
    out = []

    def go(d, path, depth):
        if len(out) >= limit or depth > 14 or not isinstance(d, dict):
            return
        if d.get("$ref"):
            t = anchors.get(str(d["$ref"]).lstrip("#"))
            if t is not None:
                go(t, path, depth + 1)
            return
        if d.get("oneOf"):
            return
        t = d.get("type")
        if t == "array":
            n = d.get("maxItems")
            items = d.get("items")
            if isinstance(n, int) and isinstance(items, dict):
                for i in sorted({0, n - 1, n}):
                    if i < 0:
                        continue
                    out.append((path + [[1, i]], 0))
                    if i < n:
                        go(items, path + [[1, i]], depth + 1)
            return
        if t == "object":
            for k, v in (d.get("properties") or {}).items():
                if k.startswith("REDEFINES-") or not isinstance(v, dict):
                    continue
                tgt = anchors.get(str(v["$ref"]).lstrip("#"), v) if v.get("$ref") else v
                leaf = 1 if (isinstance(tgt, dict) and not tgt.get("oneOf") and tgt.get("type") not in ("array", "object")) else 0
                out.append((path + [[0, S(k)]], leaf))
                go(v, path + [[0, S(k)]], depth + 1)
    go(js, [], 0)
    return out[:limit]


def observe_nav(inp):
    from lib import exn_code
    from codec_common import canon
    from stingray import cobol_parser as cp
    from stingray.schema_instance import SchemaMaker, EBCDIC, BytesInstance
    text, record = inp["text"], inp["record"]
    head = [2, S(text), record]
    try:
        docs = list(cp.schema_iter(io.StringIO(text)))
        js = docs[0]
        unp = EBCDIC()
        schema_obs = [0, nav_schema(js, unp)]
    except BaseException as ex:
        if isinstance(ex, (KeyboardInterrupt, SystemExit, MemoryError)):
            raise
        return head + [[1, exn_code(ex)], [1, exn_code(ex)], []]
    try:
        schema = SchemaMaker.from_json(js)
        nav0 = unp.nav(schema, BytesInstance(bytes(record)))
        top = [0, nav0.location.end]
    except BaseException as ex:
        if isinstance(ex, (KeyboardInterrupt, SystemExit, MemoryError)):
            raise
        return head + [schema_obs, [1, exn_code(ex)], []]
    navs, errs, out = {(): nav0}, {}, []
    paths = nav_paths(js)
    for p, leaf in paths:
        tp = tuple((k, tuple(x) if isinstance(x, list) else x) for k, x in p)
        for j in range(1, len(tp) + 1):
            pre = tp[:j]
            if pre in navs or pre in errs:
                continue
            if pre[:-1] in errs:
                errs[pre] = errs[pre[:-1]]
                continue
            kind, x = pre[-1]
            try:
                navs[pre] = navs[pre[:-1]].index(x) if kind == 1 else navs[pre[:-1]].name("".join(map(chr, x)))
            except BaseException as ex:
                if isinstance(ex, (KeyboardInterrupt, SystemExit, MemoryError)):
                    raise
                errs[pre] = exn_code(ex)
        if tp in errs:
            out.append([p, leaf, [1, errs[tp]]])
            continue
        nav = navs[tp]
        try:
            start, end = nav.location.start, nav.location.end
        except BaseException as ex:
            if isinstance(ex, (KeyboardInterrupt, SystemExit, MemoryError)):
                raise
            out.append([p, leaf, [1, exn_code(ex)]])
            continue
        out.append([p, leaf, [0, start, end, observe_call(nav.value, canon) if leaf else [9]]])
    return head + [schema_obs, top, out]


def observe(ctx, inp):
    from stingray import cobol_parser as cp
    text = inp["text"]
    if inp["kind"] == 2:
        return observe_nav(inp)
    obs = observe_call(lambda: list(cp.schema_iter(io.StringIO(text))), lambda docs: [ser(d) for d in docs])
    if inp["kind"] == 1:
        intended = [[S(e[0]), C7.opt(e[1]), C7.opt(e[2]), C7.opt(e[3]), e[4], e[5], S(e[6]), e[7]] for e in inp["entries"]]
        return [1, inp["strict"], S(text), intended, obs]
    return [0, S(text), obs]


def describe(inp):
    return inp["text"]
