"""C06 - OCCURS DEPENDING ON: each record of a file is laid out by its own counter value.

The harness generates a record description, prints it as a copybook, chooses a count vector per record, builds
position-coded records (the code depends on the position in the FILE, so a read that starts at the wrong offset is
visible), WRITES the file image as RECFM N (plain concatenation), V (RDW) or VB (BDW + RDW) into a temporary
directory, and reads it through the public path

    COBOL_EBCDIC_File(path, recfm_class=..., lrecl=...).sheet('').set_schema(SchemaMaker.from_json(schema)).rows()

serialising for every row: len(row.instance), row.nav.location.end, row.instance[:end], navigation along paths
(start, end, first bytes of raw(), item_count, or the exception), and the counters read by name.
No expectation is computed here: the judge (coq/Judge/JC06.v) re-derives the image with the Spec writers, checks the
records against Spec/Layout.v, decides the property from the specification and compares with the model.
"""
import io
import os
import random
import re
import struct
import tempfile

from lib import exn_code
from layout_common import (elem_choices, gen_tree, contains_odo, assign_names, print_copybook, tree_sx,
                           choose_counts, layout, schema_sx)

GEN = ["RecfmParams"]
RULE = ("streams: flat = members of the theorems' family (one 01 group; fixed elementary items, 1-3 OCCURS DEPENDING ON tables of elementary "
        "items or of one-level groups, OCCURS n tables, counters of 1-2 digits anywhere before their table, a table last or followed by items); "
        "nested = layout_common.gen_tree(allow_odo, no REDEFINES): ODO tables inside groups, sibling groups, depth<=4 (outside the family, judged "
        "against Spec/Layout.v all the same); boundary = long X fields + an ODO table, record lengths around 16384, 20000 and 32768 so the RECFM_N "
        "refill boundary is crossed; lrecl-none = lrecl None / 0 through RECFM N, V, VB (rows as with any lrecl) and F / FB (TypeError before any row). Files of 2-30 records (boundary 3-6), count vectors per record "
        "incl. 0 and max, each as RECFM N, V and VB; fixed = the same records padded to a common LRECL in a RECFM F / FB file. Per row: all table paths, refused index, first/last occurrence, item following each table, "
        "counters by name, plus sampled paths. Branch = 10*recfm + 1 (flat family) / 2 (outside) + 2 when the file is longer than the 32768-byte "
        "buffer; 90 = lrecl missing. distinct = distinct case lines.")
TRIVIAL_BRANCHES = [0]
ASSUMPTIONS = [
    "widths of elementary items are given to the judge as the widths C04's specification lists; the emitted schema is compared with the model's (C01/C07)",
    "ODO counters are unsigned DISPLAY digit items (EBCDIC F0..F9); their decoding is C02's concern (the judge reads the low nibbles)",
    "file.read(n) on a regular file returns min(n, remaining) bytes",
    "the consumer takes each row before asking for the next one (used() is called when the generator is resumed)",
    "the loaded Schema mirrors the JSON document (C15)",
]
TRUSTED = ["harness/c06.py: file writer (checked by the judge against Spec.write_N / write_V / write_VB), record builder (checked by the judge "
           "against Spec/Layout.v: length and counters), lossless run-length form of byte strings (enc)",
           "harness/layout_common.py: copybook printer, tree wire form"]

PATH_CAP = 14

# ------------------------------------------------------------------ byte strings on the wire (same form as C05)

_RUNS = re.compile(rb"(.)\1{2,}", re.S)


def enc(b):
    """bytes -> segments: [0, b...] literal, [1, start, step, count] arithmetic progression mod 256 (lossless)."""
    b = bytes(b)
    n = len(b)
    segs = []
    pos = 0
    if n >= 4:
        d = bytes((y - x) & 255 for x, y in zip(b, b[1:]))
        for m in _RUNS.finditer(d):
            i, j = m.span()
            if i < pos:
                i = pos
            cnt = j - i + 1
            if cnt < 4:
                continue
            _lit(segs, b, pos, i)
            segs.append([1, b[i], d[i], cnt])
            pos = j + 1
    _lit(segs, b, pos, n)
    return segs


def _lit(segs, b, a, z):
    while a < z:
        segs.append([0] + list(b[a:min(z, a + 2000)]))
        a += 2000


def code(p):
    """position code: within a 256-byte page an arithmetic progression, pages differ"""
    return (p * 37 + 11 + (p >> 8) * 7) & 255


# ------------------------------------------------------------------ generators


def _elem(ids, rng, pool):
    pic, usage, size = rng.choice(pool)
    return dict(id=ids(), kind="elem", pic=pic, usage=usage, size=size, occ=None, redef=None, filler=False, kids=[])


def gen_bincounter(rng):
    """the smallest member of flat_odo with a BINARY controlling item: 01 R. 05 C PIC 9(4) COMP. 05 T ... OCCURS 0 TO m
    DEPENDING ON C [05 Z ...] - with low-values (X'00') in every data byte a record with count 0 is nothing but zero bytes.
    m <= 9: the two counter bytes 00 0c read the same as a binary number and as zoned low nibbles."""
    top = dict(id=1, kind="group", occ=None, redef=None, filler=False, kids=[])
    top["kids"].append(dict(id=2, kind="elem", pic="9(4)", usage=rng.choice(["COMP", "BINARY", "COMPUTATIONAL"]), size=2,
                            occ=None, redef=None, filler=False, kids=[], is_counter=True, binary=True))
    k = rng.randint(1, 4)
    mx = rng.randint(1, 9)
    if rng.random() < 0.5:
        top["kids"].append(dict(id=3, kind="elem", pic=f"X({k})", usage="DISPLAY", size=k, occ=("odo", 2, mx), redef=None,
                                filler=False, kids=[]))
    else:
        g = dict(id=3, kind="group", occ=("odo", 2, mx), redef=None, filler=False, kids=[])
        g["kids"].append(dict(id=4, kind="elem", pic=f"X({k})", usage="DISPLAY", size=k, occ=None, redef=None, filler=False, kids=[]))
        top["kids"].append(g)
    if rng.random() < 0.4:
        top["kids"].append(dict(id=5, kind="elem", pic="X(2)", usage="DISPLAY", size=2, occ=None, redef=None, filler=False, kids=[]))
    return top


def gen_flat(rng):
    """a member of flat_odo: fixed elementary items, counters, elementary / one-level-group tables"""
    nxt = [0]

    def ids():
        nxt[0] += 1
        return nxt[0]
    pool = elem_choices(False)
    top = dict(id=ids(), kind="group", occ=None, redef=None, filler=False, kids=[])
    counters = []          # (id, digits)
    want_tables = rng.randint(1, 3)
    tables = 0

    def counter():
        k = rng.randint(1, 2)
        c = dict(id=ids(), kind="elem", pic="9" * k if rng.random() < 0.5 else f"9({k})", usage="DISPLAY", size=k,
                 occ=None, redef=None, filler=False, kids=[], is_counter=True)
        counters.append((c["id"], k))
        return c
    for _ in range(rng.randint(0, 2)):
        top["kids"].append(_elem(ids, rng, pool))
    top["kids"].append(counter())
    while tables < want_tables:
        r = rng.random()
        if r < 0.30:
            top["kids"].append(_elem(ids, rng, pool))
            if rng.random() < 0.15:
                top["kids"][-1]["filler"] = True
        elif r < 0.42:
            top["kids"].append(counter())
        elif r < 0.50:
            e = _elem(ids, rng, pool)
            e["occ"] = ("times", rng.randint(1, 4))
            top["kids"].append(e)
        else:
            cid, digits = rng.choice(counters)
            mx = rng.choice([1, 2, 3, 5, 9]) if digits == 1 else rng.choice([2, 7, 12, 25])
            if rng.random() < 0.5:
                e = _elem(ids, rng, pool)
                e["occ"] = ("odo", cid, mx)
                top["kids"].append(e)
            else:
                g = dict(id=ids(), kind="group", occ=("odo", cid, mx), redef=None, filler=False, kids=[])
                for _ in range(rng.randint(1, 3)):
                    g["kids"].append(_elem(ids, rng, pool))
                top["kids"].append(g)
            tables += 1
    for _ in range(rng.choice([0, 1, 1, 2, 3])):
        top["kids"].append(_elem(ids, rng, pool))
    return top


def gen_nested(rng):
    for _ in range(200):
        t = gen_tree(rng, allow_odo=True, allow_redef=False)
        if contains_odo(t):
            return t
    return gen_flat(rng)


def gen_boundary(rng, target):
    """C 99 . A X(la) . T X(7) OCCURS 0 TO 40 DEPENDING ON C . Z X(lz): lengths target - 70 .. target + 70 around the middle count"""
    base = target - 2 - 7 * 10
    la = rng.randint(1, base - 1)
    lz = base - la
    mk = lambda i, pic, size: dict(id=i, kind="elem", pic=pic, usage="DISPLAY", size=size, occ=None, redef=None, filler=False, kids=[])
    c = mk(2, "99", 2)
    c["is_counter"] = True
    t = mk(4, "X(7)", 7)
    t["occ"] = ("odo", 2, 40)
    return dict(id=1, kind="group", occ=None, redef=None, filler=False, kids=[c, mk(3, f"X({la})", la), t, mk(5, f"X({lz})", lz)])


# ------------------------------------------------------------------ paths observed on every row


def must_paths(tree, env):
    out = []

    def count(n):
        return n["occ"][1] if n["occ"][0] == "times" else env[n["occ"][1]]

    def go(n, path):
        kids = n["kids"]
        for idx, k in enumerate(kids):
            p = path + [[0, k["id"]]]
            if k["occ"] is not None:
                c = count(k)
                out.append(p)
                out.append(p + [[1, c]])
                if c:
                    out.append(p + [[1, 0]])
                    out.append(p + [[1, c - 1]])
                    if k["kind"] == "elem":
                        out.append(p + [[1, c - 1], [0, k["id"]]])
                    else:
                        out.append(p + [[1, c - 1], [0, k["kids"][-1]["id"]]])
                if idx + 1 < len(kids):
                    out.append(path + [[0, kids[idx + 1]["id"]]])
            elif k["kind"] == "group":
                go(k, p)
            elif k.get("is_counter"):
                out.append(p)
    go(tree, [])
    return out


def row_paths(tree, env, all_paths, rng):
    must = must_paths(tree, env)
    if len(must) > PATH_CAP:
        must = must[:PATH_CAP]
    seen = {repr(p) for p in must}
    extra = [p for p in all_paths if repr(p) not in seen]
    room = max(0, PATH_CAP - len(must))
    if len(extra) > room:
        extra = rng.sample(extra, room)
    return [[]] + [p for p in must if p] + [p for p in extra if p]


# ------------------------------------------------------------------ cases


def inputs(ctx):
    rng = ctx.rng
    q = ctx.tier == "quick"
    for i in range(120 if q else 1500):
        yield "flat", dict(kind="flat", seed=rng.randrange(1 << 30), recfm=i % 3, lrecl=rng.choice([1, 80, 32768, 100000]))
    for i in range(120 if q else 1500):
        yield "nested", dict(kind="nested", seed=rng.randrange(1 << 30), recfm=i % 3, lrecl=rng.choice([1, 80, 32768]))
    targets = [16384, 16384, 20000, 32698, 32698, 24000]
    for i in range(12 if q else 72):
        yield "boundary", dict(kind="boundary", seed=rng.randrange(1 << 30), recfm=(0 if i % 4 != 3 else 1 + (i // 4) % 2),
                               lrecl=32768, target=targets[i % len(targets)])
    # the same variable-length records in a fixed-length (RECFM F/FB) file: each record padded to the file's LRECL
    for i in range(40 if q else 500):
        yield "fixed", dict(kind="flat" if i % 2 == 0 else "nested", seed=rng.randrange(1 << 30), recfm=3, lrecl=None)
    # a BINARY controlling item in records of low-values: a record whose count is zero is all X'00', also at the end of the file
    for i in range(30 if q else 300):
        yield "binary-counter", dict(kind="bincounter", seed=rng.randrange(1 << 30), recfm=[0, 0, 1, 2][i % 4], lrecl=rng.choice([1, 80, 32768]))
    # lrecl=None (what the docstring of COBOL_EBCDIC_File asks for with an OCCURS DEPENDING ON layout) and lrecl=0, through every
    # reader; RECFM F / FB (flat family only: every member holds an ODO table, so no length can be computed) must refuse with TypeError
    for i in range(16 if q else 96):
        recfm = i % 4
        yield "lrecl-none", dict(kind="flat" if (recfm == 3 or i % 8 < 4) else "nested", seed=rng.randrange(1 << 30), recfm=recfm,
                                 lrecl=None if (i // 4) % 2 == 0 else 0, no_lrecl=True)


def pick_nrec(rng):
    """2-30 records, mostly short files (case lines stay small for the vm_compute cross-check)"""
    r = rng.random()
    return rng.randint(2, 5) if r < 0.6 else rng.randint(6, 12) if r < 0.9 else rng.randint(13, 30)


def build_case(c):
    rng = random.Random(c["seed"])
    if c["kind"] == "bincounter":
        tree = gen_bincounter(rng)
        nrec = rng.randint(2, 8)
    elif c["kind"] == "flat":
        tree = gen_flat(rng)
        nrec = pick_nrec(rng)
    elif c["kind"] == "nested":
        tree = gen_nested(rng)
        nrec = pick_nrec(rng)
    else:
        tree = gen_boundary(rng, c["target"])
        nrec = rng.randint(3, 6)
    envs, recs, per_row, counters = [], [], [], None
    pos = 0
    for j in range(nrec):
        env = choose_counts(tree, rng)
        if c["kind"] == "boundary":
            # counts around the middle so that lengths straddle the target; 32698 + 70 = 32768 is the largest legal record
            env = {2: rng.choice([0, 9, 10, 11, 20, 20, 19, 1])}
        total, ctrs, paths = layout(tree, env)
        if c["kind"] == "bincounter":
            # low-values everywhere, the counter as a big-endian binary number; zero counts at the END of the file
            if j >= nrec - 1 - (c["seed"] % 3):
                env = {k: 0 for k in env}
                total, ctrs, paths = layout(tree, env)
            r = bytearray(total)
            for cid, _p, st, sz in ctrs:
                r[st:st + sz] = env[cid].to_bytes(sz, "big")
        else:
            r = bytearray(code(pos + i) for i in range(total))
            for cid, _p, st, sz in ctrs:
                r[st:st + sz] = bytes(0xF0 + int(d) for d in f"{env[cid]:0{sz}d}")
        envs.append(env)
        recs.append(bytes(r))
        per_row.append(row_paths(tree, env, paths, rng))
        counters = ctrs
        pos += total
    blocking = []
    if c["recfm"] == 2:
        j = 0
        while j < nrec:
            k, size = 0, 4
            want = rng.randint(1, 4)
            while j + k < nrec and k < want and size + len(recs[j + k]) + 4 <= 65535:
                size += len(recs[j + k]) + 4
                k += 1
            k = max(k, 1)
            blocking.append(k)
            j += k
    return tree, envs, recs, per_row, counters, blocking


def image_of(recfm, recs, blocking, lrecl=None):
    if recfm == 3:
        return b"".join(r + bytes([0x40]) * (lrecl - len(r)) for r in recs)
    if recfm == 0:
        return b"".join(recs)
    if recfm == 1:
        return b"".join(struct.pack(">H2x", len(r) + 4) + r for r in recs)
    out, j = [], 0
    for k in blocking:
        body = b"".join(struct.pack(">H2x", len(r) + 4) + r for r in recs[j:j + k])
        out.append(struct.pack(">H2x", len(body) + 4) + body)
        j += k
    return b"".join(out)


def _code(ex):
    if isinstance(ex, (KeyboardInterrupt, SystemExit, MemoryError)):
        raise ex
    return [1, exn_code(ex)]


def obs_row(row, names, paths, counters, shared=None):
    nav0 = row.nav
    inst = row.instance
    end = nav0.location.end
    if shared is not None:
        # the same record located through ONE LocationMaker that serves every record of the file (the public sequence
        # maker = LocationMaker(unpacker, schema); maker.ndnav(rec1); maker.ndnav(rec2) ...): when it places the record's end
        # elsewhere than the row's own navigator does, that end is the one reported
        try:
            end2 = shared.ndnav(inst).location.end
        except BaseException as ex:
            if isinstance(ex, (KeyboardInterrupt, SystemExit, MemoryError)):
                raise
            end2 = -1
        if end2 != end:
            end = end2
    probes = []
    for p in paths:
        try:
            nav = nav0
            for kind, x in p:
                nav = nav.index(x) if kind == 1 else nav.name(names[x])
            raw = bytes(nav.raw())
            loc = nav.location
            probes.append([p, [0, loc.start, loc.end, list(raw[:8]), getattr(loc, "item_count", -1)]])
        except BaseException as ex:
            probes.append([p, _code(ex)])
    cvals = []
    for cid, path, _st, _sz in counters:
        try:
            if len(path) == 1:
                v = row.name(names[cid]).value()
            else:
                nav = nav0
                for _kind, x in path:
                    nav = nav.name(names[x])
                v = nav.value()
            cvals.append([cid, [0, int(v)]])
        except BaseException as ex:
            cvals.append([cid, _code(ex)])
    return [len(inst), end, enc(inst[:end]), probes, cvals]


def observe(ctx, c):
    from stingray.cobol_parser import schema_iter
    from stingray.schema_instance import SchemaMaker, EBCDIC
    from stingray.workbook import COBOL_EBCDIC_File
    from stingray import estruct
    tree, envs, recs, per_row, counters, blocking = build_case(c)
    names = assign_names(tree)
    rev = {v: k for k, v in names.items()}
    lrecl = c["lrecl"]
    pad = lrecl
    if c["recfm"] == 3:
        # LRECL of the fixed-length file: the longest record of this file plus 0..3 bytes (derived from the seed)
        pad = max(max(len(r) for r in recs), 1) + c["seed"] % 4
        if not c.get("no_lrecl"):
            lrecl = pad              # ... and that is what the reader is told, except in the lrecl-none stream
    image = image_of(c["recfm"], recs, blocking, pad)
    cls = [estruct.RECFM_N, estruct.RECFM_V, estruct.RECFM_VB, estruct.RECFM_F if c["seed"] % 2 else estruct.RECFM_FB][c["recfm"]]
    head = [tree_sx(tree), c["recfm"], [0] if lrecl is None else [1, lrecl],
            [[[k, v] for k, v in sorted(e.items())] for e in envs],
            [[cid, p] for cid, p, _, _ in counters], [enc(r) for r in recs], blocking]
    try:
        js = list(schema_iter(io.StringIO(print_copybook(tree))))[0]
        schema_obs = [0, schema_sx(js, rev, EBCDIC())]
        schema = SchemaMaker.from_json(js)
    except BaseException as ex:
        return head + [enc(image), _code(ex), _code(ex)]
    with tempfile.TemporaryDirectory(prefix="c06_") as d:
        path = os.path.join(d, "records.bin")
        with open(path, "wb") as f:
            f.write(image)
        with open(path, "rb") as f:
            on_disk = f.read()
        wb = COBOL_EBCDIC_File(path, recfm_class=cls, lrecl=lrecl)
        try:
            sheet = wb.sheet("")
            try:
                sheet.set_schema(schema)
            except BaseException as ex:
                return head + [enc(on_disk), schema_obs, _code(ex)]
            rows, ending = [], [0]
            cap = len(recs) + 4
            from stingray.schema_instance import LocationMaker
            shared_maker = LocationMaker(wb.unpacker, schema)
            try:
                for row in sheet.rows():
                    j = len(rows)
                    rows.append(obs_row(row, names, per_row[j] if j < len(per_row) else [[]], counters, shared_maker))
                    if len(rows) >= cap:
                        ending = [2]
                        break
            except BaseException as ex:
                ending = _code(ex)
            return head + [enc(on_disk), schema_obs, [0, rows, ending]]
        finally:
            wb.close()


def describe(c):
    tree, envs, recs, per_row, counters, blocking = build_case(c)
    return dict(c, copybook=print_copybook(tree), counts=envs, record_lengths=[len(r) for r in recs], blocking=blocking)
