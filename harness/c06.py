"""C06 - OCCURS DEPENDING ON: each record of a file is laid out by its own counter value.

The harness generates a record description, prints it as a copybook, chooses a count vector per record, builds
position-coded records (the code depends on the position in the FILE, so a read that starts at the wrong offset is
visible), WRITES the file image as RECFM N (plain concatenation), V (RDW) or VB (BDW + RDW) into a temporary
directory, and reads it through the public path

    COBOL_EBCDIC_File(path, recfm_class=..., lrecl=...).sheet('').set_schema(SchemaMaker.from_json(schema)).rows()

serialising for every row: len(row.instance), row.nav.location.end, row.instance[:end], navigation along paths
(start, end, first bytes of raw(), item_count, or the exception), and the counters read by name.
No expectation is computed here: the judge (coq/Judge/JC06.v) re-derives the image with the Spec writers, checks the
records against Spec/Layout.v, decides the property from the specification and compares with the model.
"""
import io
import os
import random
import re
import struct
import tempfile

from lib import exn_code
from layout_common import (elem_choices, gen_tree, contains_odo, assign_names, print_copybook, tree_sx,
                           choose_counts, layout, schema_sx)

GEN = ["RecfmParams"]
RULE = ("streams: flat = members of the theorems' family (one 01 group; fixed elementary items, 1-3 OCCURS DEPENDING ON tables of elementary "
        "items or of one-level groups, OCCURS n tables, counters of 1-2 digits anywhere before their table, a table last or followed by items); "
        "nested = layout_common.gen_tree(allow_odo, no REDEFINES): ODO tables inside groups, sibling groups, depth<=4 (outside the family, judged "
        "against Spec/Layout.v all the same); boundary = long X fields + an ODO table, record lengths around 16384, 20000 and 32768 so the RECFM_N "
        "refill boundary is crossed; lrecl-none = lrecl None / 0 through RECFM N, V, VB (rows as with any lrecl) and F / FB (TypeError before any row). Files of 2-30 records (boundary 3-6), count vectors per record "
        "incl. 0 and max, each as RECFM N, V and VB; fixed = the same records padded to a common LRECL in a RECFM F / FB file. Per row: all table paths, refused index, first/last occurrence, item following each table, "
        "counters by name, plus sampled paths. Branch = 10*recfm + 1 (flat family) / 2 (outside) + 2 when the file is longer than the 32768-byte "
        "buffer; 90 = lrecl missing. distinct = distinct case lines. COUNTERS AS THEY OCCUR IN PRACTICE (Props/C06e.v): packed-counter = flat family "
        "with COMP-3 / PACKED-DECIMAL counters (1-3 bytes, signed and unsigned pictures, sign nibbles C F A E); comp-counter = COMP / BINARY / COMP-4 "
        "counters of 1-18 digits (2, 4, 8 bytes; never S9(4) / S9(9), the trigger of C04's K-signed-binary-size); zoned-signed-counter = PIC S9(k) "
        "DISPLAY with zones C F A E; above-maximum = the same three kinds and plain digits with every count 1 or 3 above the declared OCCURS maximum, "
        "the record long enough; each through RECFM N, V, VB and F; judged with the kind's decoder, the record checked with the encoders only, every "
        "row also against the walk over Python's integers (branch + 100 * kind). negative-counter = RECFM V files of such records in which some "
        "counters hold NEGATIVE values (zone / sign nibble D or B, two's complement FF..), counters declared before the first table, incl. the values "
        "for which table start + item size * count = 0 under the walk before the fix; the records before the first such record must be delivered and "
        "that record REFUSED with ValueError (fix of finding K-negative-counter; branch 60 + kind, + 4 when a table's counter is negative); its "
        "first case is the witness of that former finding.")
TRIVIAL_BRANCHES = [0]
ASSUMPTIONS = [
    "widths of elementary items are given to the judge as the widths C04's specification lists; the emitted schema is compared with the model's (C01/C07)",
    "ODO counters are unsigned DISPLAY digit items (EBCDIC F0..F9) whose low nibbles the judge reads - except in the streams packed-counter, "
    "comp-counter, zoned-signed-counter, above-maximum and negative-counter, where the judge runs the model of estruct.unpack + int() "
    "(Model/Counters.v) and checks the record with the specification's encoders",
    "file.read(n) on a regular file returns min(n, remaining) bytes",
    "the consumer takes each row before asking for the next one (used() is called when the generator is resumed)",
    "the loaded Schema mirrors the JSON document (C15)",
]
TRUSTED = ["harness/c06.py: file writer (checked by the judge against Spec.write_N / write_V / write_VB), record builder (checked by the judge "
           "against Spec/Layout.v: length and counters), lossless run-length form of byte strings (enc)",
           "harness/layout_common.py: copybook printer, tree wire form"]

PATH_CAP = 14

# ------------------------------------------------------------------ byte strings on the wire (same form as C05)

_RUNS = re.compile(rb"(.)\1{2,}", re.S)


def enc(b):
    """bytes -> segments: [0, b...] literal, [1, start, step, count] arithmetic progression mod 256 (lossless)."""
    b = bytes(b)
    n = len(b)
    segs = []
    pos = 0
    if n >= 4:
        d = bytes((y - x) & 255 for x, y in zip(b, b[1:]))
        for m in _RUNS.finditer(d):
            i, j = m.span()
            if i < pos:
                i = pos
            cnt = j - i + 1
            if cnt < 4:
                continue
            _lit(segs, b, pos, i)
            segs.append([1, b[i], d[i], cnt])
            pos = j + 1
    _lit(segs, b, pos, n)
    return segs


def _lit(segs, b, a, z):
    while a < z:
        segs.append([0] + list(b[a:min(z, a + 2000)]))
        a += 2000


def code(p):
    """position code: within a 256-byte page an arithmetic progression, pages differ"""
    return (p * 37 + 11 + (p >> 8) * 7) & 255


# ------------------------------------------------------------------ generators


def _elem(ids, rng, pool):
    pic, usage, size = rng.choice(pool)
    return dict(id=ids(), kind="elem", pic=pic, usage=usage, size=size, occ=None, redef=None, filler=False, kids=[])


def gen_bincounter(rng):
    """the smallest member of flat_odo with a BINARY controlling item: 01 R. 05 C PIC 9(4) COMP. 05 T ... OCCURS 0 TO m
    DEPENDING ON C [05 Z ...] - with low-values (X'00') in every data byte a record with count 0 is nothing but zero bytes.
    m <= 9: the two counter bytes 00 0c read the same as a binary number and as zoned low nibbles."""
    top = dict(id=1, kind="group", occ=None, redef=None, filler=False, kids=[])
    top["kids"].append(dict(id=2, kind="elem", pic="9(4)", usage=rng.choice(["COMP", "BINARY", "COMPUTATIONAL"]), size=2,
                            occ=None, redef=None, filler=False, kids=[], is_counter=True, binary=True))
    k = rng.randint(1, 4)
    mx = rng.randint(1, 9)
    if rng.random() < 0.5:
        top["kids"].append(dict(id=3, kind="elem", pic=f"X({k})", usage="DISPLAY", size=k, occ=("odo", 2, mx), redef=None,
                                filler=False, kids=[]))
    else:
        g = dict(id=3, kind="group", occ=("odo", 2, mx), redef=None, filler=False, kids=[])
        g["kids"].append(dict(id=4, kind="elem", pic=f"X({k})", usage="DISPLAY", size=k, occ=None, redef=None, filler=False, kids=[]))
        top["kids"].append(g)
    if rng.random() < 0.4:
        top["kids"].append(dict(id=5, kind="elem", pic="X(2)", usage="DISPLAY", size=2, occ=None, redef=None, filler=False, kids=[]))
    return top


def gen_flat(rng):
    """a member of flat_odo: fixed elementary items, counters, elementary / one-level-group tables"""
    nxt = [0]

    def ids():
        nxt[0] += 1
        return nxt[0]
    pool = elem_choices(False)
    top = dict(id=ids(), kind="group", occ=None, redef=None, filler=False, kids=[])
    counters = []          # (id, digits)
    want_tables = rng.randint(1, 3)
    tables = 0

    def counter():
        k = rng.randint(1, 2)
        c = dict(id=ids(), kind="elem", pic="9" * k if rng.random() < 0.5 else f"9({k})", usage="DISPLAY", size=k,
                 occ=None, redef=None, filler=False, kids=[], is_counter=True)
        counters.append((c["id"], k))
        return c
    for _ in range(rng.randint(0, 2)):
        top["kids"].append(_elem(ids, rng, pool))
    top["kids"].append(counter())
    while tables < want_tables:
        r = rng.random()
        if r < 0.30:
            top["kids"].append(_elem(ids, rng, pool))
            if rng.random() < 0.15:
                top["kids"][-1]["filler"] = True
        elif r < 0.42:
            top["kids"].append(counter())
        elif r < 0.50:
            e = _elem(ids, rng, pool)
            e["occ"] = ("times", rng.randint(1, 4))
            top["kids"].append(e)
        else:
            cid, digits = rng.choice(counters)
            mx = rng.choice([1, 2, 3, 5, 9]) if digits == 1 else rng.choice([2, 7, 12, 25])
            if rng.random() < 0.5:
                e = _elem(ids, rng, pool)
                e["occ"] = ("odo", cid, mx)
                top["kids"].append(e)
            else:
                g = dict(id=ids(), kind="group", occ=("odo", cid, mx), redef=None, filler=False, kids=[])
                for _ in range(rng.randint(1, 3)):
                    g["kids"].append(_elem(ids, rng, pool))
                top["kids"].append(g)
            tables += 1
    for _ in range(rng.choice([0, 1, 1, 2, 3])):
        top["kids"].append(_elem(ids, rng, pool))
    return top


def gen_nested(rng):
    for _ in range(200):
        t = gen_tree(rng, allow_odo=True, allow_redef=False)
        if contains_odo(t):
            return t
    return gen_flat(rng)


def gen_boundary(rng, target):
    """C 99 . A X(la) . T X(7) OCCURS 0 TO 40 DEPENDING ON C . Z X(lz): lengths target - 70 .. target + 70 around the middle count"""
    base = target - 2 - 7 * 10
    la = rng.randint(1, base - 1)
    lz = base - la
    mk = lambda i, pic, size: dict(id=i, kind="elem", pic=pic, usage="DISPLAY", size=size, occ=None, redef=None, filler=False, kids=[])
    c = mk(2, "99", 2)
    c["is_counter"] = True
    t = mk(4, "X(7)", 7)
    t["occ"] = ("odo", 2, 40)
    return dict(id=1, kind="group", occ=None, redef=None, filler=False, kids=[c, mk(3, f"X({la})", la), t, mk(5, f"X({lz})", lz)])


# ------------------------------------------------------------------ counters as they occur in practice (Props/C06e.v)

_POS = [0xC, 0xF, 0xA, 0xE]
_NEG = [0xD, 0xB]


def enc_counter(kind, size, v, rng):
    """the bytes a mainframe stores for the value v in a counter field of this kind (the judge checks them against Spec/Encode.v)"""
    if kind == 3:
        return v.to_bytes(size, "big", signed=True)
    sign = rng.choice(_NEG) if v < 0 else rng.choice(_POS)
    if kind == 1:
        ds = f"{abs(v):0{size}d}"
        return bytes([0xF0 + int(d) for d in ds[:-1]] + [(sign << 4) | int(ds[-1])])
    if kind == 2:
        ds = [int(d) for d in f"{abs(v):0{2 * size - 1}d}"] + [sign]
        return bytes(16 * ds[i] + ds[i + 1] for i in range(0, len(ds), 2))
    return bytes(0xF0 + int(d) for d in f"{v:0{size}d}")


def counter_item(rng, kind, i, d):
    """an elementary counter item of the kind: (pic, usage, size); d = digit positions of every COMP counter of this tree"""
    if kind == 0:
        k = rng.randint(1, 2)
        pic, usage, size = ("9" * k if rng.random() < 0.5 else f"9({k})"), "DISPLAY", k
    elif kind == 1:
        k = rng.randint(1, 3)
        pic, usage, size = f"S9({k})" if rng.random() < 0.6 else "S" + "9" * k, "DISPLAY", k + 1
    elif kind == 2:
        k = rng.choice([1, 2, 3, 3, 4, 5])
        sg = "S" if rng.random() < 0.6 else ""
        pic, usage, size = f"{sg}9({k})", rng.choice(["COMP-3", "COMP-3", "PACKED-DECIMAL", "COMPUTATIONAL-3"]), k // 2 + 1
    else:
        sg = "S" if (d not in (4, 9) and rng.random() < 0.6) else ""
        pic, usage = f"{sg}9({d})", rng.choice(["COMP", "COMP", "BINARY", "COMP-4", "COMPUTATIONAL", "COMPUTATIONAL-4"])
        size = 2 if d < 5 else 4 if d < 10 else 8
    return dict(id=i, kind="elem", pic=pic, usage=usage, size=size, occ=None, redef=None, filler=False, kids=[], is_counter=True)


def counter_capacity(kind, c):
    if kind == 3:
        return 99
    if kind == 2:
        return min(99, 10 ** (2 * c["size"] - 1) - 1)
    if kind == 1:
        return min(99, 10 ** c["size"] - 1)
    return 10 ** c["size"] - 1


def gen_counter_tree(rng, kind, counters_first):
    """a member of flat_odo whose counters are of one kind; counters_first: every counter before the first table (negative stream)"""
    nxt = [0]

    def ids():
        nxt[0] += 1
        return nxt[0]
    pool = elem_choices(False)
    d = rng.choice([1, 2, 3, 3, 4, 4, 5, 7, 8, 9, 10, 12, 18]) if kind == 3 else 0
    top = dict(id=ids(), kind="group", occ=None, redef=None, filler=False, kids=[])
    counters = []
    for _ in range(rng.randint(0, 2)):
        top["kids"].append(_elem(ids, rng, pool))
    for _ in range(rng.randint(1, 2) if counters_first else 1):
        c = counter_item(rng, kind, ids(), d)
        counters.append(c)
        top["kids"].append(c)
        if rng.random() < 0.4:
            top["kids"].append(_elem(ids, rng, pool))
    want_tables = rng.randint(1, 3)
    tables = 0
    while tables < want_tables:
        r = rng.random()
        if r < 0.28:
            top["kids"].append(_elem(ids, rng, pool))
        elif r < 0.38 and not counters_first:
            c = counter_item(rng, kind, ids(), d)
            counters.append(c)
            top["kids"].append(c)
        elif r < 0.45:
            e = _elem(ids, rng, pool)
            e["occ"] = ("times", rng.randint(1, 3))
            top["kids"].append(e)
        else:
            c = rng.choice(counters)
            mx = rng.choice([1, 2, 3, 4]) if counter_capacity(kind, c) >= 9 else rng.choice([1, 2, 3])
            if rng.random() < 0.55:
                e = _elem(ids, rng, pool)
                e["occ"] = ("odo", c["id"], mx)
                top["kids"].append(e)
            else:
                g = dict(id=ids(), kind="group", occ=("odo", c["id"], mx), redef=None, filler=False, kids=[])
                for _ in range(rng.randint(1, 3)):
                    g["kids"].append(_elem(ids, rng, pool))
                top["kids"].append(g)
            tables += 1
    for _ in range(rng.choice([0, 1, 1, 2])):
        top["kids"].append(_elem(ids, rng, pool))
    return top, d


def table_maxes(tree):
    """counter id -> (smallest, largest) declared maximum among the tables that depend on it"""
    out = {}
    for k in tree["kids"]:
        if k["occ"] is not None and k["occ"][0] == "odo":
            lo, hi = out.get(k["occ"][1], (99, 0))
            out[k["occ"][1]] = (min(lo, k["occ"][2]), max(hi, k["occ"][2]))
    return out


def signed_paths(tree, env):
    """paths of the negative-counter stream: every child by name; of a table the occurrences 0, 1, count - 1, the refused index count
    (max(0, count)) and what lies in an occurrence"""
    out = [[]]
    for k in tree["kids"]:
        p = [[0, k["id"]]]
        out.append(p)
        if k["occ"] is not None:
            c = k["occ"][1] if k["occ"][0] == "times" else env[k["occ"][1]]
            inner = k["id"] if k["kind"] == "elem" else k["kids"][-1]["id"]
            for i in sorted({0, 1, max(c - 1, 0), max(c, 0)}):
                out.append(p + [[1, i]])
            out.append(p + [[1, 0], [0, inner]])
            if c > 1:
                out.append(p + [[1, c - 1], [0, inner]])
    return out[:PATH_CAP + 6]


def witness_case():
    """the witness of the repaired finding K-negative-counter (known_findings.json, fixed; Spec/CountersWf.v neg_tree / neg_rec):
    01 R. 05 N PIC S9. 05 T PIC X(2) OCCURS 0 TO 5 DEPENDING ON N. 05 Z PIC X(3).  with N = F0 D2 (-2), then N = F0 D1 (-1: table
    start 2 + item size 2 * -1 = 0, which Location.__init__ reads as no end), then N = F0 C2 (2: an ordinary record)"""
    mk = lambda i, pic, size: dict(id=i, kind="elem", pic=pic, usage="DISPLAY", size=size, occ=None, redef=None, filler=False, kids=[])
    n = mk(2, "S9", 2)
    n["is_counter"] = True
    t = mk(3, "X(2)", 2)
    t["occ"] = ("odo", 2, 5)
    tree = dict(id=1, kind="group", occ=None, redef=None, filler=False, kids=[n, t, mk(4, "X(3)", 3)])
    envs = [{2: -2}, {2: -1}, {2: 2}]
    recs = [bytes([0xF0, 0xD2, 0xC1, 0xC2, 0xC3]), bytes([0xF0, 0xD1, 0xC1, 0xC2, 0xC3]),
            bytes([0xF0, 0xC2, 0xC1, 0xC2, 0xC3, 0xC4, 0xC5, 0xC6, 0xC7])]
    _total, ctrs, _paths = layout(tree, {2: 0})
    return tree, envs, recs, [signed_paths(tree, e) for e in envs], ctrs, [], 0


def build_counter_case(c):
    """(tree, envs, recs, per_row, counters, blocking, d) for the streams of Props/C06e.v"""
    rng = random.Random(c["seed"])
    kind, mode = c["ck"], c["mode"]
    if c.get("witness"):
        return witness_case()
    tree, d = gen_counter_tree(rng, kind, counters_first=(mode == "neg"))
    citems = {k["id"]: k for k in tree["kids"] if k.get("is_counter")}
    maxes = table_maxes(tree)
    nrec = rng.randint(2, 5) if mode == "neg" else pick_nrec(rng)
    envs, recs, per_row, counters = [], [], [], None
    pos = 0
    for j in range(nrec):
        env = {}
        for cid, item in citems.items():
            lo, hi = maxes.get(cid, (3, 3))
            cap = counter_capacity(kind, item)
            if mode == "above":
                env[cid] = min(hi + rng.choice([1, 3]), cap)
            else:
                env[cid] = rng.choice([0, lo, rng.randint(0, lo), rng.randint(0, lo)])
        lay_env = dict(env)
        if mode == "neg":
            # counters a table depends on: negative in most records (never in all: a file may be clean); the total below is the
            # length of the record with max(0, c) elements - the property's reading of a count below zero
            for cid in maxes:
                r = rng.random()
                if r < 0.55 and c["neg"]:
                    env[cid] = -rng.choice([1, 1, 2, 2, 3, 4, 7, min(9, counter_capacity(kind, citems[cid]))])
                lay_env[cid] = max(env[cid], 0)
        total, ctrs, paths = layout(tree, lay_env)
        if mode == "neg" and c["neg"] and rng.random() < 0.35:
            # the value for which  table start + item size * count = 0  (Location.__init__ reads an end of 0 as no end)
            off = 0
            for k in tree["kids"]:
                one = k["size"] if k["kind"] == "elem" else sum(x["size"] for x in k["kids"])
                if k["occ"] is not None and k["occ"][0] == "odo" and off > 0 and off % one == 0 \
                        and off // one <= counter_capacity(kind, citems[k["occ"][1]]):
                    env[k["occ"][1]] = -(off // one)
                    lay_env[k["occ"][1]] = 0
                    break
                cnt = 1 if k["occ"] is None else k["occ"][1] if k["occ"][0] == "times" else lay_env[k["occ"][1]]
                off += one * cnt
            total, ctrs, paths = layout(tree, lay_env)
        r = bytearray(code(pos + i) for i in range(total))
        for cid, _p, st, sz in ctrs:
            r[st:st + sz] = enc_counter(kind, sz, env[cid], rng)
        envs.append(env)
        recs.append(bytes(r))
        per_row.append(signed_paths(tree, env) if mode == "neg" else row_paths(tree, lay_env, paths, rng))
        counters = ctrs
        pos += total
    blocking = []
    if c["recfm"] == 2:
        j = 0
        while j < nrec:
            k = min(rng.randint(1, 4), nrec - j)
            blocking.append(k)
            j += k
    return tree, envs, recs, per_row, counters, blocking, d


# ------------------------------------------------------------------ paths observed on every row


def must_paths(tree, env):
    out = []

    def count(n):
        return n["occ"][1] if n["occ"][0] == "times" else env[n["occ"][1]]

    def go(n, path):
        kids = n["kids"]
        for idx, k in enumerate(kids):
            p = path + [[0, k["id"]]]
            if k["occ"] is not None:
                c = count(k)
                out.append(p)
                out.append(p + [[1, c]])
                if c:
                    out.append(p + [[1, 0]])
                    out.append(p + [[1, c - 1]])
                    if k["kind"] == "elem":
                        out.append(p + [[1, c - 1], [0, k["id"]]])
                    else:
                        out.append(p + [[1, c - 1], [0, k["kids"][-1]["id"]]])
                if idx + 1 < len(kids):
                    out.append(path + [[0, kids[idx + 1]["id"]]])
            elif k["kind"] == "group":
                go(k, p)
            elif k.get("is_counter"):
                out.append(p)
    go(tree, [])
    return out


def row_paths(tree, env, all_paths, rng):
    must = must_paths(tree, env)
    if len(must) > PATH_CAP:
        must = must[:PATH_CAP]
    seen = {repr(p) for p in must}
    extra = [p for p in all_paths if repr(p) not in seen]
    room = max(0, PATH_CAP - len(must))
    if len(extra) > room:
        extra = rng.sample(extra, room)
    return [[]] + [p for p in must if p] + [p for p in extra if p]


# ------------------------------------------------------------------ cases


def inputs(ctx):
    rng = ctx.rng
    q = ctx.tier == "quick"
    for i in range(120 if q else 1500):
        yield "flat", dict(kind="flat", seed=rng.randrange(1 << 30), recfm=i % 3, lrecl=rng.choice([1, 80, 32768, 100000]))
    for i in range(120 if q else 1500):
        yield "nested", dict(kind="nested", seed=rng.randrange(1 << 30), recfm=i % 3, lrecl=rng.choice([1, 80, 32768]))
    targets = [16384, 16384, 20000, 32698, 32698, 24000]
    for i in range(12 if q else 72):
        yield "boundary", dict(kind="boundary", seed=rng.randrange(1 << 30), recfm=(0 if i % 4 != 3 else 1 + (i // 4) % 2),
                               lrecl=32768, target=targets[i % len(targets)])
    # the same variable-length records in a fixed-length (RECFM F/FB) file: each record padded to the file's LRECL
    for i in range(40 if q else 500):
        yield "fixed", dict(kind="flat" if i % 2 == 0 else "nested", seed=rng.randrange(1 << 30), recfm=3, lrecl=None)
    # a BINARY controlling item in records of low-values: a record whose count is zero is all X'00', also at the end of the file
    for i in range(30 if q else 300):
        yield "binary-counter", dict(kind="bincounter", seed=rng.randrange(1 << 30), recfm=[0, 0, 1, 2][i % 4], lrecl=rng.choice([1, 80, 32768]))
    # lrecl=None (what the docstring of COBOL_EBCDIC_File asks for with an OCCURS DEPENDING ON layout) and lrecl=0, through every
    # reader; RECFM F / FB (flat family only: every member holds an ODO table, so no length can be computed) must refuse with TypeError
    for i in range(16 if q else 96):
        recfm = i % 4
        yield "lrecl-none", dict(kind="flat" if (recfm == 3 or i % 8 < 4) else "nested", seed=rng.randrange(1 << 30), recfm=recfm,
                                 lrecl=None if (i // 4) % 2 == 0 else 0, no_lrecl=True)
    yield from counter_inputs(ctx)


def counter_inputs(ctx):
    rng = ctx.rng
    q = ctx.tier == "quick"
    for name, kind, n in (("packed-counter", 2, 24 if q else 400), ("comp-counter", 3, 24 if q else 400),
                          ("zoned-signed-counter", 1, 12 if q else 200)):
        for i in range(n):
            yield name, dict(kind="ctr", ck=kind, mode="clean", seed=rng.randrange(1 << 30), recfm=i % 4,
                             lrecl=None if i % 4 == 3 else rng.choice([1, 80, 32768]))
    for i in range(24 if q else 400):
        yield "above-maximum", dict(kind="ctr", ck=[2, 3, 1, 0][i % 4], mode="above", seed=rng.randrange(1 << 30), recfm=(i // 4) % 4,
                                    lrecl=None if (i // 4) % 4 == 3 else rng.choice([1, 80, 32768]))
    yield "negative-counter", dict(kind="ctr", ck=1, mode="neg", neg=True, witness=True, seed=0, recfm=1, lrecl=80)
    for i in range(36 if q else 600):
        # every sixth file holds no negative counter at all: the same path without any exemption
        yield "negative-counter", dict(kind="ctr", ck=[1, 2, 3][i % 3], mode="neg", neg=(i % 6 != 5), seed=rng.randrange(1 << 30), recfm=1,
                                       lrecl=rng.choice([1, 80, 32768]))


def pick_nrec(rng):
    """2-30 records, mostly short files (case lines stay small for the vm_compute cross-check)"""
    r = rng.random()
    return rng.randint(2, 5) if r < 0.6 else rng.randint(6, 12) if r < 0.9 else rng.randint(13, 30)


def build_case(c):
    if c["kind"] == "ctr":
        return build_counter_case(c)[:6]
    rng = random.Random(c["seed"])
    if c["kind"] == "bincounter":
        tree = gen_bincounter(rng)
        nrec = rng.randint(2, 8)
    elif c["kind"] == "flat":
        tree = gen_flat(rng)
        nrec = pick_nrec(rng)
    elif c["kind"] == "nested":
        tree = gen_nested(rng)
        nrec = pick_nrec(rng)
    else:
        tree = gen_boundary(rng, c["target"])
        nrec = rng.randint(3, 6)
    envs, recs, per_row, counters = [], [], [], None
    pos = 0
    for j in range(nrec):
        env = choose_counts(tree, rng)
        if c["kind"] == "boundary":
            # counts around the middle so that lengths straddle the target; 32698 + 70 = 32768 is the largest legal record
            env = {2: rng.choice([0, 9, 10, 11, 20, 20, 19, 1])}
        total, ctrs, paths = layout(tree, env)
        if c["kind"] == "bincounter":
            # low-values everywhere, the counter as a big-endian binary number; zero counts at the END of the file
            if j >= nrec - 1 - (c["seed"] % 3):
                env = {k: 0 for k in env}
                total, ctrs, paths = layout(tree, env)
            r = bytearray(total)
            for cid, _p, st, sz in ctrs:
                r[st:st + sz] = env[cid].to_bytes(sz, "big")
        else:
            r = bytearray(code(pos + i) for i in range(total))
            for cid, _p, st, sz in ctrs:
                r[st:st + sz] = bytes(0xF0 + int(d) for d in f"{env[cid]:0{sz}d}")
        envs.append(env)
        recs.append(bytes(r))
        per_row.append(row_paths(tree, env, paths, rng))
        counters = ctrs
        pos += total
    blocking = []
    if c["recfm"] == 2:
        j = 0
        while j < nrec:
            k, size = 0, 4
            want = rng.randint(1, 4)
            while j + k < nrec and k < want and size + len(recs[j + k]) + 4 <= 65535:
                size += len(recs[j + k]) + 4
                k += 1
            k = max(k, 1)
            blocking.append(k)
            j += k
    return tree, envs, recs, per_row, counters, blocking


def image_of(recfm, recs, blocking, lrecl=None):
    if recfm == 3:
        return b"".join(r + bytes([0x40]) * (lrecl - len(r)) for r in recs)
    if recfm == 0:
        return b"".join(recs)
    if recfm == 1:
        return b"".join(struct.pack(">H2x", len(r) + 4) + r for r in recs)
    out, j = [], 0
    for k in blocking:
        body = b"".join(struct.pack(">H2x", len(r) + 4) + r for r in recs[j:j + k])
        out.append(struct.pack(">H2x", len(body) + 4) + body)
        j += k
    return b"".join(out)


def _code(ex):
    if isinstance(ex, (KeyboardInterrupt, SystemExit, MemoryError)):
        raise ex
    return [1, exn_code(ex)]


def obs_row(row, names, paths, counters, shared=None):
    nav0 = row.nav
    inst = row.instance
    end = nav0.location.end
    if shared is not None:
        # the same record located through ONE LocationMaker that serves every record of the file (the public sequence
        # maker = LocationMaker(unpacker, schema); maker.ndnav(rec1); maker.ndnav(rec2) ...): when it places the record's end
        # elsewhere than the row's own navigator does, that end is the one reported
        try:
            end2 = shared.ndnav(inst).location.end
        except BaseException as ex:
            if isinstance(ex, (KeyboardInterrupt, SystemExit, MemoryError)):
                raise
            end2 = -1
        if end2 != end:
            end = end2
    probes = []
    for p in paths:
        try:
            nav = nav0
            for kind, x in p:
                nav = nav.index(x) if kind == 1 else nav.name(names[x])
            raw = bytes(nav.raw())
            loc = nav.location
            probes.append([p, [0, loc.start, loc.end, list(raw[:8]), getattr(loc, "item_count", -1)]])
        except BaseException as ex:
            probes.append([p, _code(ex)])
    cvals = []
    for cid, path, _st, _sz in counters:
        try:
            if len(path) == 1:
                v = row.name(names[cid]).value()
            else:
                nav = nav0
                for _kind, x in path:
                    nav = nav.name(names[x])
                v = nav.value()
            cvals.append([cid, [0, int(v)]])
        except BaseException as ex:
            cvals.append([cid, _code(ex)])
    return [len(inst), end, enc(inst[:end]), probes, cvals]


def observe(ctx, c):
    case = _observe(ctx, c)
    if c["kind"] == "ctr":
        # eleventh field: (kind of counter, digit positions of the COMP counters, 1 = signed count vectors)
        case = case + [[c["ck"], build_counter_case(c)[6], 1 if c["mode"] == "neg" else 0]]
    return case


def _observe(ctx, c):
    from stingray.cobol_parser import schema_iter
    from stingray.schema_instance import SchemaMaker, EBCDIC
    from stingray.workbook import COBOL_EBCDIC_File
    from stingray import estruct
    tree, envs, recs, per_row, counters, blocking = build_case(c)
    names = assign_names(tree)
    rev = {v: k for k, v in names.items()}
    lrecl = c["lrecl"]
    pad = lrecl
    if c["recfm"] == 3:
        # LRECL of the fixed-length file: the longest record of this file plus 0..3 bytes (derived from the seed)
        pad = max(max(len(r) for r in recs), 1) + c["seed"] % 4
        if not c.get("no_lrecl"):
            lrecl = pad              # ... and that is what the reader is told, except in the lrecl-none stream
    image = image_of(c["recfm"], recs, blocking, pad)
    cls = [estruct.RECFM_N, estruct.RECFM_V, estruct.RECFM_VB, estruct.RECFM_F if c["seed"] % 2 else estruct.RECFM_FB][c["recfm"]]
    head = [tree_sx(tree), c["recfm"], [0] if lrecl is None else [1, lrecl],
            [[[k, v] for k, v in sorted(e.items())] for e in envs],
            [[cid, p] for cid, p, _, _ in counters], [enc(r) for r in recs], blocking]
    try:
        js = list(schema_iter(io.StringIO(print_copybook(tree))))[0]
        schema_obs = [0, schema_sx(js, rev, EBCDIC())]
        schema = SchemaMaker.from_json(js)
    except BaseException as ex:
        return head + [enc(image), _code(ex), _code(ex)]
    with tempfile.TemporaryDirectory(prefix="c06_") as d:
        path = os.path.join(d, "records.bin")
        with open(path, "wb") as f:
            f.write(image)
        with open(path, "rb") as f:
            on_disk = f.read()
        wb = COBOL_EBCDIC_File(path, recfm_class=cls, lrecl=lrecl)
        try:
            sheet = wb.sheet("")
            try:
                sheet.set_schema(schema)
            except BaseException as ex:
                return head + [enc(on_disk), schema_obs, _code(ex)]
            rows, ending = [], [0]
            cap = len(recs) + 4
            from stingray.schema_instance import LocationMaker
            shared_maker = LocationMaker(wb.unpacker, schema)
            try:
                for row in sheet.rows():
                    j = len(rows)
                    rows.append(obs_row(row, names, per_row[j] if j < len(per_row) else [[]], counters, shared_maker))
                    if len(rows) >= cap:
                        ending = [2]
                        break
            except BaseException as ex:
                ending = _code(ex)
            return head + [enc(on_disk), schema_obs, [0, rows, ending]]
        finally:
            wb.close()


def describe(c):
    tree, envs, recs, per_row, counters, blocking = build_case(c)
    return dict(c, copybook=print_copybook(tree), counts=envs, record_lengths=[len(r) for r in recs], blocking=blocking)
