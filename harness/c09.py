"""C09 - header-row / external schemas: by-name access, any column order, no row skipped.

The runner writes a table as a CSV file (csv module) or an XLSX file (openpyxl) into a temporary
directory, reads it back through the facade (CSV_Workbook / XLSX_Workbook, Sheet, HeadingRowSchemaLoader,
ExternalSchemaLoader, Row) and serialises what came out.  It decides nothing: the judge extracted from
coq/Judge/JC09.v computes the model, the expectation and the verdict from the written table.
"""
import csv
import itertools
import logging
import os
import tempfile

from lib import S, observe_call

GEN = ["NameCleanerParams", "HeaderRowParams"]
RULE = ("streams: shapes = every CSV table with header width 0..3, 0..2 data rows of 0..4 cells (exhaustive over shapes, "
        "distinct cell labels); header = random tables 1-6 columns x 0-8 rows, ragged rows shorter and longer than the header, "
        "empty and header-only sheets, headings sampled without replacement from a pool with blanks, punctuation, leading digits, "
        "line feeds in quoted cells, non-ASCII, the empty string (CSV) and the words None/name/position; dup = repeated headings "
        "(outside the property's domain, model fidelity only); perm = the same table with a random column permutation "
        "(rows at least as long as the header); ext = metadata sheets of 0-6 (name, description, type) rows of 1-4 cells "
        "+ ragged data; bind = sequences of 1-4 set_schema / set_schema_loader calls (heading-row loader, do-nothing loader, schemas that are "
        "hand-written without positions, hand-written with positions 0.., loaded externally, or hand-written with an explicit position per name "
        "= a re-ordered subset of the file's columns so that position 0 is not listed first; each over its own distinct names) on ONE Sheet "
        "object before rows(), every listed pattern (loader then schema, schema then loader, loader-schema-loader, schema twice, ...) on a fixed table "
        "plus random sequences on random tables; duplicate-headings = heading rows of 2-5 columns in which one or two names are repeated "
        "(every heading row of 2-4 columns over three names that repeats a name, with one data row of every length 0..width; random ones "
        "from the heading pool, 1-6 rows of full and short length, one probed name that heads no column) - judged: known finding "
        "K-duplicate-heading-last-wins; ext also incl. a few sheets with a blank line or a repeated name (outside the domain: not judged). CSV for all, XLSX for a sample (quick) / for as many again (thorough). "
        "Non-trivial = at least one data row delivered (branch not in 0/20/40/80); distinct = distinct case lines.")
TRIVIAL_BRANCHES = [0, 20, 40, 80]
ASSUMPTIONS = [
    "csv.writer then csv.reader (file opened in text mode, universal newlines) returns the written rows for cells without CR; "
    "a row of no cells is written as an empty line and read back as []",
    "openpyxl: a sheet written cell by cell with non-empty text cells and no empty rows reads back (iter_rows) as the written rows "
    "padded with None to the widest row; an untouched sheet yields no rows (Spec/Table.v rect_view; checked by the run itself, "
    "since the judge derives the physical sheet from the written table)",
    "header cells are text (str(name) of a non-text header cell is modelled as the cell's str() but the runner writes text headings only)",
    "SchemaMaker.from_json keeps the keys, order and position attributes of a flat properties dict (tied by this run)",
    "name_cleaner = C17 model; its theorem C17_total_legal is used to show header() cannot raise",
]
TRUSTED = ["the boolean tests is_perm / reordered of Spec/Table.v used by the judge on the permuted table are proved to imply the hypotheses of "
           "C09_permutation (Proofs/HeaderRowP.v is_perm_sound, reordered_sound), given that the judge's cell equality test is sound (not proved)",
           "Python dict semantics for a comprehension with a repeated key (first place, last value) as modelled by dict_set/dict_of"]

HEADINGS = ["Customer Name", "ZIP\nCode", "Amount ($)", "1st", "-x", ".y", "a__b", "a b", "a_b", "é", "名前", "Total %", "x", "y1",
            "X", "None", "name", "position", "description", "a,b", "q\"uote", " lead", "trail ", "tab\there", "#", "2", "x123", "y4",
            "\U0001f600", "long heading with many words and a full stop."]
CSV_ONLY_HEADINGS = ["", " ", "\n"]
CELLS = ["1", "2.5", "abc", "x y", "é", "a,b", "line\nbreak", "\"q\"", "None", "0", "-7", "10.0", "名", "#N/A", "TRUE"]
CSV_ONLY_CELLS = ["", " "]
TYPES = ["number", "string", "integer", "decimal", "date"]


def _headings(rng, fmt, n):
    pool = HEADINGS + (CSV_ONLY_HEADINGS if fmt == "csv" else [])
    return rng.sample(pool, n)


def _cell(rng, fmt):
    pool = CELLS + (CSV_ONLY_CELLS if fmt == "csv" else [])
    return rng.choice(pool)


def _ragged_rows(rng, fmt, n, nrows, min_len=0, max_len=None):
    """rows whose lengths scatter around n"""
    rows = []
    hi = n + 2 if max_len is None else max_len
    lo = min_len if fmt == "csv" else max(min_len, 1)
    for _ in range(nrows):
        kind = rng.random()
        if kind < 0.45:
            k = max(lo, min(n, hi))
        else:
            k = rng.randint(lo, max(lo, hi))
        rows.append([_cell(rng, fmt) for _ in range(k)])
    return rows


def _table(rng, fmt):
    n = rng.randint(1, 6)
    return [_headings(rng, fmt, n)] + _ragged_rows(rng, fmt, n, rng.randint(0, 8))


def _dup_table(rng, fmt):
    """a heading row of 2-5 columns in which one or two names are repeated; 1-6 data rows, at least one of full length and one
    shorter (never longer than the heading row: XLSX would pad the heading row with None cells)"""
    n = rng.randint(2, 5)
    extra = 1 if n < 4 or rng.random() < 0.6 else 2          # columns whose name is already there
    names = _headings(rng, fmt, n - extra)
    if extra == 2 and len(names) >= 2 and rng.random() < 0.5:
        head = names + rng.sample(names, 2)                    # two names twice each
    else:
        head = names + [rng.choice(names)] * extra             # one name twice (or three times)
    rng.shuffle(head)
    lo = 0 if fmt == "csv" else 1
    lens = [n, rng.randint(lo, n - 1)] + [rng.randint(lo, n) for _ in range(rng.randint(0, 4))]
    rng.shuffle(lens)
    return [head] + [[_cell(rng, fmt) for _ in range(k)] for k in lens]


def _ops(rng, fmt, pattern, kind, ncols=3):
    """L = set_schema_loader(HeadingRowSchemaLoader()), N = set_schema_loader(SchemaLoader()),
    S = set_schema(schema over fresh distinct names; kind 0 hand-written, 1 with positions 0.., 2 loaded externally,
    3 hand-written with an explicit position per name: a re-ordered subset of the file's columns, now and then one beyond)"""
    ops = []
    for ch in pattern:
        if ch == "S":
            k = rng.randint(0, 3) if kind is None else kind
            names = _headings(rng, fmt, rng.randint(1, 5))
            if k == 3:
                ops.append(["schema", 3, names, rng.sample(range(max(ncols, len(names)) + 1), len(names))])
            else:
                ops.append(["schema", k, names])
        else:
            ops.append(["loader", 1 if ch == "L" else 0])
    return ops


def inputs(ctx):
    rng = ctx.rng
    quick = ctx.tier == "quick"
    # --- exhaustive over shapes (CSV)
    ctx.exhaustive.append("csv_shapes_width<=3_rows<=2_rowlen<=4")
    yield "shapes", {"stream": "header", "fmt": "csv", "table": []}
    for n in range(4):
        head = [f"h{j}" for j in range(n)]
        for nrows in range(3):
            for lens in itertools.product(range(5), repeat=nrows):
                yield "shapes", {"stream": "header", "fmt": "csv",
                                 "table": [head] + [[f"r{i}c{j}" for j in range(k)] for i, k in enumerate(lens)]}
    for fmt in ("csv", "xlsx"):
        yield "shapes", {"stream": "header", "fmt": fmt, "table": []}
        yield "shapes", {"stream": "header", "fmt": fmt, "table": [["only", "a header"]]}
        yield "shapes", {"stream": "perm", "fmt": fmt, "table": [["a", "b"]], "perm": [1, 0]}
        yield "shapes", {"stream": "ext", "fmt": fmt, "meta": [], "data": [["1", "2"]]}
        # explicit positions in another order than the file: position 0 declared second / last; a subset
        for names, pos in ((["b", "a"], [1, 0]), (["c", "b", "a"], [2, 1, 0]), (["c", "a"], [2, 0]), (["b"], [1]), (["a", "z"], [0, 5])):
            yield "shapes", {"stream": "bind", "fmt": fmt, "table": [["x", "y", "z"], ["1", "2", "3"], ["4"]],
                             "ops": [["schema", 3, names, pos]]}
    # --- a repeated heading name (known finding K-duplicate-heading-last-wins): every heading row of 2-4 columns over three
    #     names in which a name is repeated, with one data row of every length 0..width (distinct cell labels)
    ctx.exhaustive.append("duplicate_headings_width_2..4_over_3_names_rowlen_0..width")
    for n in (2, 3, 4):
        for head in itertools.product("abc", repeat=n):
            if len(set(head)) < n:
                yield "duplicate-headings", {"stream": "dupheads", "fmt": "csv",
                                             "table": [list(head)] + [[f"r{k}c{j}" for j in range(k)] for k in range(n, -1, -1)]}
    for fmt in ("csv", "xlsx"):
        yield "duplicate-headings", {"stream": "dupheads", "fmt": fmt, "table": [["id", "name", "id"], ["1", "Ann", "7"], ["2", "Bob"]]}
    # --- binding calls on one Sheet object: every pattern below on a fixed table, both formats
    patterns = ["S", "L", "LS", "SL", "LSL", "SS", "NS", "SN", "LNS", "LSN", "SLS", "LLS", "SLN", "LSS", "NLS", "SSL"]
    ctx.exhaustive.append("binding_patterns_" + "_".join(patterns))
    for fmt in ("csv", "xlsx"):
        for pat in patterns:
            for kind in (0, 1, 2, 3):
                yield "bind", {"stream": "bind", "fmt": fmt,
                               "table": [["part", "Unit Cost", "qty"], ["P-100", "1.50", "3"], ["P-200", "2.75"], ["P-300", "4.00", "5", "x"]][:3 if fmt == "xlsx" else 4],
                               "ops": _ops(rng, fmt, pat, kind)}
    # --- random tables
    budget = {"csv": (400, 60, 300, 250, 300), "xlsx": (60, 10, 40, 40, 40)} if quick else \
             {"csv": (6000, 600, 5000, 4000, 5000), "xlsx": (5000, 400, 3000, 2500, 2500)}
    n_dupheads = {"csv": 150, "xlsx": 30} if quick else {"csv": 2000, "xlsx": 400}
    for fmt in ("csv", "xlsx"):
        n_header, n_dup, n_perm, n_ext, n_bind = budget[fmt]
        for _ in range(n_dupheads[fmt]):
            yield "duplicate-headings", {"stream": "dupheads", "fmt": fmt, "table": _dup_table(rng, fmt)}
        for _ in range(n_header):
            yield "header", {"stream": "header", "fmt": fmt, "table": _table(rng, fmt)}
        for _ in range(n_dup):
            t = _table(rng, fmt)
            h = t[0]
            h.append(rng.choice(h))
            rng.shuffle(h)
            yield "dup", {"stream": "header", "fmt": fmt, "table": t}
        for _ in range(n_perm):
            n = rng.randint(1, 6)
            extra = n + 2 if fmt == "csv" else n       # XLSX pads the header when a row is wider: keep it rectangular
            t = [_headings(rng, fmt, n)] + _ragged_rows(rng, fmt, n, rng.randint(0, 8), min_len=n, max_len=extra)
            pi = list(range(n))
            rng.shuffle(pi)
            yield "perm", {"stream": "perm", "fmt": fmt, "table": t, "perm": pi}
        for _ in range(n_ext):
            n = rng.randint(0, 6)
            kind = rng.random()
            names = _headings(rng, fmt, n)
            if kind < 0.08 and n >= 1:
                names.append(rng.choice(names))                     # repeated name (outside the domain)
            meta = []
            for nm in names:
                k = rng.randint(1, 4)
                meta.append(([nm, rng.choice(CELLS[2:6]), rng.choice(TYPES), "extra"])[:k])
            if 0.08 <= kind < 0.14 and fmt == "csv":
                meta.insert(rng.randint(0, len(meta)), [])            # a blank line (outside the domain)
            data = _ragged_rows(rng, fmt, max(n, 1), rng.randint(0, 6))
            yield "ext", {"stream": "ext", "fmt": fmt, "meta": meta, "data": data}

        for _ in range(n_bind):
            while True:
                pat = "".join(rng.choice("LNSS") for _ in range(rng.randint(1, 4)))
                if "S" in pat or pat.endswith("L"):          # some schema is bound when rows() runs
                    break
            t = _table(rng, fmt) if rng.random() < 0.9 else []
            yield "bind", {"stream": "bind", "fmt": fmt, "table": t, "ops": _ops(rng, fmt, pat, None, len(t[0]) if t else 3)}


# ---------------------------------------------------------------- writing


def _write(fmt, folder, stem, table):
    if fmt == "csv":
        path = os.path.join(folder, stem + ".csv")
        with open(path, "w", newline="") as f:
            w = csv.writer(f)
            for r in table:
                w.writerow(r)
        return path
    from openpyxl import Workbook
    path = os.path.join(folder, stem + ".xlsx")
    wb = Workbook()
    ws = wb.active
    ws.title = "Sheet1"
    for i, r in enumerate(table):
        for j, c in enumerate(r):
            ws.cell(row=i + 1, column=j + 1, value=c)
    wb.save(path)
    return path


def _open(fmt, path):
    if fmt == "csv":
        from stingray.workbook import CSV_Workbook
        return CSV_Workbook(path), ""
    from stingray.implementations import XLSX_Workbook
    return XLSX_Workbook(path), "Sheet1"


# ---------------------------------------------------------------- serialising


def _val(v):
    if isinstance(v, str):
        return [0, S(v)]
    if isinstance(v, list) and len(v) == 1 and v[0] is None:
        return [2]
    if v is None:
        return [1, 0, S("None")]
    tag = 1 if isinstance(v, bool) else 2 if isinstance(v, int) else 3 if isinstance(v, float) else 9
    return [1, tag, S(str(v))]


def _read(sheet, probes):
    """list(sheet.rows()); for every row its cells, values() and name(k).value() for the probe keys"""
    got = observe_call(lambda: list(sheet.rows()), lambda rows: rows)
    if got[0] != 0:
        return got
    out = []
    for row in got[1]:
        inst = [_val(c) for c in row.instance]
        vals = observe_call(row.values, lambda vs: [_val(v) for v in vs])
        names = [observe_call(lambda k=k: row.name(k).value(), _val) for k in probes]
        out.append([inst, vals, names])
    return [0, out]


def _read_header(fmt, folder, stem, table):
    from stingray.workbook import HeadingRowSchemaLoader
    path = _write(fmt, folder, stem, table)
    wb, name = _open(fmt, path)
    try:
        sheet = wb.sheet(name).set_schema_loader(HeadingRowSchemaLoader())
        probes = list(table[0]) if table else []
        first = _read(sheet, probes)
    finally:
        wb.close()
    # the two later readings re-open the file twice: every case of the quick tier, every sixth of the (17 times larger) thorough tier
    _LATER[0] += 1
    if _LATER[1] != "quick" and _LATER[0] % 6:
        return [S(k) for k in probes], first
    return [S(k) for k in probes], _later_readings(fmt, path, probes, first)


_LATER = [0, "quick"]


def _later_readings(fmt, path, probes, first):
    """The rows of the same file collected two other ways and asked by name only AFTERWARDS: (A) through one chained expression, the
    Sheet being a temporary that is gone before any cell is looked at; (B) from a held Sheet to which ANOTHER schema (the same
    names, the columns in reverse order) is bound once the rows are collected.  A row answers by name from the schema it was
    delivered with.  Where one of these readings differs from the first, it is the one reported."""
    import gc
    from stingray.workbook import HeadingRowSchemaLoader
    from stingray.schema_instance import SchemaMaker
    if first[0] != 0 or not probes or len(set(probes)) != len(probes):
        return first

    def by_name(rows):
        return [[observe_call(lambda k=k, row=row: row[k].value(), _val) for k in probes] for row in rows]

    def reading_a():
        wb, name = _open(fmt, path)
        try:
            rows = list(wb.sheet(name).set_schema_loader(HeadingRowSchemaLoader()).rows())
            gc.collect()
            return by_name(rows)
        finally:
            wb.close()

    def reading_b():
        wb, name = _open(fmt, path)
        try:
            sheet = wb.sheet(name).set_schema_loader(HeadingRowSchemaLoader())
            rows = list(sheet.rows())
            n = len(probes)
            sheet.set_schema(SchemaMaker().from_json({"type": "object", "properties": {
                k: {"title": k, "type": "string", "position": n - 1 - i} for i, k in enumerate(probes)}}))
            return by_name(rows)
        finally:
            wb.close()

    expected = [r[2] for r in first[1]]
    for reading in (reading_a, reading_b):
        got = observe_call(reading, lambda v: v)
        if got[0] != 0:
            return got
        if got[1] != expected:
            return [0, [[r[0], r[1], names] for r, names in zip(first[1], got[1])] if len(got[1]) == len(expected) else
                    [[[], [1, 0], names] for names in got[1]]]
    return first


def _read_with_schema(fmt, path, make_schema, probes):
    made = observe_call(make_schema, lambda s: s)
    if made[0] != 0:
        return made
    schema = made[1]
    wb, name = _open(fmt, path)
    try:
        sheet = wb.sheet(name).set_schema(schema)
        return _read(sheet, probes)
    finally:
        wb.close()


def _external_schema(fmt, folder, stem, names):
    """load a schema from a (name, description, type) sheet by the documented protocol"""
    from stingray.workbook import ExternalSchemaLoader
    from stingray.schema_instance import SchemaMaker
    mpath = _write(fmt, folder, stem, [[n, "d", "string"] for n in names])
    wb, name = _open(fmt, mpath)
    try:
        msheet = wb.sheet(name)
        msheet.set_schema(SchemaMaker().from_json(ExternalSchemaLoader.META_SCHEMA))
        return SchemaMaker().from_json(ExternalSchemaLoader(msheet).load())
    finally:
        wb.close()


def _observe_bind(fmt, f, folder, inp, W):
    """the binding calls of inp['ops'] on ONE Sheet object, then rows()"""
    from stingray.workbook import HeadingRowSchemaLoader, SchemaLoader
    from stingray.schema_instance import SchemaMaker
    table, ops = inp["table"], inp["ops"]
    probes = list(table[0]) if table else []
    wire_ops = []
    for op in ops:
        if op[0] == "schema":
            probes += op[2]
            wire_ops.append([1, op[1], [S(n) for n in op[2]]] + ([list(op[3])] if op[1] == 3 else []))
        else:
            wire_ops.append([0, op[1]])
    path = _write(fmt, folder, "t", table)
    wb, name = _open(fmt, path)
    try:
        sheet = wb.sheet(name)

        def bind_and_read():
            for i, op in enumerate(ops):
                if op[0] == "loader":
                    sheet.set_schema_loader(HeadingRowSchemaLoader() if op[1] == 1 else SchemaLoader())
                elif op[1] == 2:
                    sheet.set_schema(_external_schema(fmt, folder, f"meta{i}", op[2]))
                else:
                    props = {n: ({"type": "string", "position": op[3][j]} if op[1] == 3
                                 else {"type": "string", "position": j} if op[1] == 1 else {"type": "string"})
                             for j, n in enumerate(op[2])}
                    sheet.set_schema(SchemaMaker().from_json({"type": "object", "properties": props}))
            return _read(sheet, probes)

        got = observe_call(bind_and_read, lambda r: r)
        obs = got[1] if got[0] == 0 else got
    finally:
        wb.close()
    return [3, f, W(table), wire_ops, [S(k) for k in probes], obs]


def observe(ctx, inp):
    _LATER[1] = ctx.tier
    logging.disable(logging.CRITICAL)           # WBNav.name logs every missing cell
    fmt = inp["fmt"]
    f = 0 if fmt == "csv" else 1
    W = lambda t: [[[0, S(c)] for c in r] for r in t]
    with tempfile.TemporaryDirectory(prefix="c09_") as folder:
        if inp["stream"] == "header":
            probes, obs = _read_header(fmt, folder, "t", inp["table"])
            return [0, f, W(inp["table"]), probes, obs]
        if inp["stream"] == "dupheads":
            from stingray.workbook import HeadingRowSchemaLoader
            table = inp["table"]
            probes = list(table[0]) + ["no such heading"]
            wb, name = _open(fmt, _write(fmt, folder, "t", table))
            try:
                obs = _read(wb.sheet(name).set_schema_loader(HeadingRowSchemaLoader()), probes)
            finally:
                wb.close()
            return [4, f, W(table), [S(k) for k in probes], obs]
        if inp["stream"] == "perm":
            t, pi = inp["table"], inp["perm"]
            n = len(pi)
            t2 = [[r[j] for j in pi] + r[n:] for r in t]
            probes, obs = _read_header(fmt, folder, "t", t)
            probes2, obs2 = _read_header(fmt, folder, "t2", t2)
            return [1, f, W(t), pi, W(t2), probes, obs, probes2, obs2]
        if inp["stream"] == "bind":
            return _observe_bind(fmt, f, folder, inp, W)
        # external schema, by the documented protocol
        from stingray.workbook import ExternalSchemaLoader
        from stingray.schema_instance import SchemaMaker
        meta, data = inp["meta"], inp["data"]
        names = [r[0] for r in meta if r]
        mpath = _write(fmt, folder, "meta", meta)
        dpath = _write(fmt, folder, "data", data)
        wb, name = _open(fmt, mpath)
        try:
            msheet = wb.sheet(name)
            msheet.set_schema(SchemaMaker().from_json(ExternalSchemaLoader.META_SCHEMA))
            got = observe_call(lambda: ExternalSchemaLoader(msheet).load(), lambda j: j)
            if got[0] == 0:
                js = got[1]
                load = [0, [[S(k if isinstance(k, str) else str(k)),
                             v["position"] if isinstance(v.get("position"), int) else -1]
                            for k, v in js["properties"].items()]]
            else:
                js, load = None, got
        finally:
            wb.close()
        if js is None:
            ext = hand = [1, 0]
        else:
            ext = _read_with_schema(fmt, dpath, lambda: SchemaMaker().from_json(js), names)
            hand = _read_with_schema(fmt, dpath, lambda: SchemaMaker().from_json(
                {"type": "object", "properties": {n: {"type": "string"} for n in names}}), names)
        return [2, f, W(meta), W(data), [S(k) for k in names], load, ext, hand]


def describe(inp):
    if inp["stream"] == "ext":
        return f"ext {inp['fmt']} meta={inp['meta']!r} data={inp['data']!r}"
    if inp["stream"] == "bind":
        calls = " then ".join(("set_schema_loader(" + ("HeadingRowSchemaLoader()" if o[1] else "SchemaLoader()") + ")") if o[0] == "loader"
                              else f"set_schema({['hand-written', 'hand-written+positions', 'external', 'hand-written positions=' + str(o[3] if len(o) > 3 else '')][o[1]]} {o[2]!r})" for o in inp["ops"])
        return f"bind {inp['fmt']} one Sheet: {calls} then rows(); table={inp['table']!r}"
    return f"{inp['stream']} {inp['fmt']} table={inp['table']!r}" + (f" perm={inp['perm']}" if "perm" in inp else "")
