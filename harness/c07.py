"""C07 - copybook to schema: every entry appears once, in place, and none is lost
(cobol_parser.reference_format / dde_sentences / clause_dict / DDE / structure / build_json_schema / schema_iter)."""
import io
from lib import S, observe_call
import copybook_gen as G

GEN = ["StructureParams", "RefFormatParams"]
ALSO = ["C07b"]          # second engine: the whole parser on raw text (harness/c07b.py, coq/Model/Pipeline.v)
RULE = ("random well-formed forests (1-3 records, depth <= 5, non-contiguous and ragged level numbers, groups, elementary items, "
        "OCCURS fixed/DEPENDING ON on both, REDEFINES of earlier siblings, FILLER/unnamed, 88 VALUE, 66 RENAMES, 77) printed as "
        "reference-format text with random spelling (sequence numbers, comment and blank lines, PIC/PICTURE IS, TIMES, USAGE IS, "
        "line breaks inside entries); flat streams of arbitrary level sequences (00-99, no well-nesting), with unique and with "
        "colliding names, random REDEFINES targets; forests in which data names are repeated under different parents (cousin groups, "
        "elementary items) with REDEFINES inside the later groups, and forests reusing ancestor/sibling names; "
        "one stream per known defect trigger (for finding 8, first-entry-special: a first entry of level 77 with/without picture, 88 named/FILLER, "
        "66 RENAMES with/without THRU, followed by nothing / an 01 record / 05-level items / a record and further special entries / items of a "
        "larger level number / a second special entry and items, each printed plainly and with random spelling; the same first entries in front of "
        "generated well-formed records; flat random level sequences starting with 66/77/88; for finding 5: clean forests in which one to three elementary "
        "items or 88 levels carry a VALUE literal with a period followed by a blank; for finding 6: clean forests with contiguous or "
        "ragged levels in which all or a random half of the level numbers below 10 are printed with one digit; for finding 7: clean "
        "forests with REDEFINES in which the target of a REDEFINES clause, or the declaration it names, is respelled in lower or mixed case). "
        "Non-trivial = more than one entry; distinct = distinct case lines.")
TRIVIAL_BRANCHES = [0, 10]
ASSUMPTIONS = [
    "Layer A (reference_format, dde_sentences, the clause regular expression) is not modelled here: every case checks that it "
    "returned the entries the printer wrote (level, name, filler, redefines, picture/occurs presence, compact text)",
    "calcsize of the pictures/usages in copybook_gen.PICS does not raise (the model has ValueError only for an elementary item without picture)",
    "the schema maker's names dict and its shared mutable dicts are modelled by a heap of objects (Model/Structure.v build), so the "
    "emitted schemas are compared with the model on every case, repeated names included (branch + 10 = some unique name repeats in a tree)",
    "levels are the two characters matched by the sentence pattern; theorems about level NUMBERS assume ASCII digits",
]
TRUSTED = ["harness/copybook_gen.py printer (its output is checked against Layer A's reading on every case)"]


def opt(x):
    return [] if x is None else [S(x)]


def intended_entry(n, toks, one_digit=False):
    return [f"{n['level']:02d}", n["name"], "FILLER" if (n["name"] is None and n["filler"]) else None, n["redefines"],
            int(n["pic"] is not None), int(n["occurs"] is not None or n["odo"] is not None), " ".join(toks),
            int(bool(n["indexed_by"])), n["value"], int(bool(one_digit and n["level"] < 10))]


def make_case(rng, forest, spelled=True, level_text=None, one_digit_ids=(), **popts):
    toks = {}
    for n in G.entries(forest):
        toks[id(n)] = G.entry_tokens(n, rng if spelled else None)
    if one_digit_ids:
        popts = dict(popts, one_digit=lambda n: id(n) in one_digit_ids)
    text = G.print_copybook(forest, rng=rng if spelled else None, tokens=lambda n: toks[id(n)], **popts)
    ents = [intended_entry(n, toks[id(n)], id(n) in one_digit_ids) for n in G.entries(forest)]
    return {"text": text, "entries": ents}


def spelling(rng):
    return dict(seq_numbers=rng.random() < 0.3, comments=rng.random() < 0.3, blank_lines=rng.random() < 0.3,
                indent=rng.choice([0, 2, 4]), one_line=rng.random() < 0.3, margin_a=rng.choice([7, 7, 8, 11]))


def flat_forest(rng, n, levels, names, p_redef=0.2, p_pic=0.6, p_occ=0.2, p_filler=0.15, first=None):
    out = []
    used = []
    for i in range(n):
        lv = rng.choice(levels) if not (i == 0 and first) else rng.choice(first)
        nd = G.node(lv)
        if rng.random() < p_filler:
            nd["name"], nd["filler"] = None, rng.random() < 0.5
        else:
            nd["name"] = names()
            used.append(nd["name"])
        if rng.random() < p_pic:
            nd["pic"], nd["usage"] = rng.choice(G.PICS)
        if rng.random() < p_occ:
            nd["occurs"] = rng.randint(1, 9)
        if used and rng.random() < p_redef:
            nd["redefines"] = rng.choice(used + ["FILLER"])
        if lv == 88:
            nd["value"] = rng.choice(G.VALUES)
            nd["pic"] = nd["usage"] = nd["occurs"] = None
        out.append(nd)
    return out


# VALUE literals holding a period that is followed by white space (known finding 5).  Shapes kept apart from the
# finding's other symptoms, which the judge would report as violations: no blank before the first such period (the
# words after a blank would be read as further data names), no two adjacent digits after it (they would start a
# spurious entry), single blanks and no other white space (the compact text is compared; compact_source turns a tab into a blank).
PERIOD_WS_VALUES = ["'A. B'", "'NO. OF ITEMS'", '"MR. X"', "'END. '", "'. '", "'A. B. C'", "'N.A. ONLY'", "\"DEPT. HEAD'S\"",
                    "'ST. JOHN''S'", "'X-1. Y'", "'A. '"]


HAND = [
    # (forest builder, print options)
    lambda: [G.node(1, "REC-A", children=[G.node(5, "F-A", pic="X(3)"), G.node(5, "F-B", pic="9(2)")])],
    lambda: [G.node(1, "REC-A", children=[G.node(5, "F-A", pic="X"), G.node(5, "F-B", pic="X", redefines="F-A"),
                                          G.node(5, "F-C", pic="X", redefines="F-A"), G.node(5, "F-D", pic="X")])],
    lambda: [G.node(1, "REC-A", children=[G.node(5, None, filler=True, pic="X"), G.node(5, None, pic="X"),
                                          G.node(5, "F-C", children=[G.node(10, None, filler=True, pic="9")])]),
             G.node(1, "REC-B", children=[G.node(3, None, filler=True, pic="X")])],
    lambda: [G.node(1, "REC-A", children=[G.node(5, "GRP", children=[G.node(10, "F-A", pic="X"), G.node(7, "F-B", pic="X")]),
                                          G.node(3, "F-C", pic="X")])],
    lambda: [G.node(1, "REC-A", pic="X(80)")],
    # the same group name under two parents, REDEFINES inside the later one
    lambda: [G.node(1, "CUSTOMER-REC", children=[
        G.node(5, "CUST-ID", pic="X(6)"),
        G.node(5, "BILL-TO", children=[G.node(10, "ADDR", children=[G.node(15, "STREET", pic="X(20)"), G.node(15, "ZIP", pic="X(5)")])]),
        G.node(5, "SHIP-TO", children=[G.node(10, "ADDR", children=[G.node(15, "STREET", pic="X(20)"), G.node(15, "ZIP", pic="X(5)"),
                                                                     G.node(15, "ZIP-NUM", pic="9(5)", redefines="ZIP")]),
                                       G.node(10, "CARRIER", pic="X(3)")]),
        G.node(5, "CUST-STATUS", pic="X")])],
    # REDEFINES inside the earlier one, and inside both
    lambda: [G.node(1, "R", children=[
        G.node(5, "P-1", children=[G.node(10, "GRP", children=[G.node(15, "A", pic="X"), G.node(15, "B", pic="9", redefines="A")])]),
        G.node(5, "P-2", children=[G.node(10, "GRP", children=[G.node(15, "A", pic="X"), G.node(15, "B", pic="9", redefines="A"),
                                                               G.node(15, "C", pic="X")]),
                                   G.node(10, "A", pic="X"), G.node(10, "D", pic="X", redefines="A")])])],
    # an item named like its own group, then a REDEFINES in that group (names[parent] is the item)
    lambda: [G.node(1, "R", children=[G.node(5, "H", children=[G.node(10, "H", pic="X"), G.node(10, "C", pic="X"),
                                                               G.node(10, "D", pic="X", redefines="C")])])],
    # a group named like its grandparent holding the REDEFINES target group's name
    lambda: [G.node(1, "R", children=[G.node(5, "G", children=[
        G.node(10, "X", children=[G.node(15, "G", children=[G.node(20, "Q", pic="X")])]),
        G.node(10, "C", pic="X"), G.node(10, "D", pic="X", redefines="C")])])],
    lambda: [G.node(5, "NO-01-A", pic="X"), G.node(5, "NO-01-B", pic="X")],
    lambda: [G.node(1, "REC-A", children=[G.node(5, "TBL", occurs=3, children=[G.node(10, "F-A", pic="X"), G.node(10, "F-B", pic="9")]),
                                          G.node(5, "CNT", pic="9(2)"),
                                          G.node(5, "VTBL", odo=(1, 5, "CNT"), pic="X(2)")])],
]


def first_special_forests():
    """Known finding 8: every combination of a first entry of level 77 / 88 / 66 (each in two forms) with what may follow it:
    nothing, an 01 record, 05-level items, a record and a further 66/77/88 entry behind it, items of a larger level number
    (they are attached BELOW the first entry), a second special entry and items."""
    firsts = [
        lambda: G.node(77, "W", pic="X"), lambda: G.node(77, "W-GRP"),                                   # 77 with and without picture
        lambda: G.node(88, "FLAG", value="'Y'"), lambda: G.node(88, None, filler=True, value="ZERO"),    # 88 named and FILLER
        lambda: G.node(66, "R", renames=("A", "B")), lambda: G.node(66, "R", renames=("A", None)),       # 66 RENAMES a THRU b / a
    ]
    rec = lambda: G.node(1, "REC", children=[G.node(5, "A", pic="X"), G.node(5, "B", pic="9")])
    follows = [
        lambda: [],
        lambda: [rec()],
        lambda: [G.node(5, "A", pic="X"), G.node(5, "B", pic="9")],
        lambda: [rec(), G.node(77, "W-2", pic="X"), G.node(1, "REC-2", pic="X(4)")],
        lambda: [G.node(99, "X-99", pic="X"), G.node(99, "Y-99", pic="X")],
        lambda: [G.node(88, "FLAG-2", value="'N'"), G.node(5, "A", pic="X"), G.node(10, "B", pic="9")],
        # REDEFINES among items attached below the first entry: resolved there / no such sibling there (structure raises
        # ValueError; without the first entry the item is a root, whose REDEFINES clause is not looked at)
        lambda: [G.node(99, "A", pic="X"), G.node(99, "B", pic="X", redefines="A")],
        lambda: [G.node(99, "B", pic="X", redefines="A")],
    ]
    for mk_first in firsts:
        for mk_rest in follows:
            yield [mk_first()] + mk_rest()


def inputs(ctx):
    rng = ctx.rng
    quick = ctx.tier == "quick"
    scale = 1 if quick else 8

    for mk in HAND:
        for fin in (True,):
            yield "hand", make_case(rng, mk(), spelled=False)

    # ---- clean, well-formed
    for i in range(700 * scale):
        f = G.gen_forest(rng, max_depth=rng.choice([2, 3, 4, 5]), max_children=rng.choice([2, 3, 5, 7]),
                         ragged=rng.random() < 0.5, contiguous=rng.random() < 0.2, budget=rng.choice([6, 15, 40, 80]),
                         p_filler=rng.choice([0.05, 0.15, 0.5]), p_redefines=rng.choice([0, 0.15, 0.4]))
        yield "clean", make_case(rng, f, **spelling(rng))

    # ---- the same data name under different parents (legal: qualified names), REDEFINES inside the later groups
    for i in range(300 * scale):
        f = G.gen_forest(rng, max_depth=rng.choice([3, 4, 5]), max_children=rng.choice([2, 3, 5]), records=rng.choice([1, 1, 2]),
                         budget=rng.choice([15, 40, 80]), p_filler=0.05, p_redefines=rng.choice([0.2, 0.4, 0.6]),
                         p_occurs=rng.choice([0, 0.15]), p_88=0.05, p_66=0.05, p_77=0.05)
        G.repeat_names(rng, f, p=rng.choice([0.2, 0.4, 0.7]))
        yield "dup_cousins", make_case(rng, f, **spelling(rng))
    # ---- any earlier name reused, also an ancestor's or a sibling's (the maker's names dict gets confused: modelled)
    for i in range(200 * scale):
        f = G.gen_forest(rng, max_depth=rng.choice([3, 4, 5]), max_children=rng.choice([2, 3, 5]), records=1,
                         budget=rng.choice([10, 25, 50]), p_filler=0.05, p_redefines=rng.choice([0.3, 0.6]),
                         p_occurs=rng.choice([0, 0.2]), p_88=0.05, p_66=0, p_77=0)
        G.repeat_names(rng, f, p=rng.choice([0.3, 0.6]), allow_related=True)
        yield "dup_related", make_case(rng, f, **spelling(rng))

    # ---- arbitrary level sequences, unique names
    lvsets = [[1, 5, 10, 15], [1, 2, 3, 4, 5], [0, 1, 2, 49, 50, 66, 77, 88, 99], [1, 5, 5, 10, 88, 66], [3, 7, 49]]
    # a first entry of level 66/77/88 is the trigger of known finding 8 (stream first-entry-special): not in these streams
    plain = lambda lv: [x for x in lv if x not in (66, 77, 88)]

    def uniq_names():
        k = [0]

        def f():
            k[0] += 1
            return f"{rng.choice(G.STEMS)}-{k[0]}"
        return f
    for i in range(400 * scale):
        lv = rng.choice(lvsets)
        f = flat_forest(rng, rng.randint(1, 14), lv, uniq_names(), p_redef=rng.choice([0, 0.1, 0.3]), first=plain(lv))
        yield "wild_unique", make_case(rng, f, **spelling(rng))

    # ---- arbitrary level sequences, colliding names (REDEFINES with zero / one / several matches)
    for i in range(400 * scale):
        pool = rng.sample(G.STEMS, rng.randint(1, 4))
        lv = rng.choice(lvsets)
        f = flat_forest(rng, rng.randint(1, 12), lv, lambda: rng.choice(pool), p_redef=rng.choice([0.2, 0.5]),
                        p_filler=rng.choice([0.1, 0.4]), first=plain(lv))
        yield "wild_collide", make_case(rng, f, **spelling(rng))

    # ---- known finding 8: the first entry is a 66/77/88 level (structure() keeps its first node whatever the level)
    for f in first_special_forests():
        yield "first-entry-special", make_case(rng, f, spelled=False)
        yield "first-entry-special", make_case(rng, f, **spelling(rng))
    for i in range(40 * scale):
        # a special first entry in front of generated well-formed records (no REDEFINES, no OCCURS: other findings' triggers)
        lv = rng.choice([66, 77, 88])
        first = (G.node(77, "W-77", pic=rng.choice(["X", "9(3)", "X(10)"])) if lv == 77 else
                 G.node(88, "FLAG-88", value=rng.choice(["'Y'", "ZERO", "'AB'"])) if lv == 88 else
                 G.node(66, "REN-66", renames=("F-A", rng.choice([None, "F-B"]))))
        f = [first] + G.gen_forest(rng, max_depth=rng.choice([2, 3]), budget=rng.choice([4, 8, 15]), p_redefines=0, p_occurs=0,
                                   records=rng.choice([1, 1, 2]))
        yield "first-entry-special", make_case(rng, f, **spelling(rng))
    for i in range(60 * scale):
        f = flat_forest(rng, rng.randint(1, 8), [1, 5, 10, 88, 77], uniq_names(), first=[66, 77, 88], p_redef=0)
        yield "first-entry-special", make_case(rng, f, **spelling(rng))

    # ---- FILLER numbering: many unnamed entries, several records, unnamed 88s
    for i in range(150 * scale):
        f = flat_forest(rng, rng.randint(2, 16), [1, 5, 5, 10, 10, 88], uniq_names(), p_filler=0.7, p_redef=0, first=[1, 5, 10])
        yield "fillers", make_case(rng, f, **spelling(rng))

    # ---- known finding 1: last entry lost (no final line feed / last line reaches column 72)
    for i in range(40 * scale):
        f = G.gen_forest(rng, budget=10, p_redefines=0)
        if rng.random() < 0.5:
            yield "known1_no_newline", make_case(rng, f, final_newline=False, one_line=True)
        else:
            yield "known1_col72", make_case(rng, f, one_line=True, last_line_pad_to=rng.choice([72, 73, 80]))

    # ---- known finding 2: REDEFINES among the children of an OCCURS group
    for i in range(40 * scale):
        tbl = G.node(5, "TBL-1", occurs=rng.randint(2, 5), children=[
            G.node(10, "ALT-A", pic="X(4)"), G.node(10, "ALT-B", pic="9(4)", redefines="ALT-A"), G.node(10, "TAIL", pic="X")])
        rec = G.node(1, "REC-1", children=[G.node(5, "HEAD", pic="X")] + ([tbl] if rng.random() < 0.7 else
                     [G.node(5, "MID", children=[tbl])]) + [G.node(5, "END-1", pic="X")])
        yield "known2_redefines_in_occurs", make_case(rng, [rec], **spelling(rng))
    for i in range(20 * scale):
        f = G.gen_forest(rng, p_redefines=0.5, p_occurs=0.5, redefines_in_occurs=True, budget=20)
        yield "known2_redefines_in_occurs", make_case(rng, f, **spelling(rng))

    # ---- known finding 3: names starting with a reserved word
    for i in range(40 * scale):
        f = G.gen_forest(rng, budget=10, p_redefines=0, name_pool=G.KEYWORD_PREFIX_NAMES + G.STEMS[:6])
        yield "known3_keyword_prefix", make_case(rng, f, **spelling(rng))

    # ---- known finding 4: INDEXED BY
    for i in range(40 * scale):
        f = G.gen_forest(rng, budget=12, p_redefines=0, p_occurs=0.6, indexed_by=True)
        yield "known4_indexed_by", make_case(rng, f, **spelling(rng))

    # ---- known finding 5: a period followed by white space inside a VALUE literal ends the sentence early
    yield "known5_value_period_ws", make_case(rng, [G.node(1, "R", children=[
        G.node(5, "FLD-A", pic="X(5)", value="'A. B'"), G.node(5, "FLD-B", pic="X")])], spelled=False)
    for i in range(60 * scale):
        f = G.gen_forest(rng, max_depth=rng.choice([2, 3, 4]), budget=rng.choice([6, 15, 30]),
                         p_redefines=rng.choice([0, 0.15]), p_88=rng.choice([0.15, 0.4]))
        ents = G.entries(f)
        elem = [n for n in ents if n["pic"] is not None and n["level"] not in (66, 77, 88)]
        c88 = [n for n in ents if n["level"] == 88]
        pool = elem + (c88 if rng.random() < 0.3 else [])
        if not pool:
            continue
        for n in rng.sample(pool, min(len(pool), rng.randint(1, 3))):
            n["value"] = rng.choice(PERIOD_WS_VALUES)
        yield "known5_value_period_ws", make_case(rng, f, **spelling(rng))

    # ---- known finding 6: level numbers 1-9 written with one digit (the entry is not seen; digits further on start garbage)
    w = [G.node(1, "R", children=[G.node(5, "A", pic="X"), G.node(10, "B", pic="X")])]
    yield "known6_one_digit_level", make_case(rng, w, spelled=False, indent=3,
                                              one_digit_ids={id(n) for n in G.entries(w) if n["level"] < 10})
    for i in range(80 * scale):
        f = G.gen_forest(rng, max_depth=rng.choice([2, 3, 4]), budget=rng.choice([6, 15, 30]), contiguous=rng.random() < 0.6,
                         p_redefines=rng.choice([0, 0.15]))
        low = [n for n in G.entries(f) if n["level"] < 10]
        every = rng.random() < 0.4
        ids = {id(n) for n in low if every or rng.random() < 0.5}
        if not ids:
            ids = {id(low[0])}            # a record's 01 level is always there
        yield "known6_one_digit_level", make_case(rng, f, one_digit_ids=ids, **spelling(rng))

    # ---- known finding 7: a REDEFINES target spelled in another letter case than the declaration
    def recase(name):
        return rng.choice([x for x in (name.lower(), name.capitalize(), name[:-1].lower() + name[-1:], name[:1] + name[1:].lower())
                           if x != name])

    yield "known7_redefines_case", make_case(rng, [G.node(1, "R", children=[
        G.node(5, "fld-a", pic="X"), G.node(5, "B", pic="X", redefines="FLD-A")])], spelled=False)
    for i in range(60 * scale):
        f = G.gen_forest(rng, max_depth=rng.choice([2, 3, 4]), max_children=rng.choice([3, 5, 7]), budget=rng.choice([10, 20, 40]),
                         p_redefines=rng.choice([0.4, 0.6]), p_occurs=0.1)
        ents = G.entries(f)
        reds = [n for n in ents if n["redefines"]]
        if not reds:
            continue
        for n in rng.sample(reds, min(len(reds), rng.randint(1, 2))):
            if rng.random() < 0.6:
                n["redefines"] = recase(n["redefines"])                    # the clause respelled
            else:
                for b in ents:                                             # the declaration respelled
                    if b["name"] == n["redefines"]:
                        b["name"] = b["name"].lower()
        yield "known7_redefines_case", make_case(rng, f, **spelling(rng))


def canon_schema(s):
    """generic serialisation of a schema dict: kind by the keys present, ordered properties"""
    if not isinstance(s, dict):
        return [9, [], [], [], []]
    kids = []
    anchor = s.get("$anchor")
    if "oneOf" in s:
        kind = 3
        kids = [[[], canon_schema(a)] for a in s["oneOf"]]
    elif "$ref" in s and "type" not in s:
        kind = 4
        anchor = s["$ref"]
    elif s.get("type") == "array":
        kind = 1
        items = s.get("items", {})
        kids = [[S(k), canon_schema(v)] for k, v in items.get("properties", {}).items()]
    elif s.get("type") == "object":
        kind = 0
        kids = [[S(k), canon_schema(v)] for k, v in s.get("properties", {}).items()]
    else:
        kind = 2
    return [kind, opt(s.get("title")), opt(anchor), opt(s.get("cobol")), kids]


def observe(ctx, inp):
    from stingray import cobol_parser as cp
    text = inp["text"]
    intended = [[S(e[0]), opt(e[1]), opt(e[2]), opt(e[3]), e[4], e[5], S(e[6]), e[7], opt(e[8] if len(e) > 8 else None),
                 e[9] if len(e) > 9 else 0] for e in inp["entries"]]

    def sentences():
        out = []
        for lvl, src in cp.dde_sentences(cp.reference_format(io.StringIO(text))):
            cl = cp.clause_dict(src)
            out.append([S(lvl), opt(cl.get("name")), opt(cl.get("filler")), opt(cl.get("redefines")),
                        int("picture" in cl), int("occurs_maxitems" in cl or "odo_maxitems" in cl),
                        S(" ".join(src.split())), 0])
        return out

    def dde(n):
        return [S(n.level), S(str(n.name)), S(n.unique_name), opt(n.clauses.get("redefines")), S(n.compact_source),
                [dde(c) for c in n.children]]

    def forest():
        return [dde(t) for t in cp.structure(cp.dde_sentences(cp.reference_format(io.StringIO(text))))]

    def schemas():
        return [canon_schema(s) for s in cp.schema_iter(io.StringIO(text))]

    def raw():
        return [[S(lvl), S(" ".join(src.split()))] for lvl, src in cp.dde_sentences(cp.reference_format(io.StringIO(text)))]

    ident = lambda v: v
    return [S(text), intended, observe_call(sentences, ident), observe_call(forest, ident), observe_call(schemas, ident),
            observe_call(raw, ident)]


def describe(inp):
    return inp["text"]
