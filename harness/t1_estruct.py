"""T1 generators for the codec model: Gen/EstructParams.v and Gen/Cp037.v.

Reads estruct.unpack, estruct.calcsize and Struct.struct_format with `ast`, walks their
if/elif chains over `representation.usage in (...)`, and recognises (on the canonical
`ast.unparse` text of each branch) the handful of shapes the model is parameterised by.
Anything else raises Unrecognised and the pinned file is used instead.
"""
import ast
import os
import re

from translate import Unrecognised, _func, _parse

SPELLINGS = ["BINARY", "COMPUTATIONAL-1", "COMPUTATIONAL-2", "COMPUTATIONAL-3", "COMPUTATIONAL-4", "COMPUTATIONAL",
             "COMP-1", "COMP-2", "COMP-3", "COMP-4", "COMP", "DISPLAY", "PACKED-DECIMAL"]


def _usage_chain(fn):
    """[(names tuple, body statements)] of the top-level if/elif chain testing representation.usage"""
    chain = []
    node = None
    for st in fn.body:
        if isinstance(st, ast.If) and "usage in" in ast.unparse(st.test):
            node = st
            break
    if node is None:
        raise Unrecognised(f"{fn.name}: no usage chain")
    while True:
        t = node.test
        if not (isinstance(t, ast.Compare) and len(t.ops) == 1 and isinstance(t.ops[0], ast.In)
                and ast.unparse(t.left).endswith(".usage") and isinstance(t.comparators[0], (ast.Tuple, ast.Set, ast.List))):
            raise Unrecognised(f"{fn.name}: usage test {ast.unparse(t)}")
        names = []
        for e in t.comparators[0].elts:
            if not (isinstance(e, ast.Constant) and isinstance(e.value, str)):
                raise Unrecognised("usage name not a literal")
            names.append(e.value)
        chain.append((names, node.body))
        if len(node.orelse) == 1 and isinstance(node.orelse[0], ast.If):
            node = node.orelse[0]
        else:
            break
    return chain


def _ids(names):
    try:
        return [SPELLINGS.index(n) for n in names]
    except ValueError as ex:
        raise Unrecognised(f"unknown usage spelling {ex}")


def _branch(chain, marker):
    for names, body in chain:
        if marker in names:
            return names, body
    raise Unrecognised(f"no branch for {marker}")


def _text(body):
    return "\n".join(ast.unparse(s) for s in body)


def _neg_set(text):
    m = re.search(r"sign = -1 if (.+?) else \+?1\b", text)
    if not m:
        raise Unrecognised("sign expression")
    parts = [p.strip("() ") for p in m.group(1).split(" or ")]
    out = []
    for p in parts:
        mm = re.fullmatch(r"sign_half == (\d+)", p)
        if not mm:
            mm = re.fullmatch(r"sign_half in [\(\[\{]([\d, ]+)[\)\]\}]", p)
            if not mm:
                raise Unrecognised(f"sign test {p}")
            out += [int(x) for x in mm.group(1).replace(" ", "").split(",") if x]
        else:
            out.append(int(mm.group(1)))
    return out


def _thresholds(text, what):
    """the if/elif chain choosing h/i/q -> (t1, t2, t3, inclusive, counts_fraction)"""
    if re.search(r"^digits = len\([\w.]*digit_groups\[1\]\) \+ len\([\w.]*digit_groups\[3\]\)$", text, re.M):
        var, frac = "digits", True
    else:
        var, frac = r"len\([\w.]*digit_groups\[1\]\)", False
    m1 = re.search(rf"^if {var} < (\d+):", text, re.M)
    elifs = list(re.finditer(rf"^elif (\d+) <= {var} (<=?) (\d+):", text, re.M))
    if not (m1 and len(elifs) == 2 and elifs[0].group(2) == "<"):
        raise Unrecognised(f"{what}: threshold chain")
    m2 = re.fullmatch(r"elif (\d+) <= .* < (\d+):", elifs[0].group(0))
    m3 = elifs[1]
    t1, t2a, t2, t2b, op, t3 = int(m1.group(1)), int(m2.group(1)), int(m2.group(2)), int(m3.group(1)), m3.group(2), int(m3.group(3))
    if t1 != t2a or t2 != t2b:
        raise Unrecognised(f"{what}: thresholds not contiguous")
    order = re.findall(r"'>?([hiq])'", text)
    if order[:3] != ["h", "i", "q"]:
        raise Unrecognised(f"{what}: format order {order}")
    return t1, t2, t3, op == "<=", frac


def gen_EstructParams(src):
    est = _parse(src, "stingray/estruct.py")
    sch = _parse(src, "stingray/schema_instance.py")
    unpack = _usage_chain(_func(est, "unpack"))
    calc = _usage_chain(_func(est, "calcsize"))
    sfmt = _usage_chain(_func(sch, "struct_format", cls="Struct"))

    # ---- unpack
    dn, dbody = _branch(unpack, "DISPLAY")
    pn, pbody = _branch(unpack, "COMP-3")
    bn, bbody = _branch(unpack, "COMP")
    if len(unpack) != 3:
        raise Unrecognised("unpack: expected three usage branches")
    dtext, ptext, btext = _text(dbody), _text(pbody), _text(bbody)
    if not re.search(r"^if [\w.]*zoned_decimal:", dtext, re.M):
        raise Unrecognised("unpack: zoned test")
    if "text = ''.join((str(b & 15) for b in buffer))" not in dtext or "sign_half = (buffer[-1] & 240) >> 4" not in dtext:
        raise Unrecognised("unpack: zoned digit/sign extraction")
    if "Decimal(10) ** (-len(representation.digit_groups[3]))" not in dtext.replace("-len", "(-len").replace("((-len", "(-len") \
            and "Decimal(10) ** -len(representation.digit_groups[3])" not in dtext:
        raise Unrecognised("unpack: zoned scale")
    zoned_check = bool(re.search(r"if any\(\(\(?b & 15\)? > 9 for b in buffer\)\):\n\s+raise ValueError", dtext))
    zoned_neg = _neg_set(dtext[:dtext.index("buffer.decode")] if "buffer.decode" in dtext else dtext)
    m = re.search(r"re\.match\(representation\.pattern, text(, re\.(DOTALL|S))?\)", dtext)
    if not m or "buffer.decode(" not in dtext:
        raise Unrecognised("unpack: text branch")
    dotall = bool(m.group(1))
    if "half_bytes.append((b & 240) >> 4)" not in ptext or "half_bytes.append(b & 15)" not in ptext or "*digits, sign_half = half_bytes" not in ptext:
        raise Unrecognised("unpack: packed nibble split")
    if "Decimal(''.join((str(d) for d in digits)))" not in ptext:
        raise Unrecognised("unpack: packed digits")
    packed_check = bool(re.search(r"if any\(\(d > 9 for d in digits\)\):\n\s+raise ValueError", ptext))
    packed_neg = _neg_set(ptext)
    bt = _thresholds(btext, "unpack")
    if "struct.unpack(format, buffer)" not in btext:
        raise Unrecognised("unpack: struct.unpack")

    # ---- calcsize
    if len(calc) != 5:
        raise Unrecognised("calcsize: expected five usage branches")
    cdn, cdb = _branch(calc, "DISPLAY")
    cpn, cpb = _branch(calc, "COMP-3")
    c4n, c4b = _branch(calc, "COMP-1")
    c8n, c8b = _branch(calc, "COMP-2")
    cbn, cbb = _branch(calc, "COMP")
    if _text(cdb) != "return representation.picture_size" or _text(c4b) != "return 4" or _text(c8b) != "return 8":
        raise Unrecognised("calcsize: display/float branches")
    ptxt = _text(cpb)
    if re.fullmatch(r"sign_positions = len\(representation\.digit_groups\[0\]\)\nreturn \(representation\.picture_size - sign_positions\) // 2 \+ 1", ptxt):
        packed_mode = 0
    elif ptxt == "return (representation.picture_size + 1) // 2":
        packed_mode = 1
    else:
        raise Unrecognised(f"calcsize: packed formula {ptxt!r}")
    m = re.fullmatch(r"return 2 if representation\.picture_size < (\d+) else 4 if (\d+) <= representation\.picture_size < (\d+) else 8", _text(cbb))
    if not m or m.group(1) != m.group(2):
        raise Unrecognised("calcsize: binary formula")
    cb1, cb2 = int(m.group(1)), int(m.group(3))

    # ---- Struct.struct_format
    sdn, sdb = _branch(sfmt, "DISPLAY")
    spn, spb = _branch(sfmt, "COMP-3")
    s4n, s4b = _branch(sfmt, "COMP-1")
    s8n, s8b = _branch(sfmt, "COMP-2")
    sbn, sbb = _branch(sfmt, "COMP")
    if len(sfmt) != 5 or "picture_size" not in _text(sdb) or "raise ValueError" not in _text(spb) \
            or _text(s4b) != "struct_code = 'f'" or _text(s8b) != "struct_code = 'd'":
        raise Unrecognised("struct_format: branches")
    st = _thresholds(_text(sbb), "struct_format")

    L = lambda xs: "[" + "; ".join(str(x) for x in xs) + "]"
    Bo = lambda b: "true" if b else "false"
    return (
        "(* GENERATED by harness/t1_estruct.py from src/stingray/estruct.py and schema_instance.py -- do not edit *)\n"
        "From Coq Require Import NArith List.\nImport ListNotations.\nOpen Scope N_scope.\n"
        "(* usage spellings, numbered in the order of estruct.clause_pattern:\n   "
        + " ".join(f"{i} {n}" for i, n in enumerate(SPELLINGS)) + " *)\n"
        f"Definition n_spellings : N := {len(SPELLINGS)}.\n"
        f"Definition unpack_display : list N := {L(_ids(dn))}.\n"
        f"Definition unpack_packed : list N := {L(_ids(pn))}.\n"
        f"Definition unpack_binary : list N := {L(_ids(bn))}.\n"
        f"Definition calc_display : list N := {L(_ids(cdn))}.\n"
        f"Definition calc_packed : list N := {L(_ids(cpn))}.\n"
        f"Definition calc_float4 : list N := {L(_ids(c4n))}.\n"
        f"Definition calc_float8 : list N := {L(_ids(c8n))}.\n"
        f"Definition calc_binary : list N := {L(_ids(cbn))}.\n"
        f"Definition struct_display : list N := {L(_ids(sdn))}.\n"
        f"Definition struct_packed : list N := {L(_ids(spn))}.\n"
        f"Definition struct_float4 : list N := {L(_ids(s4n))}.\n"
        f"Definition struct_float8 : list N := {L(_ids(s8n))}.\n"
        f"Definition struct_binary : list N := {L(_ids(sbn))}.\n"
        f"Definition zoned_neg : list N := {L(zoned_neg)}.\n"
        f"Definition packed_neg : list N := {L(packed_neg)}.\n"
        f"Definition zoned_check_digits : bool := {Bo(zoned_check)}.\n"
        f"Definition packed_check_digits : bool := {Bo(packed_check)}.\n"
        f"Definition text_dotall : bool := {Bo(dotall)}.\n"
        "(* binary decoder: digits < t1 -> 2 bytes; t1 <= digits < t2 -> 4; t2 <= digits (<|<=) t3 -> 8; else ValueError *)\n"
        f"Definition bin_t1 : N := {bt[0]}.\nDefinition bin_t2 : N := {bt[1]}.\nDefinition bin_t3 : N := {bt[2]}.\n"
        f"Definition bin_t3_inclusive : bool := {Bo(bt[3])}.\nDefinition bin_counts_fraction : bool := {Bo(bt[4])}.\n"
        f"Definition sbin_t1 : N := {st[0]}.\nDefinition sbin_t2 : N := {st[1]}.\nDefinition sbin_t3 : N := {st[2]}.\n"
        f"Definition sbin_t3_inclusive : bool := {Bo(st[3])}.\nDefinition sbin_counts_fraction : bool := {Bo(st[4])}.\n"
        "(* calcsize: packed mode 0 = (picture_size - sign_positions) // 2 + 1 ; 1 = (picture_size + 1) // 2 *)\n"
        f"Definition calc_packed_mode : N := {packed_mode}.\n"
        f"Definition calc_bin_t1 : N := {cb1}.\nDefinition calc_bin_t2 : N := {cb2}.\n"
    )


def _table(codec):
    t = [ord(bytes([b]).decode(codec)) for b in range(256)]
    return ";\n  ".join("; ".join(str(x) for x in t[i:i + 16]) for i in range(0, 256, 16))


def gen_Cp037(src):
    """the SPECIFICATION's table: code page 037 as CPython's codec defines it, whatever the source says"""
    return ("(* GENERATED by harness/t1_estruct.py: bytes([b]).decode('cp037') for b in 0..255 (the specification) -- do not edit *)\n"
            "From Coq Require Import NArith List.\nImport ListNotations.\nOpen Scope N_scope.\n"
            f"Definition cp037_table : list N := [\n  {_table('cp037')}].\n")


def gen_TextCodec(src):
    """the MODEL's table: the codec the text branch of estruct.unpack names"""
    est = _parse(src, "stingray/estruct.py")
    fn = _func(est, "unpack")
    names = set()
    consts = {n.targets[0].id: n.value.value for n in est.body
              if isinstance(n, ast.Assign) and len(n.targets) == 1 and isinstance(n.targets[0], ast.Name)
              and isinstance(n.value, ast.Constant) and isinstance(n.value.value, str)}
    for n in ast.walk(fn):
        if isinstance(n, ast.Call) and isinstance(n.func, ast.Attribute) and n.func.attr == "decode" and n.args:
            a = n.args[0]
            if isinstance(a, ast.Constant) and isinstance(a.value, str):
                names.add(a.value)
            elif isinstance(a, ast.Name) and a.id in consts:
                names.add(consts[a.id])
            else:
                raise Unrecognised("codec argument")
    if len(names) != 1:
        raise Unrecognised(f"codec names {names}")
    codec = names.pop()
    try:
        rows = _table(codec)
    except Exception as ex:
        raise Unrecognised(f"codec {codec}: {ex}")
    return (f"(* GENERATED by harness/t1_estruct.py: bytes([b]).decode('{codec.lower()}'), the codec estruct.unpack names -- do not edit *)\n"
            "From Coq Require Import NArith List.\nImport ListNotations.\nOpen Scope N_scope.\n"
            f"Definition text_table : list N := [\n  {rows}].\n")


GENERATORS = {"EstructParams": gen_EstructParams, "Cp037": gen_Cp037, "TextCodec": gen_TextCodec}
