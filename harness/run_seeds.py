#!/venv/bin/python
"""run_seeds.py [-P n] [--force] SPEC...   evaluate seeded changes in parallel (each in its own scratch worktree and private copy of /verif).
SPEC = Cxx:N          change N written for property Cxx, judged by ./check Cxx   -> /tmp/seedres/Cxx_N.json
     = Cxx:N@Cyy      the same change judged by ./check Cyy                       -> /tmp/seedres/x_Cxx_N_by_Cyy.json
Sources: /tmp/mut_Cxx_out/mutN.diff + demoN.py if present, else /verif/seeded/Cxx-N/patch.diff + demo.py."""
import os, subprocess, sys, json, concurrent.futures as cf
HERE = os.path.dirname(os.path.dirname(os.path.abspath(__file__)))
args = sys.argv[1:]
P, force = 4, False
while args and args[0].startswith("-"):
    if args[0] == "-P": P = int(args[1]); args = args[2:]
    elif args[0] == "--force": force = True; args = args[1:]
os.makedirs("/tmp/seedres", exist_ok=True)
def job(spec):
    seed, _, by = spec.partition("@")
    prop, n = seed.split(":")
    by = by or prop
    out = f"/tmp/seedres/{prop}_{n}.json" if by == prop else f"/tmp/seedres/x_{prop}_{n}_by_{by}.json"
    if os.path.exists(out) and not force:
        return spec, "exists"
    d = f"/tmp/mut_{prop}_out"
    patch, demo = f"{d}/mut{n}.diff", f"{d}/demo{n}.py"
    if not os.path.exists(patch):
        patch, demo = f"{HERE}/seeded/{prop}-{n}/patch.diff", f"{HERE}/seeded/{prop}-{n}/demo.py"
    r = subprocess.run([f"{HERE}/harness/seedtest.py", by, patch, demo], stdout=subprocess.PIPE, stderr=subprocess.STDOUT, text=True)
    open(out, "w").write(r.stdout)
    try:
        j = json.loads(r.stdout)
        last = [l for l in j.get("check_lines", []) if not l.startswith("VIOLATION")][-1:]
        return spec, f"caught={j.get('caught')} baseline_ok={j.get('baseline_ok')} demo={j.get('demo_clean_exit')}/{j.get('demo_changed_exit')} {last}"
    except Exception as e:
        return spec, f"unparsable output ({e})"
with cf.ThreadPoolExecutor(P) as ex:
    for spec, res in ex.map(job, args):
        print(spec, res, flush=True)
