"""T1 plug-in for C14: the suffix registrations, the registration rule and the shape of every unpacker's close().

Gen/RegistryParams.v has three independent parts; a part whose source shape is not recognised keeps the value it
has in the committed coq/Gen/RegistryParams.pinned (the run then relies on the correspondence check for it), and
the header comment of the generated file says which parts came from the source:
  registrations - the @file_registry.file_suffix(...) decorators of src/stingray/workbook.py followed by those of
                  src/stingray/implementations.py (= import order), each as (list of suffix strings, class id)
  later_wins    - WBFileRegistry.file_suffix stores with `self.suffix_map[name] = cls` (true) or with
                  `self.suffix_map.setdefault(name, cls)` (false) in a loop over the names
  close_shape   - for each of the eight workbook classes (id): (guarded, closes, deletes) read from the close() method
                  of the unpacker class bound in the workbook's __init__ (self.unpacker = X()), per class:
                    guarded: the body is under `if hasattr(self, "the_file") and self.the_file:`
                    closes : the body calls self.the_file.close()
                    deletes: the body executes `del self.the_file`
"""
import ast
import os
import re
from translate import Unrecognised, _parse, GEN as GEN_DIR

# class name -> id used on the wire and in coq/Model/Lifecycle.v
CLASS_IDS = {
    "CSV_Workbook": 1, "JSON_Workbook": 2, "XLS_Workbook": 3, "XLSX_Workbook": 4, "ODS_Workbook": 5,
    "Numbers_Workbook": 6, "COBOL_Text_File": 7, "COBOL_EBCDIC_File": 8,
}
FILES = ["stingray/workbook.py", "stingray/implementations.py", "stingray/schema_instance.py"]


def _strip_doc(body):
    if body and isinstance(body[0], ast.Expr) and isinstance(body[0].value, ast.Constant) and isinstance(body[0].value.value, str):
        return body[1:]
    return body


def _is_self_attr(n, attr):
    return isinstance(n, ast.Attribute) and n.attr == attr and isinstance(n.value, ast.Name) and n.value.id == "self"


def _classes(tree):
    """all class definitions in source order, including those nested in try: blocks"""
    out = []

    def visit(stmts):
        for s in stmts:
            if isinstance(s, ast.ClassDef):
                out.append(s)
            elif isinstance(s, ast.Try):
                visit(s.body)
            elif isinstance(s, (ast.If, ast.With)):
                raise Unrecognised("class definitions under if/with are not recognised")
    visit(tree.body)
    return out


def _method(cls, name):
    for n in cls.body:
        if isinstance(n, ast.FunctionDef) and n.name == name:
            return n
    return None


def _is_call_self_method(stmt, path):
    """stmt is the expression statement self.<path...>() with no arguments"""
    if not (isinstance(stmt, ast.Expr) and isinstance(stmt.value, ast.Call)):
        return False
    c = stmt.value
    if c.args or c.keywords:
        return False
    n = c.func
    for attr in reversed(path):
        if not (isinstance(n, ast.Attribute) and n.attr == attr):
            return False
        n = n.value
    return isinstance(n, ast.Name) and n.id == "self"


def _registrations(tree):
    regs = []
    for cls in _classes(tree):
        for d in cls.decorator_list:
            f = d.func if isinstance(d, ast.Call) else d
            mentions = any(isinstance(n, ast.Attribute) and n.attr == "file_suffix" for n in ast.walk(d))
            if not mentions:
                continue
            if not (isinstance(d, ast.Call) and isinstance(f, ast.Attribute) and f.attr == "file_suffix"
                    and isinstance(f.value, ast.Name) and f.value.id == "file_registry" and not d.keywords):
                raise Unrecognised(f"decorator shape on {cls.name}")
            names = []
            for a in d.args:
                if not (isinstance(a, ast.Constant) and isinstance(a.value, str)):
                    raise Unrecognised(f"non-literal suffix on {cls.name}")
                names.append(a.value)
            if cls.name not in CLASS_IDS:
                raise Unrecognised(f"registered class {cls.name} has no id")
            regs.append((names, CLASS_IDS[cls.name]))
    return regs


def _later_wins(tree):
    reg = [c for c in _classes(tree) if c.name == "WBFileRegistry"]
    if len(reg) != 1:
        raise Unrecognised("class WBFileRegistry not found")
    reg = reg[0]
    # file_suffix: def concrete_decorator(cls): for name in name_list: <store> ; return cls
    fs = _method(reg, "file_suffix")
    if fs is None or fs.args.vararg is None:
        raise Unrecognised("file_suffix(*names) not found")
    body = _strip_doc(fs.body)
    if not (len(body) == 2 and isinstance(body[0], ast.FunctionDef) and isinstance(body[1], ast.Return)
            and isinstance(body[1].value, ast.Name) and body[1].value.id == body[0].name):
        raise Unrecognised("file_suffix body shape")
    inner = body[0]
    ib = _strip_doc(inner.body)
    if not (len(inner.args.args) == 1 and len(ib) == 2 and isinstance(ib[0], ast.For) and isinstance(ib[1], ast.Return)):
        raise Unrecognised("concrete_decorator body shape")
    loop, cls_arg = ib[0], inner.args.args[0].arg
    if not (isinstance(loop.iter, ast.Name) and loop.iter.id == fs.args.vararg.arg and isinstance(loop.target, ast.Name)
            and not loop.orelse and len(loop.body) == 1):
        raise Unrecognised("registration loop shape")
    st = loop.body[0]
    name_var = loop.target.id
    if isinstance(st, ast.Assign):
        t = st.targets[0]
        if (len(st.targets) == 1 and isinstance(t, ast.Subscript) and _is_self_attr(t.value, "suffix_map")
                and isinstance(t.slice, ast.Name) and t.slice.id == name_var
                and isinstance(st.value, ast.Name) and st.value.id == cls_arg):
            return True
    if isinstance(st, ast.Expr) and isinstance(st.value, ast.Call):
        c = st.value
        if (isinstance(c.func, ast.Attribute) and c.func.attr == "setdefault" and _is_self_attr(c.func.value, "suffix_map")
                and len(c.args) == 2 and not c.keywords and isinstance(c.args[0], ast.Name) and c.args[0].id == name_var
                and isinstance(c.args[1], ast.Name) and c.args[1].id == cls_arg):
            return False
    raise Unrecognised("registration statement shape")


def _check_wb_close(cls, required):
    cl = _method(cls, "close")
    if cl is None:
        if required:
            raise Unrecognised(f"{cls.name}.close not found")
        return
    b = _strip_doc(cl.body)
    if not (len(b) == 1 and _is_call_self_method(b[0], ["unpacker", "close"])):
        raise Unrecognised(f"{cls.name}.close is not `self.unpacker.close()`")


def _unpacker_of(cls):
    init = _method(cls, "__init__")
    if init is None:
        raise Unrecognised(f"{cls.name}.__init__ not found")
    found = []
    for n in ast.walk(init):
        if isinstance(n, ast.Assign) and len(n.targets) == 1 and _is_self_attr(n.targets[0], "unpacker"):
            v = n.value
            if not (isinstance(v, ast.Call) and isinstance(v.func, ast.Name) and not v.args and not v.keywords):
                raise Unrecognised(f"{cls.name}: unpacker construction shape")
            found.append(v.func.id)
    if len(found) != 1:
        raise Unrecognised(f"{cls.name}: expected one self.unpacker = X()")
    return found[0]


def _close_shape(cls):
    cl = _method(cls, "close")
    if cl is None:
        raise Unrecognised(f"{cls.name}.close not found")
    body = _strip_doc(cl.body)
    guarded = False
    if len(body) == 1 and isinstance(body[0], ast.If):
        t = body[0].test
        ok = (isinstance(t, ast.BoolOp) and isinstance(t.op, ast.And) and len(t.values) == 2
              and isinstance(t.values[0], ast.Call) and isinstance(t.values[0].func, ast.Name) and t.values[0].func.id == "hasattr"
              and len(t.values[0].args) == 2 and isinstance(t.values[0].args[0], ast.Name) and t.values[0].args[0].id == "self"
              and isinstance(t.values[0].args[1], ast.Constant) and t.values[0].args[1].value == "the_file"
              and _is_self_attr(t.values[1], "the_file") and not body[0].orelse)
        if not ok:
            raise Unrecognised(f"{cls.name}.close guard shape")
        guarded = True
        body = body[0].body
    closes = deletes = False
    for s in body:
        if _is_call_self_method(s, ["the_file", "close"]) and not closes and not deletes:
            closes = True
        elif (isinstance(s, ast.Delete) and len(s.targets) == 1 and _is_self_attr(s.targets[0], "the_file") and not deletes):
            deletes = True
        else:
            raise Unrecognised(f"{cls.name}.close statement shape")
    return guarded, closes, deletes


def _pinned():
    try:
        text = open(os.path.join(GEN_DIR, "RegistryParams.pinned")).read()
    except OSError:
        raise Unrecognised("no pinned file to fall back to")
    m = re.search(r"Definition registrations : list \(list \(list N\) \* N\) := \[\n(.*?)\]\.\n", text, re.S)
    lw = re.search(r"Definition later_wins : bool := (true|false)\.", text)
    shapes = {int(a): (b, c, d) for a, b, c, d in
              re.findall(r"\((\d+), \((true|false), (true|false), (true|false)\)\)", text)}
    if not (m and lw and len(shapes) == len(CLASS_IDS)):
        raise Unrecognised("pinned file not understood")
    return m.group(1), lw.group(1), shapes


def gen_RegistryParams(src):
    trees = [_parse(src, rel) for rel in FILES]
    notes = []
    pinned = None

    def fallback(part, ex):
        nonlocal pinned
        if pinned is None:
            pinned = _pinned()
        notes.append(f"{part}=pinned({ex})")
        return pinned

    b = lambda x: "true" if x else "false"
    s = lambda text: "[" + "; ".join(str(ord(ch)) for ch in text) + "]"
    # --- registrations
    try:
        regs = _registrations(trees[0]) + _registrations(trees[1])
        if any(isinstance(n, ast.Attribute) and n.attr == "file_suffix" for n in ast.walk(trees[2])):
            raise Unrecognised("registrations in schema_instance.py")
        reg_txt = "  " + ";\n  ".join("([" + "; ".join(s(n) for n in names) + "], " + str(cid) + ")" for names, cid in regs)
        notes.append("registrations=source")
    except Unrecognised as ex:
        reg_txt = fallback("registrations", ex)[0]
    # --- registration rule
    try:
        lw = b(_later_wins(trees[0]))
        notes.append("later_wins=source")
    except Unrecognised as ex:
        lw = fallback("later_wins", ex)[1]
    # --- close shapes, class by class
    by_name = {}
    for t in trees:
        try:
            for c in _classes(t):
                by_name.setdefault(c.name, c)
        except Unrecognised:
            pass
    shapes = []
    for name, cid in sorted(CLASS_IDS.items(), key=lambda kv: kv[1]):
        try:
            if name not in by_name:
                raise Unrecognised(f"class {name} not found")
            _check_wb_close(by_name[name], required=False)
            up = _unpacker_of(by_name[name])
            if up not in by_name:
                raise Unrecognised(f"unpacker class {up} not found")
            shapes.append((cid, tuple(b(x) for x in _close_shape(by_name[up]))))
            notes.append(f"close_shape[{cid}]=source:{up}")
        except Unrecognised as ex:
            shapes.append((cid, fallback(f"close_shape[{cid}]", ex)[2][cid]))
    shape_txt = ";\n  ".join(f"({cid}, ({g}, {c}, {d}))" for cid, (g, c, d) in shapes)
    if not any(n.endswith("=source") or "=source:" in n for n in notes):
        raise Unrecognised("nothing recognised: " + "; ".join(notes))
    note_txt = " ".join(notes).replace("(*", "( *").replace("*)", "* )").replace('"', "'")
    return (
        "(* GENERATED by harness/t1_c14.py from src/stingray/workbook.py, implementations.py, schema_instance.py -- do not edit *)\n"
        f"(* parts: {note_txt} *)\n"
        "From Coq Require Import NArith List.\nImport ListNotations.\nOpen Scope N_scope.\n"
        "(* decorators @file_registry.file_suffix(...) in import order: (suffixes as code points, class id) *)\n"
        f"Definition registrations : list (list (list N) * N) := [\n{reg_txt}].\n"
        "(* file_suffix stores with suffix_map[name] = cls (true) or suffix_map.setdefault(name, cls) (false) *)\n"
        f"Definition later_wins : bool := {lw}.\n"
        "(* class id -> (guarded, closes, deletes) of the unpacker's close() *)\n"
        f"Definition close_shape : list (N * (bool * bool * bool)) := [\n  {shape_txt}].\n"
    )


def _safe(src):
    try:
        return gen_RegistryParams(src)
    except (Unrecognised, SyntaxError, OSError):
        raise
    except Exception as ex:          # an AST shape nobody thought of: fail closed
        raise Unrecognised(f"{type(ex).__name__}: {ex}")


GENERATORS = {"RegistryParams": _safe}
