"""T1 plug-in for C14: the suffix registrations and the shape of every unpacker's close().

Gen/RegistryParams.v:
  registrations - the @file_registry.file_suffix(...) decorators of src/stingray/workbook.py followed by those of
                  src/stingray/implementations.py (= import order), each as (list of suffix strings, class id)
  close_shape   - for each of the eight workbook classes (id): (guarded, closes, deletes) read from the close() method
                  of the unpacker class bound in the workbook's __init__ (self.unpacker = X()):
                    guarded: the body is under `if hasattr(self, "the_file") and self.the_file:`
                    closes : the body calls self.the_file.close()
                    deletes: the body executes `del self.the_file`
The generator also insists on the shapes the model takes for granted: WBFileRegistry.file_suffix stores with
`self.suffix_map[name] = cls` in a loop over the names, open_workbook looks the suffix up with a subscript inside
try/except KeyError -> raise NotImplementedError and only then calls cls(source), Workbook.__exit__ is `self.close()`,
each workbook class's close() is `self.unpacker.close()`.  Any other shape raises Unrecognised: the pinned text is
used and the run relies on the correspondence check.
"""
import ast
from translate import Unrecognised, _parse

# class name -> id used on the wire and in coq/Model/Lifecycle.v
CLASS_IDS = {
    "CSV_Workbook": 1, "JSON_Workbook": 2, "XLS_Workbook": 3, "XLSX_Workbook": 4, "ODS_Workbook": 5,
    "Numbers_Workbook": 6, "COBOL_Text_File": 7, "COBOL_EBCDIC_File": 8,
}
FILES = ["stingray/workbook.py", "stingray/implementations.py", "stingray/schema_instance.py"]


def _strip_doc(body):
    if body and isinstance(body[0], ast.Expr) and isinstance(body[0].value, ast.Constant) and isinstance(body[0].value.value, str):
        return body[1:]
    return body


def _is_self_attr(n, attr):
    return isinstance(n, ast.Attribute) and n.attr == attr and isinstance(n.value, ast.Name) and n.value.id == "self"


def _classes(tree):
    """all class definitions in source order, including those nested in try: blocks"""
    out = []

    def visit(stmts):
        for s in stmts:
            if isinstance(s, ast.ClassDef):
                out.append(s)
            elif isinstance(s, ast.Try):
                visit(s.body)
            elif isinstance(s, (ast.If, ast.With)):
                raise Unrecognised("class definitions under if/with are not recognised")
    visit(tree.body)
    return out


def _method(cls, name):
    for n in cls.body:
        if isinstance(n, ast.FunctionDef) and n.name == name:
            return n
    return None


def _is_call_self_method(stmt, path):
    """stmt is the expression statement self.<path...>() with no arguments"""
    if not (isinstance(stmt, ast.Expr) and isinstance(stmt.value, ast.Call)):
        return False
    c = stmt.value
    if c.args or c.keywords:
        return False
    n = c.func
    for attr in reversed(path):
        if not (isinstance(n, ast.Attribute) and n.attr == attr):
            return False
        n = n.value
    return isinstance(n, ast.Name) and n.id == "self"


def _registrations(tree):
    regs = []
    for cls in _classes(tree):
        for d in cls.decorator_list:
            f = d.func if isinstance(d, ast.Call) else d
            mentions = any(isinstance(n, ast.Attribute) and n.attr == "file_suffix" for n in ast.walk(d))
            if not mentions:
                continue
            if not (isinstance(d, ast.Call) and isinstance(f, ast.Attribute) and f.attr == "file_suffix"
                    and isinstance(f.value, ast.Name) and f.value.id == "file_registry" and not d.keywords):
                raise Unrecognised(f"decorator shape on {cls.name}")
            names = []
            for a in d.args:
                if not (isinstance(a, ast.Constant) and isinstance(a.value, str)):
                    raise Unrecognised(f"non-literal suffix on {cls.name}")
                names.append(a.value)
            if cls.name not in CLASS_IDS:
                raise Unrecognised(f"registered class {cls.name} has no id")
            regs.append((names, CLASS_IDS[cls.name]))
    return regs


def _check_registry(tree):
    reg = [c for c in _classes(tree) if c.name == "WBFileRegistry"]
    if len(reg) != 1:
        raise Unrecognised("class WBFileRegistry not found")
    reg = reg[0]
    # file_suffix: def concrete_decorator(cls): for name in name_list: self.suffix_map[name] = cls ; return cls
    fs = _method(reg, "file_suffix")
    if fs is None or fs.args.vararg is None:
        raise Unrecognised("file_suffix(*names) not found")
    body = _strip_doc(fs.body)
    if not (len(body) == 2 and isinstance(body[0], ast.FunctionDef) and isinstance(body[1], ast.Return)
            and isinstance(body[1].value, ast.Name) and body[1].value.id == body[0].name):
        raise Unrecognised("file_suffix body shape")
    inner = body[0]
    ib = _strip_doc(inner.body)
    if not (len(inner.args.args) == 1 and len(ib) == 2 and isinstance(ib[0], ast.For) and isinstance(ib[1], ast.Return)):
        raise Unrecognised("concrete_decorator body shape")
    loop, cls_arg = ib[0], inner.args.args[0].arg
    if not (isinstance(loop.iter, ast.Name) and loop.iter.id == fs.args.vararg.arg and isinstance(loop.target, ast.Name)
            and not loop.orelse and len(loop.body) == 1 and isinstance(loop.body[0], ast.Assign)):
        raise Unrecognised("registration loop shape")
    asg = loop.body[0]
    t = asg.targets[0]
    if not (len(asg.targets) == 1 and isinstance(t, ast.Subscript) and _is_self_attr(t.value, "suffix_map")
            and isinstance(t.slice, ast.Name) and t.slice.id == loop.target.id
            and isinstance(asg.value, ast.Name) and asg.value.id == cls_arg):
        raise Unrecognised("registration is not self.suffix_map[name] = cls")
    if not (isinstance(ib[1].value, ast.Name) and ib[1].value.id == cls_arg):
        raise Unrecognised("decorator does not return the class")
    # open_workbook: try: cls = self.suffix_map[source.suffix] except KeyError: raise NotImplementedError(...) ; return cls(source)
    ow = _method(reg, "open_workbook")
    if ow is None:
        raise Unrecognised("open_workbook not found")
    body = _strip_doc(ow.body)
    if not (len(body) == 2 and isinstance(body[0], ast.Try) and isinstance(body[1], ast.Return)):
        raise Unrecognised("open_workbook body shape")
    tr, ret = body
    src_arg = ow.args.args[1].arg if len(ow.args.args) == 2 else None
    ok = (src_arg and len(tr.body) == 1 and isinstance(tr.body[0], ast.Assign) and len(tr.body[0].targets) == 1
          and isinstance(tr.body[0].targets[0], ast.Name) and not tr.orelse and not tr.finalbody and len(tr.handlers) == 1)
    if not ok:
        raise Unrecognised("open_workbook try shape")
    var = tr.body[0].targets[0].id
    v = tr.body[0].value
    if not (isinstance(v, ast.Subscript) and _is_self_attr(v.value, "suffix_map") and isinstance(v.slice, ast.Attribute)
            and v.slice.attr == "suffix" and isinstance(v.slice.value, ast.Name) and v.slice.value.id == src_arg):
        raise Unrecognised("lookup is not self.suffix_map[source.suffix]")
    h = tr.handlers[0]
    if not (isinstance(h.type, ast.Name) and h.type.id == "KeyError" and len(h.body) == 1 and isinstance(h.body[0], ast.Raise)):
        raise Unrecognised("handler shape")
    exc = h.body[0].exc
    exc_name = exc.func if isinstance(exc, ast.Call) else exc
    if not (isinstance(exc_name, ast.Name) and exc_name.id == "NotImplementedError"):
        raise Unrecognised("handler does not raise NotImplementedError")
    r = ret.value
    if not (isinstance(r, ast.Call) and isinstance(r.func, ast.Name) and r.func.id == var and len(r.args) == 1
            and isinstance(r.args[0], ast.Name) and r.args[0].id == src_arg and not r.keywords):
        raise Unrecognised("open_workbook does not return cls(source)")
    # Workbook.__exit__ = self.close() ; Workbook.close = self.unpacker.close()
    wb = [c for c in _classes(tree) if c.name == "Workbook"]
    if len(wb) != 1:
        raise Unrecognised("class Workbook not found")
    ex = _method(wb[0], "__exit__")
    if ex is None or [1 for s in _strip_doc(ex.body) if not _is_call_self_method(s, ["close"])] or len(_strip_doc(ex.body)) != 1:
        raise Unrecognised("Workbook.__exit__ is not `self.close()`")
    en = _method(wb[0], "__enter__")
    eb = _strip_doc(en.body) if en else []
    if not (len(eb) == 1 and isinstance(eb[0], ast.Return) and isinstance(eb[0].value, ast.Name) and eb[0].value.id == "self"):
        raise Unrecognised("Workbook.__enter__ is not `return self`")
    _check_wb_close(wb[0], required=True)


def _check_wb_close(cls, required):
    cl = _method(cls, "close")
    if cl is None:
        if required:
            raise Unrecognised(f"{cls.name}.close not found")
        return
    b = _strip_doc(cl.body)
    if not (len(b) == 1 and _is_call_self_method(b[0], ["unpacker", "close"])):
        raise Unrecognised(f"{cls.name}.close is not `self.unpacker.close()`")


def _unpacker_of(cls):
    init = _method(cls, "__init__")
    if init is None:
        raise Unrecognised(f"{cls.name}.__init__ not found")
    found = []
    for n in ast.walk(init):
        if isinstance(n, ast.Assign) and len(n.targets) == 1 and _is_self_attr(n.targets[0], "unpacker"):
            v = n.value
            if not (isinstance(v, ast.Call) and isinstance(v.func, ast.Name) and not v.args and not v.keywords):
                raise Unrecognised(f"{cls.name}: unpacker construction shape")
            found.append(v.func.id)
    if len(found) != 1:
        raise Unrecognised(f"{cls.name}: expected one self.unpacker = X()")
    return found[0]


def _close_shape(cls):
    cl = _method(cls, "close")
    if cl is None:
        raise Unrecognised(f"{cls.name}.close not found")
    body = _strip_doc(cl.body)
    guarded = False
    if len(body) == 1 and isinstance(body[0], ast.If):
        t = body[0].test
        ok = (isinstance(t, ast.BoolOp) and isinstance(t.op, ast.And) and len(t.values) == 2
              and isinstance(t.values[0], ast.Call) and isinstance(t.values[0].func, ast.Name) and t.values[0].func.id == "hasattr"
              and len(t.values[0].args) == 2 and isinstance(t.values[0].args[0], ast.Name) and t.values[0].args[0].id == "self"
              and isinstance(t.values[0].args[1], ast.Constant) and t.values[0].args[1].value == "the_file"
              and _is_self_attr(t.values[1], "the_file") and not body[0].orelse)
        if not ok:
            raise Unrecognised(f"{cls.name}.close guard shape")
        guarded = True
        body = body[0].body
    closes = deletes = False
    for s in body:
        if _is_call_self_method(s, ["the_file", "close"]) and not closes and not deletes:
            closes = True
        elif (isinstance(s, ast.Delete) and len(s.targets) == 1 and _is_self_attr(s.targets[0], "the_file") and not deletes):
            deletes = True
        else:
            raise Unrecognised(f"{cls.name}.close statement shape")
    return guarded, closes, deletes


def gen_RegistryParams(src):
    trees = [_parse(src, rel) for rel in FILES]
    _check_registry(trees[0])
    regs = _registrations(trees[0]) + _registrations(trees[1])
    if any(isinstance(n, ast.Attribute) and n.attr == "file_suffix" for n in ast.walk(trees[2])):
        raise Unrecognised("registrations in schema_instance.py")
    by_name = {}
    for t in trees:
        for c in _classes(t):
            by_name.setdefault(c.name, c)
    shapes = []
    for name, cid in sorted(CLASS_IDS.items(), key=lambda kv: kv[1]):
        if name not in by_name:
            raise Unrecognised(f"class {name} not found")
        _check_wb_close(by_name[name], required=False)
        up = _unpacker_of(by_name[name])
        if up not in by_name:
            raise Unrecognised(f"unpacker class {up} not found")
        shapes.append((cid, up, _close_shape(by_name[up])))
    b = lambda x: "true" if x else "false"
    s = lambda text: "[" + "; ".join(str(ord(ch)) for ch in text) + "]"
    reg_txt = ";\n  ".join("([" + "; ".join(s(n) for n in names) + "], " + str(cid) + ")" for names, cid in regs)
    shape_txt = ";\n  ".join(f"({cid}, ({b(g)}, {b(c)}, {b(d)}))" for cid, up, (g, c, d) in shapes)
    return (
        "(* GENERATED by harness/t1_c14.py from src/stingray/workbook.py, implementations.py, schema_instance.py -- do not edit *)\n"
        "From Coq Require Import NArith List.\nImport ListNotations.\nOpen Scope N_scope.\n"
        "(* decorators @file_registry.file_suffix(...) in import order: (suffixes as code points, class id) *)\n"
        f"Definition registrations : list (list (list N) * N) := [\n  {reg_txt}].\n"
        "(* class id -> (guarded, closes, deletes) of the unpacker's close(): " + ", ".join(f"{cid}={up}" for cid, up, _ in shapes) + " *)\n"
        f"Definition close_shape : list (N * (bool * bool * bool)) := [\n  {shape_txt}].\n"
    )


GENERATORS = {"RegistryParams": gen_RegistryParams}
