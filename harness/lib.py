"""Shared machinery of the Stingray-Reader verification checks.

A check (./check Cxx) does, on every run:
  1. T1: regenerate coq/Gen/*.v from the current /repo source (harness/translate.py);
  2. build the judge (model + spec, no proofs) and the property's theorem file with coqc;
  3. T2: run the implementation on generated inputs, hand inputs + observations to the
     judge extracted from the Coq development, which decides PASS / VIOLATION / KNOWN / CORR;
  4. write evidence/Cxx.json, print KNOWN-FINDING / VIOLATION lines, exit 0/1.

The Python side contains no oracle logic: it serialises what the implementation did.
"""
import fcntl
import hashlib
import json
import logging
import os
import random
import re
import signal
import subprocess
import sys
import time

VERIF = os.path.dirname(os.path.dirname(os.path.abspath(__file__)))
COQ = os.path.join(VERIF, "coq")
REPO = os.environ.get("VERIF_REPO", "/repo")
SRC = os.path.join(REPO, "src")

# ------------------------------------------------------------------ S-expressions


def S(text):
    """str -> list of code points"""
    return [ord(c) for c in text]


def B(data):
    """bytes -> list of ints"""
    return list(data)


def unS(codes):
    return "".join(chr(c) for c in codes)


def sx_dump(x):
    if isinstance(x, bool):
        return "1" if x else "0"
    if isinstance(x, int):
        return str(x)
    return "(" + " ".join(sx_dump(i) for i in x) + ")"


def sx_parse(line):
    pos = 0
    n = len(line)

    def item():
        nonlocal pos
        while pos < n and line[pos] in " \t":
            pos += 1
        if line[pos] == "(":
            pos += 1
            acc = []
            while True:
                while pos < n and line[pos] in " \t":
                    pos += 1
                if line[pos] == ")":
                    pos += 1
                    return acc
                acc.append(item())
        st = pos
        while pos < n and line[pos] not in " ()":
            pos += 1
        return int(line[st:pos])

    return item()


def sx_coq(x):
    """Python nested list -> Coq term of type sx"""
    if isinstance(x, bool):
        x = int(x)
    if isinstance(x, int):
        return f"A ({x})" if x < 0 else f"A {x}"
    return "L [" + "; ".join(sx_coq(i) for i in x) + "]"


EXN = {
    "ValueError": 1, "TypeError": 2, "IndexError": 3, "KeyError": 4, "RuntimeError": 5,
    "NotImplementedError": 6, "error": 7, "InvalidOperation": 8, "DesignError": 9,
    "AttributeError": 10, "StopIteration": 11, "AssertionError": 12,
}


def exn_code(ex):
    for cls in type(ex).__mro__:
        if cls.__name__ in EXN:
            return EXN[cls.__name__]
    return 99


FINGERPRINT_FILE = os.path.join(VERIF, "harness", "source_fingerprint.json")


def source_fingerprint(src):
    """sha256 of ast.dump of every module of the library (comments and layout do not count)"""
    import ast
    out = {}
    d = os.path.join(src, "stingray")
    for f in sorted(os.listdir(d)) if os.path.isdir(d) else []:
        if f.endswith(".py"):
            try:
                out[f] = hashlib.sha256(ast.dump(ast.parse(open(os.path.join(d, f), encoding="utf-8").read())).encode()).hexdigest()
            except (SyntaxError, ValueError, OSError):
                out[f] = "unparsable"
    return out


def source_changed():
    """modules whose code differs from the tree the machinery was last validated against (harness/source_fingerprint.json,
    written by ./check --pin-source): when there are any, a quick run that found nothing searches further (see Check.run)"""
    try:
        pinned = json.load(open(FINGERPRINT_FILE))
    except (OSError, ValueError):
        return []
    now = source_fingerprint(SRC)
    return sorted(f for f in set(now) | set(pinned) if now.get(f) != pinned.get(f))


class CaseTimeout(BaseException):
    """Raised by the watchdog when the implementation does not return on one case (a change that makes the code loop forever
    must end in a VIOLATION line, not in a check that never ends)."""


# The limit is on the CPU time this process spends in one case (ITIMER_PROF), not on wall-clock time: a loaded machine
# stretches wall-clock time without bound (a 60 s wall-clock limit raised false alarms when several checks ran side by side),
# whereas a loop that never ends burns CPU.  A generous wall-clock backstop catches a case that blocks without computing.
CASE_TIMEOUT = float(os.environ.get("VERIF_CASE_TIMEOUT", "90"))          # CPU seconds
CASE_WALL_BACKSTOP = float(os.environ.get("VERIF_CASE_WALL", "1500"))      # wall-clock seconds
MAX_HANGS = 2
MAX_CRASHES = 25
_hang = {"fired": False}


def _alarm(signum, frame):
    _hang["fired"] = True
    # keep interrupting if a handler in the runner swallows the exception
    signal.setitimer(signal.ITIMER_PROF, 5)
    raise CaseTimeout()


def guarded_observe(mod, ctx, inp):
    """mod.observe(ctx, inp) under a CPU-time limit; returns (case, hung)."""
    _hang["fired"] = False
    # Every second case runs with DEBUG logging enabled for the library's loggers (records go to a NullHandler), the way an
    # application run with -v has it: whatever the library evaluates only when debugging is on must not change a result.
    _hang["case"] = _hang.get("case", 0) + 1
    lg = logging.getLogger("stingray")
    if not any(isinstance(h, logging.NullHandler) for h in lg.handlers):
        lg.addHandler(logging.NullHandler())
        lg.propagate = False
    lg.setLevel(logging.DEBUG if _hang["case"] % 2 else logging.WARNING)
    # Every few hundred cases: one round of ordinary use of the REST of the library in this process (conversion helpers, name
    # cleaning, sizes, decodes of valid and corrupt packed / zoned / binary fields, a copybook parsed, loaded and read).  Nothing
    # is observed there; what such use leaves behind (the thread's decimal context, a module-level cache) shows in the cases that
    # follow.  A runner opts out with AMBIENT = False (C11 models the process-wide state itself).
    do_ambient = getattr(mod, "AMBIENT", True) and _hang["case"] % 397 == 5
    old_p = signal.signal(signal.SIGPROF, _alarm)
    old_r = signal.signal(signal.SIGALRM, _alarm)
    signal.setitimer(signal.ITIMER_PROF, CASE_TIMEOUT)
    signal.setitimer(signal.ITIMER_REAL, CASE_WALL_BACKSTOP)
    _hang["crash"] = None
    try:
        if do_ambient:
            try:
                import codec_common
                codec_common.ambient_now()
            except (KeyboardInterrupt, SystemExit, MemoryError, CaseTimeout):
                raise
            except BaseException:
                pass
        case = mod.observe(ctx, inp)
    except CaseTimeout:
        case = None
    except (KeyboardInterrupt, SystemExit, MemoryError):
        raise
    except BaseException as ex:       # DesignError derives from BaseException
        # The runner wraps every call that may raise on the unchanged tree (observe_call); an exception that escapes comes from a
        # call that cannot raise there.  It must end in a VIOLATION line with this input as the replay, not in a check that dies.
        import traceback
        tb = traceback.format_exc()
        _hang["crash"] = f"{type(ex).__name__}: {ex}"[:600] + " | " + " <- ".join(
            l.strip() for l in tb.splitlines() if l.strip().startswith("File ") )[-900:]
        case = None
    finally:
        signal.setitimer(signal.ITIMER_PROF, 0)
        signal.setitimer(signal.ITIMER_REAL, 0)
        signal.signal(signal.SIGPROF, old_p)
        signal.signal(signal.SIGALRM, old_r)
    return case, _hang["fired"]


def observe_call(f, conv):
    """Run f(); return (0 conv(value)) or (1 exception-class-code)."""
    try:
        v = f()
    except BaseException as ex:  # DesignError derives from BaseException
        if isinstance(ex, (KeyboardInterrupt, SystemExit, MemoryError, CaseTimeout)):
            raise
        return [1, exn_code(ex)]
    return [0, conv(v)]


# ------------------------------------------------------------------ building


def sh(cmd, timeout=900, cwd=None, env=None):
    p = subprocess.run(cmd, shell=isinstance(cmd, str), cwd=cwd, env=env, timeout=timeout,
                       stdout=subprocess.PIPE, stderr=subprocess.STDOUT, text=True)
    return p.returncode, p.stdout


class BuildLock:
    def __enter__(self):
        os.makedirs(os.path.join(COQ, "build"), exist_ok=True)
        self.f = open(os.path.join(COQ, "build", ".lock"), "w")
        fcntl.flock(self.f, fcntl.LOCK_EX)
        return self

    def __exit__(self, *a):
        fcntl.flock(self.f, fcntl.LOCK_UN)
        self.f.close()


def ensure_makefile():
    """(Re)generate _CoqProject and Makefile from the .v files present."""
    files = []
    for d in sorted(os.listdir(COQ)):
        p = os.path.join(COQ, d)
        if os.path.isdir(p) and d not in ("build",):
            for f in sorted(os.listdir(p)):
                if f.endswith(".v") and not f.startswith("."):
                    files.append(f"{d}/{f}")
    text = "-R . SR\n-arg -w -arg -notation-overridden,-deprecated-hint-without-locality\n" + "\n".join(files) + "\n"
    cp = os.path.join(COQ, "_CoqProject")
    old = open(cp).read() if os.path.exists(cp) else ""
    if old != text or not os.path.exists(os.path.join(COQ, "Makefile")):
        open(cp, "w").write(text)
        rc, out = sh("coq_makefile -f _CoqProject -o Makefile", cwd=COQ)
        if rc:
            raise RuntimeError(out)


def make(targets, timeout=1500):
    ensure_makefile()
    return sh(["timeout", str(timeout), "make", "-j16", "--no-print-directory"] + targets, cwd=COQ, timeout=timeout + 30)


def build_judge(prop):
    """Compile Judge/J<prop>.v + extraction, then the OCaml binary. Returns (ok, log)."""
    os.makedirs(os.path.join(COQ, "build", prop), exist_ok=True)
    rc, out = make([f"Extract/E{prop}.vo"])
    if rc:
        return False, out
    bdir = os.path.join(COQ, "build", prop)
    ml = os.path.join(bdir, "judge.ml")
    exe = os.path.join(bdir, "judge")
    drv = os.path.join(COQ, "Extract", "driver.ml")
    if (not os.path.exists(exe) or os.path.getmtime(exe) < os.path.getmtime(ml)
            or os.path.getmtime(exe) < os.path.getmtime(drv)):
        sh(["cp", drv, os.path.join(bdir, "driver.ml")])
        rc, out2 = sh("ocamlfind ocamlopt -O2 -w -a judge.mli judge.ml driver.ml -o judge 2>&1 | grep -v 'options -O'",
                      cwd=bdir)
        if not os.path.exists(exe) or os.path.getmtime(exe) < os.path.getmtime(ml):
            return False, out + out2
    return True, out


def cone(vfile, seen=None):
    """Transitive SR.* dependencies of a .v file (paths relative to coq/)."""
    seen = set() if seen is None else seen
    if vfile in seen:
        return seen
    seen.add(vfile)
    try:
        text = open(os.path.join(COQ, vfile)).read()
    except OSError:
        return seen
    text = re.sub(r"\(\*.*?\*\)", "", text, flags=re.S)
    for m in re.finditer(r"Require\s+(?:Import\s+|Export\s+)?(.*?)\.\s", text, flags=re.S):
        for name in m.group(1).split():
            if name.startswith("SR."):
                cone(name[3:].replace(".", "/") + ".v", seen)
    return seen


def gen_needed(prop, mod):
    """names of the generated parameter files (coq/Gen/<Name>.v) this property's judge and theorem files depend on: the
    runner's GEN list plus every SR.Gen.* module in the dependency cone of Judge/J<prop>.v, Props/<prop>.v and the companion
    theorem files - so that a model that starts using another generated file needs no bookkeeping in the runners"""
    names = list(getattr(mod, "GEN", []))
    roots = [f"Judge/J{prop}.v", f"Props/{prop}.v"]
    pd = os.path.join(COQ, "Props")
    roots += [f"Props/{f}" for f in sorted(os.listdir(pd)) if re.fullmatch(re.escape(prop) + r"[a-z]\.v", f)
              and not os.path.exists(os.path.join(COQ, "Extract", "E" + f))]
    seen = set()
    for r in roots:
        cone(r, seen)
    for f in sorted(seen):
        if f.startswith("Gen/") and f.endswith(".v"):
            n = f[4:-2]
            if n not in names:
                names.append(n)
    return names


STATEMENT = re.compile(r"^\s*(?:Theorem|Lemma|Corollary|Example|Fact|Proposition|Remark)\s+([A-Za-z0-9_']+)", re.M)
FORBIDDEN = re.compile(r"\b(Admitted|admit|Axiom|Axioms|Parameter|Parameters|Conjecture|Abort|Unset\s+Guard|bypass_check|"
                       r"Admit\s+Obligations|type-in-type|impredicative-set|Unset\s+Positivity|Unset\s+Universe)\b")


def strip_comments(text):
    out, depth, i = [], 0, 0
    while i < len(text):
        if text.startswith("(*", i):
            depth += 1; i += 2
        elif text.startswith("*)", i) and depth:
            depth -= 1; i += 2
        else:
            if not depth:
                out.append(text[i])
            i += 1
    return "".join(out)


def build_props(prop):
    """Build Props/<prop>.vo; returns dict(ok, log, theorems, obligations, discharged, assumptions, forbidden)."""
    res = dict(ok=False, log="", theorems=[], obligations=0, discharged=0, assumptions=[], forbidden=[], files=[])
    pv = f"Props/{prop}.v"
    # companion theorem files of the property: Props/<prop><letter>.v that are not engines of their own (no Extract/E<prop><letter>.v)
    pvs = [pv] + sorted(f"Props/{f}" for f in os.listdir(os.path.join(COQ, "Props"))
                        if re.fullmatch(re.escape(prop) + r"[a-z]\.v", f)
                        and not os.path.exists(os.path.join(COQ, "Extract", "E" + f)))
    files = sorted(set().union(*[cone(x) for x in pvs]))
    res["files"] = files
    for f in files:
        try:
            text = strip_comments(open(os.path.join(COQ, f)).read())
        except OSError:
            continue
        names = STATEMENT.findall(text)
        res["obligations"] += len(names)
        if f in pvs:
            res["theorems"] = res["theorems"] + names
        for m in FORBIDDEN.finditer(text):
            res["forbidden"].append(f"{f}: {m.group(0)}")
        if re.search(r"^\s*(Variable|Hypothesis|Variables|Hypotheses)\b", text, re.M) and not re.search(r"^\s*Section\b", text, re.M):
            res["forbidden"].append(f"{f}: Variable/Hypothesis outside a section")
    rc, out = make([x[:-2] + ".vo" for x in pvs])
    res["log"] = out
    if rc or res["forbidden"]:
        return res
    # re-run coqc on the property files alone to capture Print Assumptions verbatim
    for x in pvs:
        rc, out = sh(["timeout", "600", "coqc", "-R", ".", "SR", "-w", "-notation-overridden", x], cwd=COQ)
        res["log"] += out
        if rc:
            return res
        res["assumptions"] += [ln.strip() for ln in out.splitlines() if ln.strip() and not ln.startswith("Warning")]
    res["ok"] = True
    res["discharged"] = res["obligations"]
    return res


# ------------------------------------------------------------------ judge


def run_judge(prop, lines):
    exe = os.path.join(COQ, "build", prop, "judge")
    env = dict(os.environ, OCAMLRUNPARAM="l=4G,s=32M")
    p = subprocess.run(["bash", "-c", f"ulimit -s unlimited 2>/dev/null; exec {exe}"], input="\n".join(lines) + "\n",
                       stdout=subprocess.PIPE, stderr=subprocess.PIPE, text=True, env=env)
    out = p.stdout.splitlines()
    if p.returncode != 0 or len(out) != len(lines):
        raise RuntimeError(f"judge failed rc={p.returncode} got {len(out)} answers for {len(lines)} cases: {p.stderr[:400]}")
    return out


def coq_crosscheck(prop, lines, answers, chunk=150):
    """Evaluate the same cases inside Coq (vm_compute) and compare with the extracted judge.
    Returns (n_checked, mismatching chunk ids, log)."""
    bdir = os.path.join(COQ, "build", prop)
    bad, log, n = [], "", 0
    procs = []
    for ci in range(0, len(lines), chunk):
        ls, ans = lines[ci:ci + chunk], answers[ci:ci + chunk]
        name = f"cases_{ci // chunk}"
        body = ("From Coq Require Import ZArith List Bool.\nImport ListNotations.\n"
                f"Require Import SR.Base.Sx SR.Judge.J{prop}.\nOpen Scope Z_scope.\n"
                "Definition cases : list sx := [\n  " + ";\n  ".join(sx_coq(sx_parse(l)) for l in ls) + "].\n"
                "Definition expected : list sx := [\n  " + ";\n  ".join(sx_coq(sx_parse(a)) for a in ans) + "].\n"
                "Definition agree : bool := (length cases =? length expected)%nat && "
                f"forallb (fun p => sx_eqb (J{prop}.judge (fst p)) (snd p)) (combine cases expected).\n"
                "Eval vm_compute in agree.\n")
        path = os.path.join(bdir, name + ".v")
        open(path, "w").write(body)
        procs.append((ci // chunk, len(ls), subprocess.Popen(
            ["timeout", "600", "coqc", "-R", COQ, "SR", "-w", "-notation-overridden", path],
            stdout=subprocess.PIPE, stderr=subprocess.STDOUT, text=True, cwd=bdir)))
        if len(procs) >= 8:
            k, cnt, p = procs.pop(0)
            out = p.communicate()[0]
            n += cnt
            if "= true" not in out:
                bad.append(k); log += out[-600:]
    for k, cnt, p in procs:
        out = p.communicate()[0]
        n += cnt
        if "= true" not in out:
            bad.append(k); log += out[-600:]
    for f in os.listdir(bdir):
        if f.startswith("cases_") or f.startswith(".cases_"):
            os.remove(os.path.join(bdir, f))
    return n, bad, log


# ------------------------------------------------------------------ known findings


def load_known(prop):
    out = {}
    # the committed file, plus per-property fragments used while a check is being built
    # (harness/mkmanifest.py folds the fragments into known_findings.json)
    for path in (os.path.join(VERIF, "known_findings.json"), os.path.join(VERIF, "known_findings.d", prop + ".json")):
        try:
            data = json.load(open(path))
        except OSError:
            continue
        for f in data.get("findings", []):
            # an entry belongs to the check <prop> when it names it as property (and no other engine) or as engine
            if (f.get("property") == prop and f.get("engine", prop) == prop) or f.get("engine") == prop:
                out[f["code"]] = f
    return out


# ------------------------------------------------------------------ the check driver


class Check:
    """One run of one property's check."""

    def __init__(self, prop, module, tier, seed, report_id=None):
        self.prop, self.mod, self.tier, self.seed = prop, module, tier, seed
        self.report_id = report_id or prop      # the property id printed in VIOLATION / KNOWN-FINDING lines
        self.rng = random.Random(seed)
        self.t0 = time.time()
        self.violations = []      # (kind, replay_path, text, tail)
        self.known_seen = {}
        self.stats = {}
        self.trusted = []

    # -- step 1+2
    def build(self):
        import translate
        with BuildLock():
            self.gen_notes = translate.regenerate(gen_needed(self.prop, self.mod), SRC)
            ok, log = build_judge(self.prop)
            if not ok:
                print(log[-3000:])
                raise SystemExit(f"ERROR: judge for {self.prop} does not build (model/spec files broken)")
            self.props = build_props(self.prop)
        return self.props

    # -- step 3
    def correspond(self, budget_tier, sample=None, merge=False, deadline=None):
        """sample = n: draw n of the generated inputs at random (order kept); merge: add the counts to those of the previous pass"""
        mod = self.mod
        prev = (self.stats, self.lines, self.answers) if merge else None
        rng = self.rng if sample is None else random.Random(self.seed + 7919)
        ctx = Ctx(self.prop, budget_tier, self.seed, rng)
        inputs = []
        corpus_dir = os.path.join(VERIF, "corpus", self.prop)
        if os.path.isdir(corpus_dir):
            for f in sorted(os.listdir(corpus_dir)):
                if f.endswith(".json"):
                    for inp in json.load(open(os.path.join(corpus_dir, f))):
                        inputs.append(("corpus", inp))
        for stream, inp in mod.inputs(ctx):
            inputs.append((stream, inp))
        if sample is not None and len(inputs) > sample:
            # a random sample in random order, so that stopping at the deadline leaves an unbiased part of it
            inputs = [inputs[i] for i in rng.sample(range(len(inputs)), sample)]
        lines, kept = [], []
        streams = {}
        hangs = []
        crashes = []
        for stream, inp in inputs:
            if deadline is not None and time.time() > deadline:
                break
            case, hung = guarded_observe(mod, ctx, inp)
            if hung:
                hangs.append((stream, inp, "", "", f"the implementation did not return within {CASE_TIMEOUT:.0f}s of CPU time on this input "
                              "(non-termination or a pathological slowdown; the unchanged tree answers every case in a fraction of that)"))
                if len(hangs) >= MAX_HANGS:
                    break
                continue
            if case is None and _hang.get("crash"):
                crashes.append((stream, inp, "", "", "the implementation raised where the unchanged code cannot (the call is not one the runner "
                                "observes for exceptions, so the observation could not be completed): " + _hang["crash"]))
                if len(crashes) >= MAX_CRASHES:
                    break
                continue
            if case is None:
                continue
            lines.append(sx_dump(case)); kept.append((stream, inp))
            streams[stream] = streams.get(stream, 0) + 1
        answers = run_judge(self.prop, lines) if lines else []
        known = load_known(self.prop)
        tally = {"pass": 0, "viol": 0, "known": 0, "corr": 0, "error": 0}
        branches = {}
        distinct = set()
        trivial = set(getattr(mod, "TRIVIAL_BRANCHES", [0]))
        samples = []
        first_viol, first_corr = list(hangs) + list(crashes[:3]), []
        tally["viol"] += len(hangs) + len(crashes)
        for (stream, inp), line, ans in zip(kept, lines, answers):
            a = sx_parse(ans)
            v, br = a[0], a[1] if len(a) > 1 else 0
            branches[br] = branches.get(br, 0) + 1
            if br not in trivial:
                distinct.add(hashlib.blake2b(line.encode(), digest_size=8).digest())
            if v == 0:
                tally["pass"] += 1
            elif v == 2:
                k = a[2]
                if k in known:
                    tally["known"] += 1
                    self.known_seen.setdefault(k, (known[k], inp))
                else:
                    tally["viol"] += 1
                    if len(first_viol) < 5:
                        first_viol.append((stream, inp, line, ans, f"finding code {k} is not listed in known_findings.json"))
            elif v == 1:
                tally["viol"] += 1
                if len(first_viol) < 5:
                    first_viol.append((stream, inp, line, ans, "property predicate false on the implementation's observation"))
            elif v == 3:
                tally["corr"] += 1
                if len(first_corr) < 5:
                    first_corr.append((stream, inp, line, ans, "implementation differs from the model (property predicate still true)"))
            else:
                tally["error"] += 1
                if len(first_corr) < 5:
                    first_corr.append((stream, inp, line, ans, "judge could not evaluate the case"))
            if len(samples) < 4 and br not in trivial and (not samples or stream != samples[-1]["stream"]):
                samples.append({"stream": stream, "input": describe(mod, inp), "case": line[:400], "judge": ans[:200]})
        if not samples and kept:
            samples.append({"stream": kept[0][0], "input": describe(mod, kept[0][1]), "case": lines[0][:400], "judge": answers[0][:200]})
        self.stats = dict(evaluations=len(lines), distinct_nontrivial=len(distinct), streams=streams,
                          branches={str(k): v for k, v in sorted(branches.items())}, tally=tally, samples=samples,
                          exhaustive_streams=sorted(getattr(ctx, "exhaustive", [])))
        self.lines, self.answers = lines, answers
        if prev is not None:
            st0, l0, a0 = prev
            st = self.stats
            st["evaluations"] += st0.get("evaluations", 0)
            st["distinct_nontrivial"] += st0.get("distinct_nontrivial", 0)
            for k, v in st0.get("tally", {}).items():
                st["tally"][k] = st["tally"].get(k, 0) + v
            st["streams"] = dict(st0.get("streams", {}), **{k + " (further search)": v for k, v in st["streams"].items()})
            for k, v in st0.get("branches", {}).items():
                st["branches"][k] = st["branches"].get(k, 0) + v
            st["samples"] = st0.get("samples", []) or st["samples"]
            st["exhaustive_streams"] = st0.get("exhaustive_streams", [])
            self.lines, self.answers = l0 + lines, a0 + answers
        return first_viol, first_corr

    def write_replay(self, name, payload):
        os.makedirs(os.path.join(VERIF, "replays"), exist_ok=True)
        path = os.path.join(VERIF, "replays", name)
        json.dump(payload, open(path, "w"), indent=1, default=str)
        return path

    def run(self):
        props = self.build()
        proof_broken = not props["ok"]
        budget = self.tier if not proof_broken else "thorough"
        self.stats, self.lines, self.answers = {}, [], []
        first_viol, first_corr = self.correspond(budget)
        # The library's code differs from the tree this machinery was validated against and the usual budget found nothing:
        # search further - a random sample (three times the usual number of cases) of the THOROUGH tier's inputs, other seed.
        self.changed_modules = source_changed()
        if os.environ.get("VERIF_FORCE_ESCALATION"):        # self-test of the further search on an unchanged tree
            self.changed_modules = self.changed_modules or ["(forced)"]
        self.escalated = 0
        if budget == "quick" and self.changed_modules and not first_viol and not first_corr and not os.environ.get("VERIF_NO_ESCALATION"):
            n0 = self.stats.get("evaluations", 0)
            spent = time.time() - self.t0
            first_viol, first_corr = self.correspond("thorough", sample=max(3 * n0, 300), merge=True,
                                                     deadline=time.time() + max(45.0, 1.5 * spent))
            self.escalated = self.stats.get("evaluations", 0) - n0
        out = []
        # known findings
        for k, (f, inp) in sorted(self.known_seen.items()):
            out.append(f"KNOWN-FINDING: property={self.report_id} {f['id']} {f['what']}")
        n = 0
        for stream, inp, line, ans, why in first_viol[:3]:
            n += 1
            path = self.write_replay(f"{self.prop}_viol_{n}.json", dict(
                property=self.prop, kind="failing-input", why=why, stream=stream, input=inp,
                describe=describe(self.mod, inp), case=line, judge=ans,
                replay=f"./check {self.prop} --replay replays/{self.prop}_viol_{n}.json"))
            out.append(f"VIOLATION property={self.report_id} replay={path}")
        if not first_viol and proof_broken:
            why = ("forbidden construct: " + "; ".join(props["forbidden"])) if props["forbidden"] else "theorem file no longer compiles"
            path = self.write_replay(f"{self.prop}_proof.json", dict(
                property=self.prop, kind="proof-broken", why=why, theorem_file=f"coq/Props/{self.prop}.v",
                theorems=props["theorems"], gen=self.gen_notes, log=props["log"][-4000:],
                searched=self.stats.get("evaluations", 0)))
            out.append(f"VIOLATION property={self.report_id} replay={path} no-failing-input-found")
        if not first_viol and not proof_broken and first_corr:
            stream, inp, line, ans, why = first_corr[0]
            path = self.write_replay(f"{self.prop}_corr.json", dict(
                property=self.prop, kind="correspondence-broken", why=why,
                relation=f"coq/Judge/J{self.prop}.v: observation = model output", stream=stream, input=inp,
                describe=describe(self.mod, inp), case=line, judge=ans, differing_cases=self.stats["tally"]["corr"] + self.stats["tally"]["error"]))
            out.append(f"VIOLATION property={self.report_id} replay={path} no-failing-input-found")
        # cross-check extraction against vm_compute on a sample
        xn, xbad = 0, []
        if self.lines:
            k = 150 if self.tier == "quick" else 1500
            # cases whose wire form is very long (a whole 40 KB file image) are left to the extracted judge: as a Coq literal
            # they cost minutes and gigabytes in coqc
            pool = [i for i in range(len(self.lines)) if len(self.lines[i]) <= 60000] or list(range(len(self.lines)))
            idx = sorted(self.rng.sample(pool, min(k, len(pool))))
            with BuildLock():
                xn, xbad, xlog = coq_crosscheck(self.prop, [self.lines[i] for i in idx], [self.answers[i] for i in idx])
            if xbad:
                path = self.write_replay(f"{self.prop}_extraction.json", dict(property=self.prop, kind="extraction-mismatch", log=xlog))
                out.append(f"VIOLATION property={self.report_id} replay={path} no-failing-input-found")
        # thorough tier: independent re-check of the compiled theorem file and everything it depends on
        self.coqchk = None
        if self.tier == "thorough" and props["ok"]:
            with BuildLock():
                rc, cout = sh(["timeout", "1500", "coqchk", "-silent", "-o", "-R", ".", "SR", f"SR.Props.{self.prop}"], cwd=COQ, timeout=1600)
            summary = cout[cout.find("CONTEXT SUMMARY"):] if "CONTEXT SUMMARY" in cout else cout[-1500:]
            self.coqchk = dict(exit=rc, summary=" ".join(summary.split())[:1500])
            if rc != 0 or "Axioms: <none>" not in " ".join(summary.split()):
                path = self.write_replay(f"{self.prop}_coqchk.json", dict(property=self.prop, kind="coqchk", output=cout[-3000:]))
                out.append(f"VIOLATION property={self.report_id} replay={path} no-failing-input-found")
        self.write_evidence(props, proof_broken, xn, len([o for o in out if o.startswith("VIOLATION")]))
        for o in out:
            print(o)
        t = self.stats["tally"]
        print(f"{self.prop} {self.tier}: proof={'ok' if props['ok'] else 'BROKEN'} theorems={len(props['theorems'])} "
              f"obligations={props['discharged']}/{props['obligations']} cases={self.stats['evaluations']} "
              f"pass={t['pass']} known={t['known']} viol={t['viol']} corr={t['corr']} crosschecked={xn} wall={time.time()-self.t0:.1f}s")
        return 1 if any(o.startswith("VIOLATION") for o in out) else 0

    def write_evidence(self, props, proof_broken, xn, nviol):
        mod = self.mod
        trusted = [
            "Coq 8.16.1 kernel incl. vm_compute conversion; no native_compute",
            "Print Assumptions: " + ("; ".join(dict.fromkeys(props["assumptions"])) or "(theorem file did not compile)"),
            "extraction with ExtrOcamlBasic only (bool, option, unit, list, prod, sumbool, sumor, andb, orb); Z/N/positive/nat kept as extracted inductives; OCaml 4.13.1; coq/Extract/driver.ml",
            f"vm_compute cross-check of {xn} sampled cases against the extracted judge",
            ("coqchk -o: " + json.dumps(self.coqchk)) if getattr(self, "coqchk", None) else "coqchk -o runs in the thorough tier only",
            "translator harness/translate.py: " + json.dumps(self.gen_notes),
            "harness: generators and canonicalisation in harness/" + self.prop.lower() + ".py",
        ] + list(getattr(mod, "TRUSTED", []))
        cov = dict(
            obligations=props["obligations"], discharged=props["discharged"] if props["ok"] else 0,
            checker_cmd=f"make -C coq Props/{self.prop}.vo && coqc -R coq SR coq/Props/{self.prop}.v (Print Assumptions)",
            trusted_base=trusted, theorems=props["theorems"], proof_files=props["files"],
            evaluations=max(self.stats.get("evaluations", 0), 1), distinct_nontrivial=self.stats.get("distinct_nontrivial", 0),
            rule=getattr(mod, "RULE", ""), samples=self.stats.get("samples", []),
            streams=self.stats.get("streams", {}), model_branches=self.stats.get("branches", {}),
            verdicts=self.stats.get("tally", {}), exhaustive=bool(self.stats.get("exhaustive_streams")),
            exhaustive_streams=self.stats.get("exhaustive_streams", []),
            known_findings_seen=[f["id"] for _, (f, _) in sorted(self.known_seen.items())],
            proof_broken=proof_broken,
            source_modules_changed=getattr(self, "changed_modules", []),
            further_search_cases=getattr(self, "escalated", 0),
        )
        if proof_broken:
            # a broken proof discharges nothing: drop the proof-level keys so the generic counts apply
            cov["obligations_attempted"] = cov.pop("obligations")
            cov.pop("discharged")
        ev = dict(property_id=self.report_id, tier=self.tier, seed=self.seed, level="proof", coverage=cov,
                  assumptions=list(getattr(mod, "ASSUMPTIONS", [])), wall_s=round(time.time() - self.t0, 2), violations=nviol)
        self.evidence = ev
        if self.report_id == self.prop:
            os.makedirs(os.path.join(VERIF, "evidence"), exist_ok=True)
            json.dump(ev, open(os.path.join(VERIF, "evidence", f"{self.prop}.json"), "w"), indent=1, default=str)

    def replay(self, path):
        data = json.load(open(path))
        if data.get("kind") != "failing-input" and "input" not in data:
            print(json.dumps({k: data[k] for k in data if k != "log"}, indent=1)[:3000])
            props = self.build()
            print("theorem file builds now:", props["ok"])
            return 0 if props["ok"] else 1
        with BuildLock():
            import translate
            translate.regenerate(gen_needed(self.prop, self.mod), SRC)
            ok, log = build_judge(self.prop)
        ctx = Ctx(self.prop, "quick", self.seed, self.rng)
        case, hung = guarded_observe(self.mod, ctx, data["input"])
        if hung:
            print("input   :", describe(self.mod, data["input"]))
            print(f"verdict : VIOLATION (the implementation did not return within {CASE_TIMEOUT:.0f}s of CPU time)")
            return 1
        if case is None and _hang.get("crash"):
            print("input   :", describe(self.mod, data["input"]))
            print("verdict : VIOLATION (the implementation raised where the unchanged code cannot):", _hang["crash"])
            return 1
        line = sx_dump(case)
        ans = run_judge(self.prop, [line])[0]
        print("input   :", describe(self.mod, data["input"]))
        print("case    :", line[:2000])
        print("judge   :", ans[:2000])
        v = sx_parse(ans)[0]
        print("verdict :", {0: "PASS", 1: "VIOLATION", 2: "KNOWN", 3: "CORRESPONDENCE"}.get(v, "ERROR"))
        return 1 if v in (1, 3, 9) else 0


class Ctx:
    def __init__(self, prop, tier, seed, rng):
        self.prop, self.tier, self.seed, self.rng = prop, tier, seed, rng
        self.exhaustive = []
        self.repo, self.src = REPO, SRC


def describe(mod, inp):
    f = getattr(mod, "describe", None)
    try:
        return f(inp) if f else inp
    except Exception:
        return inp


def setup():
    """MANIFEST.setup_cmd: regenerate Gen, build every .v file and every judge binary."""
    sys.path.insert(0, os.path.join(VERIF, "harness"))
    import translate
    t0 = time.time()
    with BuildLock():
        print("translate:", translate.regenerate(list(translate.all_generators()), SRC))
        bad = []
        for root, _, files in os.walk(COQ):
            if "/build" in root:
                continue
            for f in files:
                if f.endswith(".v"):
                    text = strip_comments(open(os.path.join(root, f)).read())
                    for m in FORBIDDEN.finditer(text):
                        bad.append(f"{root}/{f}: {m.group(0)}")
        if bad:
            print("forbidden constructs:", bad)
            return 1
        for f in sorted(os.listdir(os.path.join(COQ, "Extract"))):
            if f.startswith("E") and f.endswith(".v"):
                os.makedirs(os.path.join(COQ, "build", f[1:-2]), exist_ok=True)
        rc, out = make(["all"], timeout=3000)
        print(out[-3000:])
        if rc:
            return 1
        for f in sorted(os.listdir(os.path.join(COQ, "Extract"))):
            if f.startswith("E") and f.endswith(".v"):
                ok, log = build_judge(f[1:-2])
                print("judge", f[1:-2], "ok" if ok else "FAILED")
                if not ok:
                    print(log[-2000:])
                    return 1
    print(f"setup done in {time.time()-t0:.0f}s")
    return 0


def main(argv):
    import argparse
    import importlib
    if argv and argv[0] == "--setup":
        return setup()
    if argv and argv[0] == "--pin-source":
        json.dump(source_fingerprint(SRC), open(FINGERPRINT_FILE, "w"), indent=1)
        print("pinned", FINGERPRINT_FILE)
        return 0
    if len(argv) >= 2 and argv[1] == "--build":
        # build one property's judge and theorem file under the build lock; print errors
        sys.path.insert(0, os.path.join(VERIF, "harness"))
        import translate
        mod = importlib.import_module(argv[0].lower())
        with BuildLock():
            print("translate:", translate.regenerate(gen_needed(argv[0], mod), SRC))
            ok, log = build_judge(argv[0])
            print("judge:", "ok" if ok else "FAILED\n" + log[-4000:])
            pr = build_props(argv[0])
            print("props:", "ok" if pr["ok"] else "FAILED\n" + pr["log"][-4000:], pr["forbidden"])
            print("theorems:", pr["theorems"], "obligations:", pr["obligations"])
            for a in pr["assumptions"]:
                print("  ", a)
        return 0 if ok and pr["ok"] else 1
    ap = argparse.ArgumentParser()
    ap.add_argument("prop")
    ap.add_argument("--tier", default=os.environ.get("VERIF_TIER", "quick"))
    ap.add_argument("--replay")
    a = ap.parse_args(argv)
    seed = int(os.environ.get("VERIF_SEED", "20260929"))
    sys.path.insert(0, SRC)
    sys.path.insert(0, os.path.join(VERIF, "harness"))
    mod = importlib.import_module(a.prop.lower())
    tier = a.tier if a.tier in ("quick", "thorough") else "quick"
    chk = Check(a.prop, mod, tier, seed)
    if a.replay:
        # a replay file names the engine that produced it (C12b_viol_1.json -> engine C12b)
        eng = os.path.basename(a.replay).split("_")[0]
        if eng != a.prop and eng in getattr(mod, "ALSO", []):
            return Check(eng, importlib.import_module(eng.lower()), tier, seed, report_id=a.prop).replay(a.replay)
        return chk.replay(a.replay)
    rc = chk.run()
    # further engines deciding the same property (each its own model, theorems and judge); one evidence file
    subs = {}
    for eng in getattr(mod, "ALSO", []):
        sub = Check(eng, importlib.import_module(eng.lower()), tier, seed, report_id=a.prop)
        rc = max(rc, sub.run())
        subs[eng] = sub.evidence
    if subs:
        ev = chk.evidence
        cov = ev["coverage"]
        cov["engines"] = {a.prop: dict(obligations=cov.get("obligations"), discharged=cov.get("discharged"), evaluations=cov["evaluations"])}
        for eng, e in subs.items():
            c2 = e["coverage"]
            cov["engines"][eng] = {k: c2.get(k) for k in ("obligations", "discharged", "evaluations", "distinct_nontrivial", "theorems", "proof_files",
                                                          "streams", "verdicts", "rule", "samples", "known_findings_seen", "proof_broken", "exhaustive_streams")}
            for k in ("obligations", "discharged"):
                if k in cov and k in c2:
                    cov[k] += c2[k]
                else:
                    cov.pop(k, None)
            cov["evaluations"] += c2["evaluations"]
            cov["distinct_nontrivial"] += c2["distinct_nontrivial"]
            cov["theorems"] = cov.get("theorems", []) + c2.get("theorems", [])
            cov["trusted_base"] = cov["trusted_base"] + [f"[{eng}] " + t for t in c2.get("trusted_base", [])]
            cov["known_findings_seen"] = cov.get("known_findings_seen", []) + c2.get("known_findings_seen", [])
            ev["assumptions"] = ev.get("assumptions", []) + [f"[{eng}] " + x for x in e.get("assumptions", [])]
            ev["violations"] = ev.get("violations", 0) + e.get("violations", 0)
            ev["wall_s"] = round(ev["wall_s"] + e["wall_s"], 2)
        json.dump(ev, open(os.path.join(VERIF, "evidence", f"{a.prop}.json"), "w"), indent=1, default=str)
    return rc


if __name__ == "__main__":
    sys.exit(main(sys.argv[1:]))
