"""T1 plug-in for the layout model (C01, C06, C10; also in the cone of C08, C11, C13): Gen/LayoutParams.v.

Reads src/stingray/schema_instance.py (and one method of workbook.py) with `ast` and states, in the vocabulary of coq/Model/LayoutRule.v, the rules by
which a Location tree is built and navigated:

  Location.__init__                 what start / end / size a location stores for the (start, end) it is given
  the subclasses' __init__          which constructor argument becomes item_size / item_count / start / end; the size
                                    ObjectLocation.__init__ stores afterwards (sum over the properties)
  LocationMaker.walk                the order of the cases of `match schema`; per case the start handed to the recursive
                                    walk, the arguments of the Location constructor, where the item count comes from,
                                    how the running offset of an object advances, the aggregate over the alternatives
                                    of a oneOf, the end a $ref placeholder gets, the two $anchor registrations; in the
                                    DependsOnArraySchema case the two guards  if not hasattr(self, 'instance'): raise ValueError
                                    and  if <item count> < 0: raise ValueError  (present / absent; odo_requires_instance,
                                    odo_negative_refused; any other test there: Unrecognised)
  from_instance / from_schema       the default start and the start handed to walk
  NDNav.name / index / raw          .referent, the comparisons that refuse an index (with item_count, with a constant), the start
                                    of the re-walk, the slice
  workbook.COBOL_EBCDIC_Sheet.set_schema   which exceptions of from_schema() are caught, and the lrecl kept then
  <Location class>.value            the slice an atom decodes, the offsets and the count of an array's occurrences, the offset
                                    handed on by an object / a oneOf (and which alternative it evaluates) / a $ref

Every integer expression is evaluated SYMBOLICALLY: local names are resolved through the straight-line assignments of the
block, the result is a polynomial over the named quantities of LayoutRule.lvar, printed in one canonical form.  Renaming
locals, reordering independent statements, introducing or removing temporaries, commuting operands therefore give the
same text.  Anything that is not one of the shapes listed in the functions below raises Unrecognised: the committed
Gen/LayoutParams.pinned is then used and the run relies on the correspondence check.  Nothing is guessed.
"""
import ast

from translate import Unrecognised, _parse

# ---------------------------------------------------------------------------------------------- polynomials

VARS = ["VStart", "VBaseStart", "VLocStart", "VOffset", "VEnd", "VLocEnd", "VValOffset", "VCalc", "VSubSize", "VIter", "VItemSize",
        "VAgg", "VCount", "VItemCount", "VIndex"]  # the order of LayoutRule.lvar; also the canonical order of printing
MAX_CONST = 4096


def pconst(n):
    return {(): n} if n else {}


def pvar(name):
    return {(VARS.index(name),): 1}


def padd(a, b, sign=1):
    out = dict(a)
    for k, c in b.items():
        out[k] = out.get(k, 0) + sign * c
        if out[k] == 0:
            del out[k]
    return out


def pmul(a, b):
    out = {}
    for k1, c1 in a.items():
        for k2, c2 in b.items():
            k = tuple(sorted(k1 + k2))
            out[k] = out.get(k, 0) + c1 * c2
            if out[k] == 0:
                del out[k]
    return out


def pvars(p):
    return {VARS[i] for k in p for i in k}


def _term(k, c):
    fs = ([f"ENat {c}"] if (c != 1 or not k) else []) + [f"EVar {VARS[i]}" for i in k]
    out = fs[0]
    for f in fs[1:]:
        out = f"EMul ({out}) ({f})"
    return out


def _sum(ts):
    out = ts[0]
    for t in ts[1:]:
        out = f"EAdd ({out}) ({t})"
    return out


def emit(p):
    """canonical lexpr text: (sum of the positive monomials) - (sum of the negative ones); variables before the constant"""
    for k, c in p.items():
        if abs(c) > MAX_CONST or len(k) > 3:
            raise Unrecognised("coefficient or degree out of range")
    order = sorted(p, key=lambda k: (len(k) == 0, k))
    pos = [_term(k, p[k]) for k in order if p[k] > 0]
    neg = [_term(k, -p[k]) for k in order if p[k] < 0]
    text = _sum(pos) if pos else "ENat 0"
    if neg:
        text = f"ESub ({text}) ({_sum(neg)})"
    return text


# ---------------------------------------------------------------------------------------------- symbolic values
# ("int", poly) | ("loc", {attr: poly}) | (tag,) for the opaque things the blocks pass around


def I(p):
    return ("int", p)


def is_int(v):
    return isinstance(v, tuple) and v and v[0] == "int"


class _StripCast(ast.NodeTransformer):
    """typing.cast(T, x) is x"""

    def visit_Call(self, node):
        self.generic_visit(node)
        if isinstance(node.func, ast.Name) and node.func.id == "cast" and len(node.args) == 2 and not node.keywords:
            return node.args[1]
        return node


def _body(fn):
    """statements of a function without the docstring and without bare annotations (x: T)"""
    out = []
    for i, st in enumerate(fn.body):
        if i == 0 and isinstance(st, ast.Expr) and isinstance(st.value, ast.Constant) and isinstance(st.value.value, str):
            continue
        if isinstance(st, ast.AnnAssign) and st.value is None:
            continue
        out.append(st)
    return out


def _params(fn):
    """[(name, default node or None)] of the positional parameters after self; nothing else allowed"""
    a = fn.args
    if a.vararg or a.kwarg or a.kwonlyargs or a.posonlyargs:
        raise Unrecognised(f"{fn.name}: unusual signature")
    names = [x.arg for x in a.args]
    if not names or names[0] not in ("self", "cls"):
        raise Unrecognised(f"{fn.name}: no self")
    defaults = [None] * (len(names) - len(a.defaults)) + list(a.defaults)
    return list(zip(names, defaults))[1:]


def _is_self(n, attr=None):
    if attr is None:
        return isinstance(n, ast.Name) and n.id == "self"
    return isinstance(n, ast.Attribute) and n.attr == attr and _is_self(n.value)


def _const_int(n, what):
    if isinstance(n, ast.Constant) and type(n.value) is int and 0 <= n.value <= MAX_CONST:
        return n.value
    raise Unrecognised(f"{what}: not a small non-negative integer literal")


def _is_logger(st):
    return (isinstance(st, ast.Expr) and isinstance(st.value, ast.Call) and isinstance(st.value.func, ast.Attribute)
            and isinstance(st.value.func.value, ast.Name) and st.value.func.value.id == "logger"
            and st.value.func.attr in ("debug", "info", "warning", "error"))


def _raises(stmts, exc):
    """the block is exactly `raise exc` / `raise exc(...)`"""
    if len(stmts) != 1 or not isinstance(stmts[0], ast.Raise) or stmts[0].cause is not None:
        return False
    e = stmts[0].exc
    if isinstance(e, ast.Call):
        e = e.func
    return isinstance(e, ast.Name) and e.id == exc


class Block:
    """Symbolic execution of one straight-line block of LocationMaker / NDNav code."""

    LOC_CLASSES = ("AtomicLocation", "ArrayLocation", "ObjectLocation", "OneOfLocation", "RefToLocation")

    def __init__(self, where, env, schema_name=None):
        self.where = where
        self.env = dict(env)
        self.schema_name = schema_name
        self.walks = []            # (what was walked, start polynomial)
        self.ctor = None           # (class name, [values], {keyword: value})
        self.locvar = None
        self.agg = None
        self.count_src = None
        self.flags = set()
        self.obj = None            # facts of the object loop

    def fail(self, msg):
        raise Unrecognised(f"{self.where}: {msg}")

    # ---- expressions
    def is_schema(self, n):
        return isinstance(n, ast.Name) and self.env.get(n.id) == ("schema",)

    def value(self, n):
        """symbolic value of an expression"""
        if isinstance(n, ast.Constant):
            if type(n.value) is int and 0 <= n.value <= MAX_CONST:
                return I(pconst(n.value))
            self.fail(f"constant {n.value!r}")
        if isinstance(n, ast.Name):
            if n.id in self.env:
                return self.env[n.id]
            self.fail(f"name {n.id} has no known value")
        if isinstance(n, ast.BinOp) and isinstance(n.op, (ast.Add, ast.Sub, ast.Mult)):
            a, b = self.value(n.left), self.value(n.right)
            if not (is_int(a) and is_int(b)):
                self.fail(f"arithmetic on a non-integer: {ast.unparse(n)}")
            if isinstance(n.op, ast.Add):
                return I(padd(a[1], b[1]))
            if isinstance(n.op, ast.Sub):
                return I(padd(a[1], b[1], -1))
            return I(pmul(a[1], b[1]))
        if isinstance(n, ast.Attribute):
            if _is_self(n, "anchors"):
                return ("anchors",)
            if _is_self(n, "instance"):
                return ("instance",)
            if _is_self(n, "unpacker"):
                return ("unpacker",)
            if _is_self(n.value) and ("self." + n.attr) in self.env:
                return self.env["self." + n.attr]
            # alt_locs[0].size / alt_locs[-1].size
            if n.attr == "size" and isinstance(n.value, ast.Subscript) and isinstance(n.value.value, ast.Name) \
                    and self.env.get(n.value.value.id) == ("loclist", True):
                i = n.value.slice
                if isinstance(i, ast.Constant) and type(i.value) is int and i.value == 0:
                    return self.set_agg("AggFirst")
                if isinstance(i, ast.UnaryOp) and isinstance(i.op, ast.USub) and isinstance(i.operand, ast.Constant) \
                        and type(i.operand.value) is int and i.operand.value == 1:
                    return self.set_agg("AggLast")
                self.fail(f"subscript {ast.unparse(n.value)}")
            base = self.value(n.value) if not _is_self(n.value) else None
            if base is not None and base[0] == "loc":
                if n.attr in base[1]:
                    return I(base[1][n.attr])
                self.fail(f"attribute .{n.attr} of a location")
            if base == ("schema",) and n.attr == "items":
                return ("items-schema",)
            if base == ("schema",) and n.attr in ("max_ref", "ref"):
                return ("uri",)
            self.fail(f"attribute {ast.unparse(n)}")
        if isinstance(n, ast.Call):
            return self.call(n)
        if isinstance(n, ast.Subscript):
            self.fail(f"subscript {ast.unparse(n)}")
        if isinstance(n, (ast.Dict,)) and not n.keys:
            return ("dict",)
        if isinstance(n, ast.List) and not n.elts:
            return ("loclist", False)
        if isinstance(n, ast.ListComp):
            return self.alt_comprehension(n)
        self.fail(f"expression {ast.unparse(n)}")

    def integer(self, n, allowed=None):
        v = self.value(n)
        if not is_int(v):
            self.fail(f"not an integer expression: {ast.unparse(n)}")
        if allowed is not None and not pvars(v[1]) <= set(allowed):
            self.fail(f"{ast.unparse(n)} uses {sorted(pvars(v[1]) - set(allowed))}, not in scope of the model at this place")
        return v[1]

    def walk_call(self, n):
        """self.walk(<schema part>, <start>) -> what, start polynomial; None if n is not such a call"""
        if not (isinstance(n, ast.Call) and _is_self(n.func, "walk")):
            return None
        if len(n.args) != 2 or n.keywords:
            self.fail("self.walk is not called with two positional arguments")
        what = self.value(n.args[0])
        if what not in (("items-schema",), ("prop-schema",), ("alt-schema",)):
            self.fail(f"self.walk of {ast.unparse(n.args[0])}")
        return what[0], self.integer(n.args[1])

    def alt_comprehension(self, n):
        """[self.walk(a, <start>) for a in schema.alternatives]"""
        if len(n.generators) != 1:
            self.fail("comprehension with several generators")
        g = n.generators[0]
        if g.ifs or g.is_async or not isinstance(g.target, ast.Name):
            self.fail("comprehension with a filter")
        if not (isinstance(g.iter, ast.Attribute) and g.iter.attr == "alternatives" and self.is_schema(g.iter.value)):
            self.fail(f"comprehension over {ast.unparse(g.iter)}")
        saved = self.env.get(g.target.id)
        self.env[g.target.id] = ("alt-schema",)
        w = self.walk_call(n.elt)
        if saved is None:
            del self.env[g.target.id]
        else:
            self.env[g.target.id] = saved
        if w is None:
            self.fail("comprehension element is not self.walk(...)")
        self.walks.append(w)
        return ("loclist", True)

    def set_agg(self, g):
        if self.agg not in (None, g):
            self.fail("two different aggregates")
        self.agg = g
        return I(pvar("VAgg"))

    def call(self, n):
        f = n.func
        # self.size(schema)
        if _is_self(f, "size") and len(n.args) == 1 and not n.keywords and self.is_schema(n.args[0]):
            self.flags.add("calcsize")
            return I(pvar("VCalc"))
        # max / min / sum over the sizes of the alternatives
        if isinstance(f, ast.Name) and f.id in ("max", "min", "sum") and len(n.args) == 1 and not n.keywords \
                and isinstance(n.args[0], (ast.GeneratorExp, ast.ListComp)):
            c = n.args[0]
            if len(c.generators) == 1 and not c.generators[0].ifs and isinstance(c.generators[0].target, ast.Name) \
                    and isinstance(c.generators[0].iter, ast.Name) and self.env.get(c.generators[0].iter.id) == ("loclist", True) \
                    and isinstance(c.elt, ast.Attribute) and c.elt.attr == "size" and isinstance(c.elt.value, ast.Name) \
                    and c.elt.value.id == c.generators[0].target.id:
                return self.set_agg({"max": "AggMax", "min": "AggMin", "sum": "AggSum"}[f.id])
            self.fail(f"aggregate {ast.unparse(n)}")
        # int(...)
        if isinstance(f, ast.Name) and f.id == "int" and len(n.args) == 1 and not n.keywords:
            a = n.args[0]
            # int(self.anchors[<name after '#'>].value(self.instance))
            if (isinstance(a, ast.Call) and isinstance(a.func, ast.Attribute) and a.func.attr == "value"
                    and len(a.args) == 1 and not a.keywords and _is_self(a.args[0], "instance")
                    and isinstance(a.func.value, ast.Subscript) and _is_self(a.func.value.value, "anchors")
                    and self.value(a.func.value.slice) == ("fragment",)):
                self.count_src = "CsAnchorValue"
                return I(pvar("VCount"))
            # int(schema.attributes.get('maxItems', schema.attributes.get('minItems', 0)))
            s = self.schema_name
            if s and ast.unparse(a) == f"{s}.attributes.get('maxItems', {s}.attributes.get('minItems', 0))":
                self.count_src = "CsAttrMaxItems"
                return I(pvar("VCount"))
            self.fail(f"item count {ast.unparse(n)}")
        # <uri>.partition('#')
        if isinstance(f, ast.Attribute) and f.attr == "partition" and len(n.args) == 1 and not n.keywords \
                and isinstance(n.args[0], ast.Constant) and n.args[0].value == "#" and self.value(f.value) == ("uri",):
            return ("partition",)
        # a recursive walk
        w = self.walk_call(n)
        if w is not None:
            self.walks.append(w)
            return ("loc", {"size": pvar("VSubSize")})
        # a Location constructor
        if isinstance(f, ast.Name) and f.id in self.LOC_CLASSES:
            if self.ctor is not None:
                self.fail("two Location constructors")
            self.ctor = (f.id, [self.value(a) for a in n.args], {k.arg: self.value(k.value) for k in n.keywords})
            if None in self.ctor[2]:
                self.fail("** in a constructor call")
            return ("result",)
        self.fail(f"call {ast.unparse(n)}")

    # ---- statements
    def decoration(self, st):
        """X.unpacker = self.unpacker / X.locationMaker = ref(self): bookkeeping the model does not have"""
        if not (isinstance(st, ast.Assign) and len(st.targets) == 1 and isinstance(st.targets[0], ast.Attribute)
                and isinstance(st.targets[0].value, ast.Name)):
            return False
        t = st.targets[0]
        holder = self.env.get(t.value.id)
        if holder is None or holder[0] not in ("loc", "result", "alt-loc"):
            return False
        if t.attr == "unpacker" and _is_self(st.value, "unpacker"):
            return True
        if t.attr == "locationMaker" and ast.unparse(st.value) == "ref(self)":
            return True
        return False

    def anchor_registration(self, st, of):
        """if name := <of>._attributes.get('$anchor'): self.anchors[name] = <loc>   -> the name of <loc>, else None"""
        if not (isinstance(st, ast.If) and not st.orelse and isinstance(st.test, ast.NamedExpr) and len(st.body) == 1):
            return None
        t, b = st.test, st.body[0]
        if ast.unparse(t.value) != f"{of}._attributes.get('$anchor')":
            return None
        if not (isinstance(b, ast.Assign) and len(b.targets) == 1 and isinstance(b.targets[0], ast.Subscript)
                and _is_self(b.targets[0].value, "anchors") and isinstance(b.targets[0].slice, ast.Name)
                and b.targets[0].slice.id == t.target.id and isinstance(b.value, ast.Name)):
            return None
        return b.value.id

    def assign(self, name, value):
        if value == ("result",):
            if self.locvar not in (None, name):
                self.fail("the location is assigned to two names")
            self.locvar = name
        self.env[name] = value

    def statement(self, st):
        if _is_logger(st) or self.decoration(st):
            return
        if isinstance(st, ast.AnnAssign) and st.value is not None and isinstance(st.target, ast.Name):
            return self.assign(st.target.id, self.value(st.value))
        if isinstance(st, ast.Assign) and len(st.targets) == 1:
            t = st.targets[0]
            if isinstance(t, ast.Name):
                return self.assign(t.id, self.value(st.value))
            # _, _, name = <uri>.partition('#')
            if isinstance(t, ast.Tuple) and len(t.elts) == 3 and all(isinstance(e, ast.Name) for e in t.elts) \
                    and self.value(st.value) == ("partition",):
                if len({e.id for e in t.elts[:2]} | {t.elts[2].id}) < 2 or t.elts[2].id in (t.elts[0].id, t.elts[1].id):
                    self.fail("partition result unpacked into the same name")
                self.env[t.elts[2].id] = ("fragment",)
                for e in t.elts[:2]:
                    self.env[e.id] = ("ignored",)
                return
        if isinstance(st, ast.AugAssign) and isinstance(st.target, ast.Name) and isinstance(st.op, (ast.Add, ast.Sub, ast.Mult)):
            return self.assign(st.target.id, self.value(ast.BinOp(left=ast.Name(id=st.target.id, ctx=ast.Load()), op=st.op, right=st.value)))
        self.special(st)

    def special(self, st):
        self.fail(f"statement {ast.unparse(st).splitlines()[0]!r}")

    def run(self, stmts):
        for st in stmts:
            self.statement(st)
        return self


# ---------------------------------------------------------------------------------------------- the walk cases


class ArrayBlock(Block):
    def special(self, st):
        s = self.schema_name
        if isinstance(st, ast.Assert) and ast.unparse(st.test) == f"'maxItems' in {s}.attributes or 'minItems' in {s}.attributes":
            self.flags.add("asserts")
            return
        if isinstance(st, ast.If) and not st.orelse and ast.unparse(st.test) == "not hasattr(self, 'instance')" \
                and _raises(st.body, "ValueError"):
            if self.walks or self.count_src:
                self.fail("the instance check does not come first")
            self.flags.add("requires-instance")
            return
        # if <the item count> < 0: raise ValueError(...)   - after the count has been read from the instance, before the items
        # are walked (fix: a negative OCCURS DEPENDING ON counter is refused).  Nothing but this comparison with this constant is
        # recognised: any other test on the count leaves the extractor (Unrecognised -> the pinned file).
        if isinstance(st, ast.If) and not st.orelse and isinstance(st.test, ast.Compare) and len(st.test.ops) == 1 \
                and isinstance(st.test.ops[0], ast.Lt) and len(st.test.comparators) == 1 \
                and isinstance(st.test.comparators[0], ast.Constant) and type(st.test.comparators[0].value) is int \
                and st.test.comparators[0].value == 0 and isinstance(st.test.left, ast.Name) \
                and self.env.get(st.test.left.id) == I(pvar("VCount")) and _raises(st.body, "ValueError"):
            if self.count_src != "CsAnchorValue":
                self.fail("a sign test on a count that is not read from the instance")
            if self.walks or self.ctor is not None:
                self.fail("the sign test on the count does not come before the walk of the items")
            if "negative-refused" in self.flags:
                self.fail("two sign tests on the count")
            self.flags.add("negative-refused")
            return
        Block.special(self, st)


class ObjectBlock(Block):
    def special(self, st):
        s = self.schema_name
        if isinstance(st, ast.For) and not st.orelse and ast.unparse(st.iter) == f"{s}.properties.items()" \
                and isinstance(st.target, ast.Tuple) and len(st.target.elts) == 2 \
                and all(isinstance(e, ast.Name) for e in st.target.elts):
            return self.loop(st)
        Block.special(self, st)

    def loop(self, st):
        if self.obj is not None:
            self.fail("two loops over the properties")
        key, sub = st.target.elts[0].id, st.target.elts[1].id
        assigned = set()
        for n in ast.walk(ast.Module(body=st.body, type_ignores=[])):
            if isinstance(n, (ast.Assign, ast.AugAssign, ast.AnnAssign)):
                for t in (n.targets if isinstance(n, ast.Assign) else [n.target]):
                    if isinstance(t, ast.Name):
                        assigned.add(t.id)
            if isinstance(n, (ast.For, ast.While, ast.Try, ast.With, ast.Break, ast.Continue, ast.Return)):
                self.fail("control flow inside the loop over the properties")
        carried = [v for v in assigned if is_int(self.env.get(v, None))]
        if len(carried) != 1:
            self.fail(f"expected one running offset, found {sorted(carried)}")
        off = carried[0]
        dicts = [k for k, v in self.env.items() if v == ("dict",)]
        inner = ObjectLoop(self.where + " loop", self.env, self.schema_name)
        inner.env[off] = I(pvar("VOffset"))
        inner.env[key] = ("prop-name",)
        inner.env[sub] = ("prop-schema",)
        inner.sub, inner.key, inner.dicts = sub, key, dicts
        inner.run(st.body)
        if len(inner.walks) != 1 or inner.walks[0][0] != "prop-schema":
            self.fail("the loop does not walk each property schema exactly once")
        if not inner.stored:
            self.fail("the loop does not keep the property location")
        step = inner.env[off]
        if not is_int(step):
            self.fail("the running offset is not an integer")
        self.obj = dict(first=self.env[off][1], child=inner.walks[0][1], step=step[1], registers="registers" in inner.flags,
                        dict=inner.stored)
        if not pvars(self.obj["child"]) <= {"VOffset"} or not pvars(self.obj["step"]) <= {"VOffset", "VSubSize"}:
            self.fail("the loop uses a quantity the model does not have inside the loop")
        for v in assigned:
            self.env.pop(v, None)
        self.env[off] = I(pvar("VOffset"))


class ObjectLoop(Block):
    stored = None

    def special(self, st):
        # property_locations[name] = prop_loc
        if isinstance(st, ast.Assign) and len(st.targets) == 1 and isinstance(st.targets[0], ast.Subscript) \
                and isinstance(st.targets[0].value, ast.Name) and st.targets[0].value.id in self.dicts \
                and isinstance(st.targets[0].slice, ast.Name) and st.targets[0].slice.id == self.key \
                and isinstance(st.value, ast.Name) and self.env.get(st.value.id, ("",))[0] == "loc":
            if self.stored:
                self.fail("the property location is stored twice")
            self.stored = st.targets[0].value.id
            return
        who = self.anchor_registration(st, self.sub)
        if who is not None and self.env.get(who, ("",))[0] == "loc":
            self.flags.add("registers")
            return
        Block.special(self, st)


class OneOfBlock(Block):
    def special(self, st):
        s = self.schema_name
        if isinstance(st, ast.For) and not st.orelse and isinstance(st.target, ast.Name):
            # for a in alt_locs: a.unpacker = ...; a.locationMaker = ...
            if isinstance(st.iter, ast.Name) and self.env.get(st.iter.id) == ("loclist", True):
                inner = Block(self.where + " decoration loop", self.env, s)
                inner.env[st.target.id] = ("alt-loc",)
                for b in st.body:
                    if not (_is_logger(b) or inner.decoration(b)):
                        self.fail("the loop over the alternatives' locations does more than bookkeeping")
                return
            # for a in schema.alternatives: [x = self.walk(a, start); bookkeeping;] alt_locs.append(x | self.walk(a, start))
            if ast.unparse(st.iter) == f"{s}.alternatives":
                inner = Block(self.where + " alternatives loop", self.env, s)
                inner.env[st.target.id] = ("alt-schema",)
                appended = None
                for b in st.body:
                    if (isinstance(b, ast.Expr) and isinstance(b.value, ast.Call) and isinstance(b.value.func, ast.Attribute)
                            and b.value.func.attr == "append" and isinstance(b.value.func.value, ast.Name)
                            and self.env.get(b.value.func.value.id) == ("loclist", False)
                            and len(b.value.args) == 1 and not b.value.keywords):
                        if appended:
                            self.fail("two appends in the loop over the alternatives")
                        v = inner.value(b.value.args[0])
                        if v[0] != "loc":
                            self.fail("something that is not a walked location is appended")
                        appended = b.value.func.value.id
                    else:
                        inner.statement(b)
                if not appended or len(inner.walks) != 1 or inner.walks[0][0] != "alt-schema":
                    self.fail("the loop over the alternatives does not walk and keep each alternative exactly once")
                self.walks.append(inner.walks[0])
                self.env[appended] = ("loclist", True)
                return
        Block.special(self, st)


# ---------------------------------------------------------------------------------------------- classes


def _classes(tree):
    return {n.name: n for n in tree.body if isinstance(n, ast.ClassDef)}


def _method(cls, name):
    for n in cls.body:
        if isinstance(n, ast.FunctionDef) and n.name == name:
            return n
    return None


def _bases(cls):
    return [ast.unparse(b) for b in cls.bases]


SCHEMA_CLASSES = {"AtomicSchema": "CAtomic", "DependsOnArraySchema": "CDependsOn", "ArraySchema": "CArray",
                  "ObjectSchema": "CObject", "OneOfSchema": "COneOf", "RefToSchema": "CRefTo"}
SCHEMA_BASES = {"AtomicSchema": ["Schema"], "DependsOnArraySchema": ["ArraySchema"], "ArraySchema": ["Schema"],
                "ObjectSchema": ["Schema"], "OneOfSchema": ["Schema"], "RefToSchema": ["Schema"]}
LOCATION_MEMBERS_FORBIDDEN = {"size", "start", "end", "item_size", "item_count", "__getattr__", "__getattribute__", "__setattr__",
                              "__new__", "__init_subclass__", "__post_init__"}


def _check_hierarchy(cl):
    for name, bases in SCHEMA_BASES.items():
        if name not in cl or _bases(cl[name]) != bases:
            raise Unrecognised(f"class {name} is not derived from {bases}")
    if "Location" not in cl:
        raise Unrecognised("class Location not found")
    for name in Block.LOC_CLASSES:
        if name not in cl or _bases(cl[name]) != ["Location"]:
            raise Unrecognised(f"class {name} is not derived from Location alone")
    for name in ("Location",) + Block.LOC_CLASSES:
        if cl[name].decorator_list or cl[name].keywords:
            raise Unrecognised(f"class {name} is decorated")
        for m in cl[name].body:
            names = []
            if isinstance(m, (ast.FunctionDef, ast.AsyncFunctionDef)):
                names = [m.name]
            elif isinstance(m, ast.Assign):
                names = [t.id for t in m.targets if isinstance(t, ast.Name)]
            elif isinstance(m, ast.AnnAssign) and isinstance(m.target, ast.Name):
                names = [m.target.id]
            elif isinstance(m, ast.Expr) and isinstance(m.value, ast.Constant):
                continue
            else:
                raise Unrecognised(f"class {name}: unexpected member")
            if set(names) & LOCATION_MEMBERS_FORBIDDEN:
                raise Unrecognised(f"class {name} defines {names}")


def _location_init(cl):
    """Location.__init__(self, schema, start, end=0)"""
    fn = _method(cl["Location"], "__init__")
    if fn is None:
        raise Unrecognised("Location.__init__ not found")
    ps = _params(fn)
    if len(ps) != 3 or ps[0][1] is not None or ps[1][1] is not None:
        raise Unrecognised("Location.__init__ signature")
    b = Block("Location.__init__", {ps[0][0]: ("schema",), ps[1][0]: I(pvar("VStart")), ps[2][0]: I(pvar("VEnd"))})
    out = {}

    def attr_assign(st, allowed):
        if not (isinstance(st, ast.Assign) and len(st.targets) == 1 and _is_self(st.targets[0].value if isinstance(st.targets[0], ast.Attribute) else None)):
            raise Unrecognised(f"Location.__init__: statement {ast.unparse(st).splitlines()[0]!r}")
        a = st.targets[0].attr
        if a not in allowed:
            raise Unrecognised(f"Location.__init__: assignment to self.{a}")
        return a, st.value

    branch = None
    for st in _body(fn):
        if isinstance(st, ast.If):
            if branch is not None or not st.orelse:
                raise Unrecognised("Location.__init__: more than one if / no else")
            test = b.integer(st.test, ["VStart", "VEnd"])
            branch = {}
            for key, stmts in (("then", st.body), ("else", st.orelse)):
                got = {}
                for s2 in stmts:
                    a, v = attr_assign(s2, ("end", "size"))
                    if a in got:
                        raise Unrecognised("Location.__init__: assigned twice")
                    got[a] = b.integer(v, ["VStart", "VEnd"])
                if set(got) != {"end", "size"}:
                    raise Unrecognised("Location.__init__: a branch does not set both end and size")
                branch[key] = got
            out["test"] = test
            continue
        a, v = attr_assign(st, ("schema", "start"))
        if branch is not None and a == "start":
            pass
        if a == "schema":
            if b.value(v) != ("schema",):
                raise Unrecognised("Location.__init__: self.schema")
        else:
            if "start" in out:
                raise Unrecognised("Location.__init__: self.start assigned twice")
            out["start"] = b.integer(v, ["VStart", "VEnd"])
    if branch is None or "start" not in out:
        raise Unrecognised("Location.__init__: start / end / size are not all set")
    out.update(end_then=branch["then"]["end"], size_then=branch["then"]["size"],
               end_else=branch["else"]["end"], size_else=branch["else"]["size"])
    return out, [p[0] for p in ps], ps[2][1]


def _subclass_init(cl, name, loc_params, call):
    """bind a constructor call to <name>.__init__ and follow it to Location.__init__(schema, start, end):
       -> dict(start=, end=, attrs={...}, override=agg or None)"""
    cname, args, kwargs = call
    fn = _method(cl[name], "__init__")
    where = f"{name}.__init__"
    if fn is None:                       # inherits Location.__init__
        ps = [(p, None) for p in loc_params]
        fn_body = None
    else:
        ps = _params(fn)
        fn_body = _body(fn)
    if len(args) > len(ps):
        raise Unrecognised(f"{where}: too many arguments")
    env = {}
    for (p, d), v in zip(ps, args):
        env[p] = v
    for k, v in kwargs.items():
        if k in env or k not in [p for p, _ in ps]:
            raise Unrecognised(f"{where}: keyword {k}")
        env[k] = v
    for p, d in ps:
        if p not in env:
            raise Unrecognised(f"{where}: argument {p} is not passed explicitly")
    if fn_body is None:
        return dict(schema=env[loc_params[0]], start=env[loc_params[1]], end=env[loc_params[2]], attrs={}, override=None)
    b = Block(where, env)
    res = dict(attrs={}, override=None)
    for st in fn_body:
        # super().__init__(schema, start, end)
        if isinstance(st, ast.Expr) and isinstance(st.value, ast.Call) and ast.unparse(st.value.func) == "super().__init__":
            c = st.value
            if len(c.args) != 3 or c.keywords or "start" in res:
                raise Unrecognised(f"{where}: super().__init__ call")
            res["schema"], res["start"], res["end"] = (b.value(a) for a in c.args)
            continue
        if isinstance(st, ast.Assign) and len(st.targets) == 1 and isinstance(st.targets[0], ast.Attribute) and _is_self(st.targets[0].value):
            a, v = st.targets[0].attr, st.value
            if "start" not in res:
                raise Unrecognised(f"{where}: attribute set before super().__init__")
            if a == "size":
                # self.size = sum(p.size for p in self.properties.values())
                ok = (isinstance(v, ast.Call) and isinstance(v.func, ast.Name) and v.func.id in ("sum", "max", "min")
                      and len(v.args) == 1 and not v.keywords and isinstance(v.args[0], (ast.GeneratorExp, ast.ListComp))
                      and len(v.args[0].generators) == 1 and not v.args[0].generators[0].ifs
                      and isinstance(v.args[0].generators[0].target, ast.Name)
                      and ast.unparse(v.args[0].elt) == f"{v.args[0].generators[0].target.id}.size"
                      and ast.unparse(v.args[0].generators[0].iter) == "self.properties.values()"
                      and res["attrs"].get("properties") == ("dict",))
                if not ok or res["override"]:
                    raise Unrecognised(f"{where}: self.size = {ast.unparse(v)}")
                res["override"] = {"sum": "AggSum", "max": "AggMax", "min": "AggMin"}[v.func.id]
                continue
            if a in ("start", "end", "schema") or a in res["attrs"]:
                raise Unrecognised(f"{where}: assignment to self.{a}")
            if a == "alternatives" and isinstance(v, ast.DictComp):
                # {key(alt): alt for alt in alternatives}
                g = v.generators
                if not (len(g) == 1 and not g[0].ifs and isinstance(g[0].target, ast.Name) and isinstance(g[0].iter, ast.Name)
                        and isinstance(v.value, ast.Name) and v.value.id == g[0].target.id):
                    raise Unrecognised(f"{where}: self.alternatives")
                res["attrs"][a] = b.value(g[0].iter)
                continue
            res["attrs"][a] = b.value(v)
            continue
        raise Unrecognised(f"{where}: statement {ast.unparse(st).splitlines()[0]!r}")
    if "start" not in res:
        raise Unrecognised(f"{where}: no super().__init__ call")
    return res


def _need_int(v, what, allowed):
    if not is_int(v):
        raise Unrecognised(f"{what} is not an integer")
    if not pvars(v[1]) <= set(allowed):
        raise Unrecognised(f"{what} uses {sorted(pvars(v[1]) - set(allowed))}")
    return v[1]


def _walk(cl, loc_params, P):
    fn = _method(cl["LocationMaker"], "walk")
    if fn is None:
        raise Unrecognised("LocationMaker.walk not found")
    ps = _params(fn)
    if len(ps) != 2 or any(d is not None for _, d in ps):
        raise Unrecognised("LocationMaker.walk signature")
    sname, stname = ps[0][0], ps[1][0]
    body = _body(fn)
    if not body or not isinstance(body[0], ast.Match):
        raise Unrecognised("LocationMaker.walk does not start with a match statement")
    m = body[0]
    if not (isinstance(m.subject, ast.Name) and m.subject.id == sname):
        raise Unrecognised("match subject is not the schema parameter")
    order, locvars = [], set()
    for idx, case in enumerate(m.cases):
        pat = case.pattern
        if case.guard is not None:
            raise Unrecognised("case with a guard")
        if isinstance(pat, ast.MatchAs) and pat.pattern is None and pat.name is None:
            if idx != len(m.cases) - 1:
                raise Unrecognised("case _ is not last")
            # the default case: nothing but logging, tests and raise
            if not case.body or not isinstance(case.body[-1], ast.Raise):
                raise Unrecognised("case _ does not end in raise")
            for n in ast.walk(ast.Module(body=case.body, type_ignores=[])):
                if isinstance(n, (ast.Assign, ast.AugAssign, ast.AnnAssign, ast.Return, ast.NamedExpr, ast.For, ast.While, ast.Try)):
                    raise Unrecognised("case _ does more than raise")
            continue
        if not (isinstance(pat, ast.MatchClass) and isinstance(pat.cls, ast.Name) and not pat.patterns and not pat.kwd_patterns
                and pat.cls.id in SCHEMA_CLASSES):
            raise Unrecognised(f"case pattern {ast.unparse(pat)}")
        cname = pat.cls.id
        tag = SCHEMA_CLASSES[cname]
        if tag in order:
            raise Unrecognised(f"two cases for {cname}")
        order.append(tag)
        env = {sname: ("schema",), stname: I(pvar("VStart"))}
        where = f"walk case {cname}"
        kind = {"CAtomic": Block, "CArray": ArrayBlock, "CDependsOn": ArrayBlock, "CObject": ObjectBlock, "COneOf": OneOfBlock,
                "CRefTo": Block}[tag]
        b = kind(where, env, sname).run(case.body)
        if b.ctor is None or b.locvar is None:
            raise Unrecognised(f"{where}: no location is built")
        locvars.add(b.locvar)
        want = {"CAtomic": "AtomicLocation", "CArray": "ArrayLocation", "CDependsOn": "ArrayLocation", "CObject": "ObjectLocation",
                "COneOf": "OneOfLocation", "CRefTo": "RefToLocation"}[tag]
        if b.ctor[0] != want:
            raise Unrecognised(f"{where}: builds a {b.ctor[0]}")
        init = _subclass_init(cl, want, loc_params, b.ctor)
        if init["schema"] != ("schema",):
            raise Unrecognised(f"{where}: the location does not get the schema it was built for")
        if tag == "CAtomic":
            if b.walks or b.agg or b.count_src or init["attrs"] or init["override"] or b.flags - {"calcsize"}:
                raise Unrecognised(f"{where}: unexpected work")
            sc = ["VStart", "VCalc"]
            P["atom_start"], P["atom_end"] = _need_int(init["start"], where, sc), _need_int(init["end"], where, sc)
        elif tag in ("CArray", "CDependsOn"):
            pre = "arr" if tag == "CArray" else "odo"
            if len(b.walks) != 1 or b.walks[0][0] != "items-schema" or b.agg or init["override"]:
                raise Unrecognised(f"{where}: expected one walk of schema.items")
            if set(init["attrs"]) != {"item_size", "item_count", "items"} or init["attrs"]["items"][0] != "loc":
                raise Unrecognised(f"{where}: ArrayLocation attributes {sorted(init['attrs'])}")
            if b.count_src is None:
                raise Unrecognised(f"{where}: item count source")
            sc = ["VStart", "VSubSize", "VCount"]
            P[pre + "_count_src"] = b.count_src
            P[pre + "_item_start"] = _need_int(I(b.walks[0][1]), where, ["VStart", "VCount"])
            P[pre + "_item_size"] = _need_int(init["attrs"]["item_size"], where, sc)
            P[pre + "_item_count"] = _need_int(init["attrs"]["item_count"], where, sc)
            P[pre + "_start"], P[pre + "_end"] = _need_int(init["start"], where, sc), _need_int(init["end"], where, sc)
            if tag == "CArray":
                if "requires-instance" in b.flags:
                    raise Unrecognised(f"{where}: instance check in the plain array case")
                if "negative-refused" in b.flags:
                    raise Unrecognised(f"{where}: sign test on the count in the plain array case")
                P["arr_asserts_bound"] = "asserts" in b.flags
            else:
                if "asserts" in b.flags:
                    raise Unrecognised(f"{where}: assert in the depends-on case")
                P["odo_requires_instance"] = "requires-instance" in b.flags
                P["odo_negative_refused"] = "negative-refused" in b.flags
        elif tag == "CObject":
            if b.obj is None or b.walks or b.agg or b.count_src:
                raise Unrecognised(f"{where}: expected one loop over the properties")
            if set(init["attrs"]) != {"properties"} or init["attrs"]["properties"] != ("dict",):
                raise Unrecognised(f"{where}: ObjectLocation attributes")
            sc = ["VStart", "VOffset"]
            P["obj_first_offset"] = _need_int(I(b.obj["first"]), where, ["VStart"])
            P["obj_child_start"], P["obj_step"] = b.obj["child"], b.obj["step"]
            P["obj_loop_registers_anchor"] = b.obj["registers"]
            P["obj_start"], P["obj_end"] = _need_int(init["start"], where, sc), _need_int(init["end"], where, sc)
            P["obj_size_override"] = init["override"]
        elif tag == "COneOf":
            if len(b.walks) != 1 or b.walks[0][0] != "alt-schema" or b.count_src or init["override"] or b.agg is None:
                raise Unrecognised(f"{where}: expected one walk per alternative and one aggregate of their sizes")
            if set(init["attrs"]) != {"alternatives"} or init["attrs"]["alternatives"] != ("loclist", True):
                raise Unrecognised(f"{where}: OneOfLocation attributes")
            sc = ["VStart", "VAgg"]
            P["one_alt_start"] = _need_int(I(b.walks[0][1]), where, ["VStart"])
            P["one_agg"] = b.agg
            P["one_start"], P["one_end"] = _need_int(init["start"], where, sc), _need_int(init["end"], where, sc)
        else:
            if b.walks or b.agg or b.count_src or init["override"] or b.flags:
                raise Unrecognised(f"{where}: unexpected work")
            if set(init["attrs"]) != {"anchors"} or init["attrs"]["anchors"] != ("anchors",):
                raise Unrecognised(f"{where}: RefToLocation attributes")
            P["ref_start"], P["ref_end"] = _need_int(init["start"], where, ["VStart"]), _need_int(init["end"], where, ["VStart"])
    if set(order) != set(SCHEMA_CLASSES.values()):
        raise Unrecognised(f"cases {order}")
    if len(locvars) != 1:
        raise Unrecognised("the cases assign the location to different names")
    loc = locvars.pop()
    P["walk_cases"] = order
    # after the match: bookkeeping, the $anchor registration, return loc
    post = Block("walk after match", {loc: ("result",), sname: ("schema",)}, sname)
    registers = False
    rest = body[1:]
    if not rest or not (isinstance(rest[-1], ast.Return) and isinstance(rest[-1].value, ast.Name) and rest[-1].value.id == loc):
        raise Unrecognised("walk does not end with return of the location")
    for st in rest[:-1]:
        if _is_logger(st) or post.decoration(st):
            continue
        if post.anchor_registration(st, f"{loc}.schema") == loc and not registers:
            registers = True
            continue
        raise Unrecognised(f"walk after match: {ast.unparse(st).splitlines()[0]!r}")
    P["walk_registers_anchor"] = registers


def _maker_rest(cl, P):
    lm = cl["LocationMaker"]
    # __init__: a fresh maker has no anchors and keeps the schema it is given
    fn = _method(lm, "__init__")
    if fn is None:
        raise Unrecognised("LocationMaker.__init__ not found")
    ps = [p for p, _ in _params(fn)]
    texts = [ast.unparse(st) for st in _body(fn)]
    if len(ps) != 2 or f"self.unpacker = {ps[0]}" not in texts or f"self.schema = {ps[1]}" not in texts \
            or not any(t in ("self.anchors: dict[str, Location] = {}", "self.anchors = {}") for t in texts) or len(texts) != 3:
        raise Unrecognised("LocationMaker.__init__")
    # size: the unpacker's calcsize
    fn = _method(lm, "size")
    if fn is None or [ast.unparse(st) for st in _body(fn)] != [f"return self.unpacker.calcsize({_params(fn)[0][0]})"] or len(_params(fn)) != 1:
        raise Unrecognised("LocationMaker.size")
    for name, with_instance in (("from_instance", True), ("from_schema", False)):
        fn = _method(lm, name)
        if fn is None:
            raise Unrecognised(f"LocationMaker.{name} not found")
        ps = _params(fn)
        if len(ps) != (2 if with_instance else 1) or ps[-1][1] is None or (with_instance and ps[0][1] is not None):
            raise Unrecognised(f"LocationMaker.{name} signature")
        P[name + "_default"] = _const_int(ps[-1][1], name)
        st = _body(fn)
        if with_instance:
            if len(st) != 2 or ast.unparse(st[0]) != f"self.instance = {ps[0][0]}":
                raise Unrecognised(f"LocationMaker.{name} body")
            st = st[1:]
        if len(st) != 1 or not isinstance(st[0], ast.Return) or not isinstance(st[0].value, ast.Call) \
                or not _is_self(st[0].value.func, "walk") or len(st[0].value.args) != 2 or st[0].value.keywords \
                or not _is_self(st[0].value.args[0], "schema"):
            raise Unrecognised(f"LocationMaker.{name} body")
        b = Block(f"LocationMaker.{name}", {ps[-1][0]: I(pvar("VStart"))})
        P[name + "_start"] = b.integer(st[0].value.args[1], ["VStart"])


def _unpacker_nav(cl):
    """EBCDIC / Struct / TextUnpacker .nav: NDNav(self, LocationMaker(self, schema).from_instance(instance), instance)"""
    for name in ("EBCDIC", "Struct", "TextUnpacker"):
        if name not in cl:
            raise Unrecognised(f"class {name} not found")
        fn = _method(cl[name], "nav")
        if fn is None:
            raise Unrecognised(f"{name}.nav not found")
        ps = _params(fn)
        if len(ps) != 2 or any(d is not None for _, d in ps):
            raise Unrecognised(f"{name}.nav signature")
        sc, inst = ps[0][0], ps[1][0]
        st = _body(fn)
        made = f"LocationMaker(self, {sc}).from_instance({inst})"
        if len(st) == 2 and isinstance(st[0], ast.Assign) and len(st[0].targets) == 1 and isinstance(st[0].targets[0], ast.Name) \
                and ast.unparse(st[0].value) == made and ast.unparse(st[1]) == f"return NDNav(self, {st[0].targets[0].id}, {inst})":
            continue
        if len(st) == 1 and ast.unparse(st[0]) == f"return NDNav(self, {made}, {inst})":
            continue
        raise Unrecognised(f"{name}.nav body")


CMP_OPS = {ast.GtE: "CmpGe", ast.Gt: "CmpGt", ast.LtE: "CmpLe", ast.Lt: "CmpLt", ast.Eq: "CmpEq", ast.NotEq: "CmpNe"}
FLIP = {"CmpGe": "CmpLe", "CmpGt": "CmpLt", "CmpLe": "CmpGe", "CmpLt": "CmpGt", "CmpEq": "CmpEq", "CmpNe": "CmpNe"}
NEGATE = {"CmpGe": "CmpLt", "CmpGt": "CmpLe", "CmpLe": "CmpGt", "CmpLt": "CmpGe", "CmpEq": "CmpNe", "CmpNe": "CmpEq"}


def _conjuncts(t):
    """a comparison, a chain  a < b <= c,  or an `and` of those -> [(left, op, right)] meaning their conjunction"""
    if isinstance(t, ast.BoolOp) and isinstance(t.op, ast.And):
        return [x for v in t.values for x in _conjuncts(v)]
    if isinstance(t, ast.Compare):
        out, left = [], t.left
        for op, right in zip(t.ops, t.comparators):
            if type(op) not in CMP_OPS:
                raise Unrecognised("comparison operator")
            out.append((left, CMP_OPS[type(op)], right))
            left = right
        return out
    raise Unrecognised(f"test {ast.unparse(t)}")


def _disjuncts(t):
    """a comparison, an `or` of comparisons, or `not` of a conjunction -> [(left, op, right)] meaning their disjunction"""
    if isinstance(t, ast.BoolOp) and isinstance(t.op, ast.Or):
        return [x for v in t.values for x in _disjuncts(v)]
    if isinstance(t, ast.UnaryOp) and isinstance(t.op, ast.Not):
        return [(l, NEGATE[op], r) for l, op, r in _conjuncts(t.operand)]
    if isinstance(t, ast.Compare) and len(t.ops) == 1:
        return _conjuncts(t)
    raise Unrecognised(f"test {ast.unparse(t)}")


def _type_check(st, kind):
    return (isinstance(st, ast.If) and not st.orelse and ast.unparse(st.test) == f"self.schema.type != '{kind}'"
            and _raises(st.body, "TypeError"))


def _returns_ndnav(st, b, want):
    if not (isinstance(st, ast.Return) and isinstance(st.value, ast.Call) and isinstance(st.value.func, ast.Name)
            and st.value.func.id == "NDNav" and len(st.value.args) == 3 and not st.value.keywords):
        return False
    u, l, i = st.value.args
    return ast.unparse(u) == "self.unpacker()" and b.value(l) == want and _is_self(i, "instance")


def _ndnav(cl, P):
    nd = cl.get("NDNav")
    if nd is None:
        raise Unrecognised("class NDNav not found")
    fn = _method(nd, "__init__")
    if fn is None:
        raise Unrecognised("NDNav.__init__ not found")
    ps = [p for p, _ in _params(fn)]
    texts = [ast.unparse(st) for st in _body(fn)]
    if len(ps) != 3 or sorted(texts) != sorted([f"self.unpacker = ref({ps[0]})", f"self.location = {ps[1]}", f"self.instance = {ps[2]}"]):
        raise Unrecognised("NDNav.__init__")
    fn = _method(nd, "schema")
    if fn is None or [ast.unparse(d) for d in fn.decorator_list] != ["property"] or [ast.unparse(s) for s in _body(fn)] != ["return self.location.schema"]:
        raise Unrecognised("NDNav.schema")
    # referent: a Location is its own; a RefToLocation is anchors[name after '#' of schema.ref]
    fn = _method(cl["Location"], "referent")
    if fn is None or [ast.unparse(d) for d in fn.decorator_list] != ["property"] or [ast.unparse(s) for s in _body(fn)] != ["return self"]:
        raise Unrecognised("Location.referent")
    for name in ("AtomicLocation", "ArrayLocation", "ObjectLocation", "OneOfLocation"):
        if _method(cl[name], "referent") is not None:
            raise Unrecognised(f"{name}.referent overrides Location.referent")
    fn = _method(cl["RefToLocation"], "referent")
    if fn is None or [ast.unparse(d) for d in fn.decorator_list] != ["property"]:
        raise Unrecognised("RefToLocation.referent")
    b = Block("RefToLocation.referent", {"self.schema": ("schema",)})
    stmts = [s for s in _body(fn) if not isinstance(s, ast.Assert)]
    for st in stmts[:-1]:
        # uri = self.schema.ref
        if isinstance(st, ast.Assign) and len(st.targets) == 1 and isinstance(st.targets[0], ast.Name) and ast.unparse(st.value) == "self.schema.ref":
            b.env[st.targets[0].id] = ("uri",)
        else:
            b.statement(st)
    last = stmts[-1] if stmts else None
    if not (isinstance(last, ast.Return) and isinstance(last.value, ast.Subscript) and _is_self(last.value.value, "anchors")
            and b.value(last.value.slice) == ("fragment",)):
        raise Unrecognised("RefToLocation.referent body")

    # ---- name
    fn = _method(nd, "name")
    if fn is None or len(_params(fn)) != 1:
        raise Unrecognised("NDNav.name not found")
    arg = _params(fn)[0][0]
    st = [s for s in _body(fn) if not _is_logger(s)]
    if len(st) != 3 or not _type_check(st[0], "object"):
        raise Unrecognised("NDNav.name body")
    a = st[1]
    if not (isinstance(a, ast.Assign) and len(a.targets) == 1 and isinstance(a.targets[0], ast.Name)):
        raise Unrecognised("NDNav.name body")
    text = ast.unparse(a.value)
    if text == f"self.location.properties[{arg}].referent":
        P["name_via_referent"] = True
    elif text == f"self.location.properties[{arg}]":
        P["name_via_referent"] = False
    else:
        raise Unrecognised(f"NDNav.name: {text}")
    b = Block("NDNav.name", {a.targets[0].id: ("sub",)})
    if not _returns_ndnav(st[2], b, ("sub",)):
        raise Unrecognised("NDNav.name return")

    # ---- index
    fn = _method(nd, "index")
    if fn is None or len(_params(fn)) != 1:
        raise Unrecognised("NDNav.index not found")
    arg = _params(fn)[0][0]
    st = [s for s in _body(fn) if not _is_logger(s)]
    if len(st) < 3 or not _type_check(st[0], "array"):
        raise Unrecognised("NDNav.index: type check")
    base = ("loc", {"start": pvar("VBaseStart"), "item_size": pvar("VItemSize"), "item_count": pvar("VItemCount")})
    b = Block("NDNav.index", {arg: I(pvar("VIndex")), "self.location": base})
    refuse = refuse_low = None
    start = None
    for s in st[1:-1]:
        # subschema = self.schema.items
        if isinstance(s, ast.Assign) and len(s.targets) == 1 and isinstance(s.targets[0], ast.Name) and ast.unparse(s.value) == "self.schema.items":
            b.env[s.targets[0].id] = ("items-schema",)
            continue
        # if <refusal>: raise IndexError     refusal = a disjunction of  index OP item_count  and  index OP <constant>
        if isinstance(s, ast.If):
            if s.orelse or not _raises(s.body, "IndexError") or start is not None:
                raise Unrecognised("NDNav.index: refusal")
            for l, op, r in _disjuncts(s.test):
                l, r = b.integer(l), b.integer(r)
                if r == pvar("VIndex"):
                    l, r, op = r, l, FLIP[op]
                if l != pvar("VIndex"):
                    raise Unrecognised("NDNav.index: the refusal does not test the index")
                if r == pvar("VItemCount"):
                    if refuse is not None:
                        raise Unrecognised("NDNav.index: index compared with item_count twice")
                    refuse = op
                elif set(r) <= {()}:
                    if refuse_low is not None:
                        raise Unrecognised("NDNav.index: index compared with a constant twice")
                    k = r.get((), 0)
                    if not 0 <= k <= MAX_CONST:
                        raise Unrecognised("NDNav.index: constant out of range")
                    refuse_low = (op, k)
                else:
                    raise Unrecognised("NDNav.index: the refusal compares the index with something else")
            continue
        # item_location = LocationMaker(self.unpacker(), subschema).from_instance(self.instance, start=...)
        if isinstance(s, ast.Assign) and len(s.targets) == 1 and isinstance(s.targets[0], ast.Name) and isinstance(s.value, ast.Call) \
                and isinstance(s.value.func, ast.Attribute) and s.value.func.attr == "from_instance":
            c, mk = s.value, s.value.func.value
            if not (isinstance(mk, ast.Call) and isinstance(mk.func, ast.Name) and mk.func.id == "LocationMaker" and len(mk.args) == 2
                    and not mk.keywords and ast.unparse(mk.args[0]) == "self.unpacker()"):
                raise Unrecognised("NDNav.index: LocationMaker call")
            what = ("items-schema",) if ast.unparse(mk.args[1]) == "self.schema.items" else b.value(mk.args[1])
            if what != ("items-schema",) or start is not None or not c.args or not _is_self(c.args[0], "instance"):
                raise Unrecognised("NDNav.index: re-walk")
            if len(c.args) == 2 and not c.keywords:
                e = c.args[1]
            elif len(c.args) == 1 and len(c.keywords) == 1 and c.keywords[0].arg == "start":
                e = c.keywords[0].value
            elif len(c.args) == 1 and not c.keywords:
                e = ast.Constant(value=P["from_instance_default"])
            else:
                raise Unrecognised("NDNav.index: from_instance arguments")
            start = b.integer(e, ["VBaseStart", "VItemSize", "VItemCount", "VIndex"])
            b.env[s.targets[0].id] = ("item-loc",)
            continue
        b.statement(s)
    if start is None or not _returns_ndnav(st[-1], b, ("item-loc",)):
        raise Unrecognised("NDNav.index: result")
    P["index_refuse"], P["index_refuse_low"], P["index_start"] = refuse, refuse_low, start

    # ---- raw
    fn = _method(nd, "raw")
    st = _body(fn) if fn is not None else []
    if len(st) != 1 or not isinstance(st[0], ast.Return) or not isinstance(st[0].value, ast.Subscript) \
            or not _is_self(st[0].value.value, "instance") or not isinstance(st[0].value.slice, ast.Slice) \
            or st[0].value.slice.step is not None or st[0].value.slice.lower is None or st[0].value.slice.upper is None:
        raise Unrecognised("NDNav.raw")
    b = Block("NDNav.raw", {"self.location": ("loc", {"start": pvar("VLocStart"), "end": pvar("VLocEnd")})})
    P["raw_lo"] = b.integer(st[0].value.slice.lower, ["VLocStart", "VLocEnd"])
    P["raw_hi"] = b.integer(st[0].value.slice.upper, ["VLocStart", "VLocEnd"])


def _value_call(b, n, on):
    """<on>.value(instance, <offset>) -> offset polynomial (None when the offset is left to its default)"""
    if not (isinstance(n, ast.Call) and isinstance(n.func, ast.Attribute) and n.func.attr == "value" and ast.unparse(n.func.value) == on
            and n.args and isinstance(n.args[0], ast.Name) and b.env.get(n.args[0].id) == ("instance",)):
        raise Unrecognised(f"{b.where}: expected {on}.value(instance, ...)")
    if len(n.args) == 2 and not n.keywords:
        return b.integer(n.args[1])
    if len(n.args) == 1 and len(n.keywords) == 1 and n.keywords[0].arg == "offset":
        return b.integer(n.keywords[0].value)
    if len(n.args) == 1 and not n.keywords:
        return None
    raise Unrecognised(f"{b.where}: arguments of {on}.value")


def _returned(stmts, where):
    """[x = <expr>; return x] or [return <expr>] -> expr"""
    if len(stmts) == 1 and isinstance(stmts[0], ast.Return) and stmts[0].value is not None:
        return stmts[0].value
    if len(stmts) == 2 and isinstance(stmts[0], ast.Assign) and len(stmts[0].targets) == 1 and isinstance(stmts[0].targets[0], ast.Name) \
            and isinstance(stmts[1], ast.Return) and isinstance(stmts[1].value, ast.Name) and stmts[1].value.id == stmts[0].targets[0].id:
        return stmts[0].value
    raise Unrecognised(f"{where}: body")


def _values(cl, P):
    """the value(self, instance, offset=<default>) methods of the five Location classes, and NDNav.value"""
    defaults = set()
    blocks = {}
    for name in Block.LOC_CLASSES:
        fn = _method(cl[name], "value")
        where = f"{name}.value"
        if fn is None:
            raise Unrecognised(f"{where} not found")
        ps = _params(fn)
        if len(ps) != 2 or ps[0][1] is not None or ps[1][1] is None or ps[1][0] != "offset" or fn.decorator_list:
            raise Unrecognised(f"{where} signature")
        defaults.add(_const_int(ps[1][1], where))
        env = {ps[0][0]: ("instance",), "offset": I(pvar("VValOffset")), "self.start": I(pvar("VLocStart")), "self.end": I(pvar("VLocEnd")),
               "self.item_size": I(pvar("VItemSize")), "self.item_count": I(pvar("VItemCount")), "self.schema": ("schema",)}
        blocks[name] = (Block(where, env), [s for s in _body(fn) if not _is_logger(s)], ps[0][0])
    if len(defaults) != 1:
        raise Unrecognised("the value methods have different default offsets")
    P["value_default_offset"] = dflt = defaults.pop()
    D = lambda x: pconst(dflt) if x is None else x
    # AtomicLocation: self.unpacker.value(self.schema, instance[<lo> : <hi>])
    b, st, inst = blocks["AtomicLocation"]
    e = _returned(st, b.where)
    if not (isinstance(e, ast.Call) and ast.unparse(e.func) == "self.unpacker.value" and len(e.args) == 2 and not e.keywords
            and ast.unparse(e.args[0]) == "self.schema" and isinstance(e.args[1], ast.Subscript) and isinstance(e.args[1].value, ast.Name)
            and e.args[1].value.id == inst and isinstance(e.args[1].slice, ast.Slice) and e.args[1].slice.step is None
            and e.args[1].slice.lower is not None and e.args[1].slice.upper is not None):
        raise Unrecognised(f"{b.where}: body")
    sc = ["VLocStart", "VLocEnd", "VValOffset"]
    P["atomval_lo"], P["atomval_hi"] = b.integer(e.args[1].slice.lower, sc), b.integer(e.args[1].slice.upper, sc)
    # ArrayLocation: [self.items.value(instance, offset=<offset>) for i in range(<count>)]
    b, st, inst = blocks["ArrayLocation"]
    e = _returned(st, b.where)
    if not (isinstance(e, ast.ListComp) and len(e.generators) == 1 and not e.generators[0].ifs and isinstance(e.generators[0].target, ast.Name)
            and isinstance(e.generators[0].iter, ast.Call) and isinstance(e.generators[0].iter.func, ast.Name)
            and e.generators[0].iter.func.id == "range" and len(e.generators[0].iter.args) == 1 and not e.generators[0].iter.keywords):
        raise Unrecognised(f"{b.where}: body")
    P["arrval_count"] = b.integer(e.generators[0].iter.args[0], ["VItemSize", "VItemCount", "VValOffset"])
    b.env[e.generators[0].target.id] = I(pvar("VIter"))
    P["arrval_offset"] = D(_value_call(b, e.elt, "self.items"))
    if not pvars(P["arrval_offset"]) <= {"VValOffset", "VIter", "VItemSize", "VItemCount"}:
        raise Unrecognised(f"{b.where}: offset")
    # ObjectLocation: {name: self.properties[name].value(instance, offset=<offset>) for name in self.schema.properties}
    b, st, inst = blocks["ObjectLocation"]
    e = _returned(st, b.where)
    if not (isinstance(e, ast.DictComp) and len(e.generators) == 1 and not e.generators[0].ifs and isinstance(e.generators[0].target, ast.Name)
            and ast.unparse(e.generators[0].iter) == "self.schema.properties" and isinstance(e.key, ast.Name)
            and e.key.id == e.generators[0].target.id):
        raise Unrecognised(f"{b.where}: body")
    P["objval_offset"] = D(_value_call(b, e.value, f"self.properties[{e.key.id}]"))
    if not pvars(P["objval_offset"]) <= {"VValOffset"}:
        raise Unrecognised(f"{b.where}: offset")
    # OneOfLocation: first, *others = self.alternatives.values(); return first.value(instance, <offset>)
    b, st, inst = blocks["OneOfLocation"]
    if not (len(st) == 2 and isinstance(st[0], ast.Assign) and len(st[0].targets) == 1 and isinstance(st[0].targets[0], ast.Tuple)
            and len(st[0].targets[0].elts) == 2 and ast.unparse(st[0].value) == "self.alternatives.values()" and isinstance(st[1], ast.Return)):
        raise Unrecognised(f"{b.where}: body")
    x, y = st[0].targets[0].elts
    if isinstance(x, ast.Name) and isinstance(y, ast.Starred) and isinstance(y.value, ast.Name) and x.id != y.value.id:
        P["oneval_pick"], chosen = "PickFirst", x.id
    elif isinstance(y, ast.Name) and isinstance(x, ast.Starred) and isinstance(x.value, ast.Name) and y.id != x.value.id:
        P["oneval_pick"], chosen = "PickLast", y.id
    else:
        raise Unrecognised(f"{b.where}: unpacking")
    P["oneval_offset"] = D(_value_call(b, st[1].value, chosen))
    # RefToLocation: self.referent.value(instance, <offset>)
    b, st, inst = blocks["RefToLocation"]
    P["refval_offset"] = D(_value_call(b, _returned(st, b.where), "self.referent"))
    for k in ("oneval_offset", "refval_offset"):
        if not pvars(P[k]) <= {"VValOffset"}:
            raise Unrecognised(f"{k}: offset")
    # NDNav.value: self.location.value(self.instance)   -- the offset is the default
    fn = _method(cl["NDNav"], "value")
    if fn is None or _params(fn) or [ast.unparse(s) for s in _body(fn)] != ["return self.location.value(self.instance)"]:
        raise Unrecognised("NDNav.value")


EXN_NAMES = ("ValueError", "TypeError", "IndexError", "KeyError", "RuntimeError", "NotImplementedError", "AttributeError", "AssertionError")


def _set_schema(src, P):
    """workbook.COBOL_EBCDIC_Sheet.set_schema:
         result = super().set_schema(schema); wb = self.workbook()
         if wb.lrecl: self.lrecl = wb.lrecl
         else: [try:] loc = LocationMaker(wb.unpacker, self.schema).from_schema(); self.lrecl = loc.end
               [except <names>: self.lrecl = None | <constant>]
         return result"""
    tree = _StripCast().visit(_parse(src, "stingray/workbook.py"))
    cl = _classes(tree)
    if "COBOL_EBCDIC_Sheet" not in cl:
        raise Unrecognised("class COBOL_EBCDIC_Sheet not found")
    fn = _method(cl["COBOL_EBCDIC_Sheet"], "set_schema")
    if fn is None or len(_params(fn)) != 1:
        raise Unrecognised("COBOL_EBCDIC_Sheet.set_schema not found")
    arg = _params(fn)[0][0]
    st = [s for s in _body(fn) if not _is_logger(s)]
    if len(st) != 4 or not all(isinstance(s, ast.Assign) and len(s.targets) == 1 and isinstance(s.targets[0], ast.Name) for s in st[:2]):
        raise Unrecognised("COBOL_EBCDIC_Sheet.set_schema body")
    res, wb = st[0].targets[0].id, st[1].targets[0].id
    if ast.unparse(st[0].value) != f"super().set_schema({arg})" or ast.unparse(st[1].value) != "self.workbook()" \
            or ast.unparse(st[3]) != f"return {res}":
        raise Unrecognised("COBOL_EBCDIC_Sheet.set_schema body")
    br = st[2]
    if not (isinstance(br, ast.If) and ast.unparse(br.test) == f"{wb}.lrecl" and [ast.unparse(x) for x in br.body] == [f"self.lrecl = {wb}.lrecl"]
            and len(br.orelse) in (1, 2)):
        raise Unrecognised("COBOL_EBCDIC_Sheet.set_schema: the lrecl test")

    def computed(stmts):
        if len(stmts) != 2 or not (isinstance(stmts[0], ast.Assign) and len(stmts[0].targets) == 1 and isinstance(stmts[0].targets[0], ast.Name)):
            return False
        loc = stmts[0].targets[0].id
        return (ast.unparse(stmts[0].value) == f"LocationMaker({wb}.unpacker, self.schema).from_schema()"
                and ast.unparse(stmts[1]) == f"self.lrecl = {loc}.end")

    if computed(br.orelse):
        P["set_schema_catches"], P["set_schema_caught_lrecl"] = [], 0
        return
    tr = br.orelse[0]
    if not (len(br.orelse) == 1 and isinstance(tr, ast.Try) and computed(tr.body) and not tr.orelse and not tr.finalbody and len(tr.handlers) == 1):
        raise Unrecognised("COBOL_EBCDIC_Sheet.set_schema: the computed lrecl")
    h = tr.handlers[0]
    names = [h.type] if isinstance(h.type, ast.Name) else list(h.type.elts) if isinstance(h.type, ast.Tuple) else None
    if h.name is not None or not names or not all(isinstance(n, ast.Name) and n.id in EXN_NAMES for n in names):
        raise Unrecognised("COBOL_EBCDIC_Sheet.set_schema: except clause")
    if len(h.body) != 1 or not (isinstance(h.body[0], ast.Assign) and ast.unparse(h.body[0].targets[0]) == "self.lrecl" and len(h.body[0].targets) == 1
                                and isinstance(h.body[0].value, ast.Constant)):
        raise Unrecognised("COBOL_EBCDIC_Sheet.set_schema: handler")
    v = h.body[0].value.value
    P["set_schema_catches"] = [n.id for n in names]
    P["set_schema_caught_lrecl"] = 0 if v is None else _const_int(h.body[0].value, "handler lrecl")


def extract(src):
    tree = _StripCast().visit(_parse(src, "stingray/schema_instance.py"))
    ast.fix_missing_locations(tree)
    cl = _classes(tree)
    for need in ("LocationMaker", "NDNav", "Location"):
        if need not in cl:
            raise Unrecognised(f"class {need} not found")
    _check_hierarchy(cl)
    P = {}
    init, loc_params, end_default = _location_init(cl)
    for k, v in init.items():
        P["init_" + k] = v
    _walk(cl, loc_params, P)
    _maker_rest(cl, P)
    _unpacker_nav(cl)
    _ndnav(cl, P)
    _values(cl, P)
    _set_schema(src, P)
    return P


LEXPRS = ["init_start", "init_test", "init_end_then", "init_size_then", "init_end_else", "init_size_else",
          "atom_start", "atom_end",
          "arr_item_start", "arr_item_size", "arr_item_count", "arr_start", "arr_end",
          "odo_item_start", "odo_item_size", "odo_item_count", "odo_start", "odo_end",
          "obj_first_offset", "obj_child_start", "obj_step", "obj_start", "obj_end",
          "one_alt_start", "one_start", "one_end", "ref_start", "ref_end",
          "from_instance_start", "from_schema_start", "index_start", "raw_lo", "raw_hi",
          "atomval_lo", "atomval_hi", "arrval_count", "arrval_offset", "objval_offset", "oneval_offset", "refval_offset"]


def gen_LayoutParams(src):
    P = extract(src)
    T = {k: emit(P[k]) for k in LEXPRS}
    Bo = lambda x: "true" if x else "false"
    d = lambda name, ty, val: f"Definition {name} : {ty} := {val}.\n"
    e = lambda name: d(name, "lexpr", T[name])
    return (
        "(* GENERATED by harness/t1_layout.py from src/stingray/schema_instance.py (Location.__init__ and the constructors of its\n"
        "   subclasses, LocationMaker.walk / from_instance / from_schema / size, NDNav.name / index / raw) -- do not edit *)\n"
        "From Coq Require Import List.\nImport ListNotations.\nRequire Import SR.Base.Res SR.Model.LayoutRule.\n"
        "(* Location.__init__(self, schema, start, end): self.start = ..; if <test>: self.end = ..; self.size = .. else: .. *)\n"
        + e("init_start") + e("init_test") + e("init_end_then") + e("init_size_then") + e("init_end_else") + e("init_size_else")
        + "(* LocationMaker.walk: the order of the cases of match schema; the registration of loc's $anchor after the match *)\n"
        + d("walk_cases", "list sclass", "[" + "; ".join(P["walk_cases"]) + "]")
        + d("walk_registers_anchor", "bool", Bo(P["walk_registers_anchor"]))
        + "(* case AtomicSchema(): AtomicLocation(schema, <start>, <end>) *)\n"
        + e("atom_start") + e("atom_end")
        + "(* case ArraySchema(): walk(schema.items, <item_start>); ArrayLocation(schema, <item_size>, <item_count>, sublocation, <start>, <end>) *)\n"
        + d("arr_asserts_bound", "bool", Bo(P["arr_asserts_bound"]))
        + d("arr_count_src", "count_src", P["arr_count_src"])
        + e("arr_item_start") + e("arr_item_size") + e("arr_item_count") + e("arr_start") + e("arr_end")
        + "(* case DependsOnArraySchema(): the same, after  if not hasattr(self, 'instance'): raise ValueError *)\n"
        + d("odo_requires_instance", "bool", Bo(P["odo_requires_instance"]))
        + "(* ... and, once the item count has been read from the instance:  if <count> < 0: raise ValueError  (before the items are walked) *)\n"
        + d("odo_negative_refused", "bool", Bo(P["odo_negative_refused"]))
        + d("odo_count_src", "count_src", P["odo_count_src"])
        + e("odo_item_start") + e("odo_item_size") + e("odo_item_count") + e("odo_start") + e("odo_end")
        + "(* case ObjectSchema(): offset = <first_offset>; per property: walk(property_schema, <child_start>), offset = <step>;\n"
          "   ObjectLocation(schema, property_locations, <start>, <end>); ObjectLocation.__init__ then overrides self.size *)\n"
        + e("obj_first_offset") + e("obj_child_start") + e("obj_step")
        + d("obj_loop_registers_anchor", "bool", Bo(P["obj_loop_registers_anchor"]))
        + e("obj_start") + e("obj_end")
        + d("obj_size_override", "option agg", f"Some {P['obj_size_override']}" if P["obj_size_override"] else "None")
        + "(* case OneOfSchema(): every alternative walk(alternative_schema, <alt_start>); OneOfLocation(schema, alt_locs, <start>, <end>) *)\n"
        + e("one_alt_start") + d("one_agg", "agg", P["one_agg"]) + e("one_start") + e("one_end")
        + "(* case RefToSchema(): RefToLocation(schema, self.anchors, <start>, <end>) *)\n"
        + e("ref_start") + e("ref_end")
        + "(* from_instance(self, instance, start=<default>): self.walk(self.schema, <start>); from_schema likewise *)\n"
        + d("from_instance_default", "nat", P["from_instance_default"]) + e("from_instance_start")
        + d("from_schema_default", "nat", P["from_schema_default"]) + e("from_schema_start")
        + "(* NDNav.name: properties[name].referent; NDNav.index: raise IndexError when index <refuse> item_count or index <refuse_low>\n"
          "   (comparison, constant), else a fresh\n"
          "   LocationMaker(...).from_instance(self.instance, start=<index_start>); NDNav.raw: instance[<raw_lo> : <raw_hi>] *)\n"
        + d("name_via_referent", "bool", Bo(P["name_via_referent"]))
        + d("index_refuse", "option cmp", f"Some {P['index_refuse']}" if P["index_refuse"] else "None")
        + d("index_refuse_low", "option (cmp * nat)", f"Some ({P['index_refuse_low'][0]}, {P['index_refuse_low'][1]})" if P["index_refuse_low"] else "None")
        + e("index_start") + e("raw_lo") + e("raw_hi")
        + "(* value(self, instance, offset=<default>) of the Location classes (NDNav.value passes no offset):\n"
          "   Atomic: unpacker.value(schema, instance[<lo> : <hi>]); Array: [items.value(instance, <offset>) for i in range(<count>)];\n"
          "   Object: every property .value(instance, <offset>); OneOf: the first / last alternative; RefTo: the referent *)\n"
        + d("value_default_offset", "nat", P["value_default_offset"])
        + e("atomval_lo") + e("atomval_hi") + e("arrval_count") + e("arrval_offset") + e("objval_offset")
        + d("oneval_pick", "pick", P["oneval_pick"]) + e("oneval_offset") + e("refval_offset")
        + "(* workbook.COBOL_EBCDIC_Sheet.set_schema, when the workbook has no (or a zero) lrecl: self.lrecl = from_schema().end,\n"
          "   inside  try: ... except <catches>: self.lrecl = <caught_lrecl>  (None counts as 0: both are false); [] = no try *)\n"
        + d("set_schema_catches", "list exn", "[" + "; ".join(P["set_schema_catches"]) + "]")
        + d("set_schema_caught_lrecl", "nat", P["set_schema_caught_lrecl"])
    )


GENERATORS = {"LayoutParams": gen_LayoutParams}
