"""C04 - a field's width is what its decoder needs, and is the same wherever reported."""
import io
from codec_common import *
from lib import observe_call

GEN = ["EstructParams", "Cp037", "TextCodec"]
RULE = ("complete enumeration of the finite space {13 USAGE spellings} x {signed, unsigned} x {(m,n) | 1<=m+n<=18} = 4914 configurations, each with "
        "nine reports (calcsize, decoder acceptance of that width, schema maxLength/minLength, Location size, record end, Struct.calcsize, "
        "TextUnpacker.calcsize, and the lrecl that ONE long-lived COBOL_EBCDIC_File workbook - opened once for the run, a new sheet schema bound "
        "for every configuration - computes), pictures printed alternately with and without repeat notation; every third configuration places "
        "the item inside a group that carries a USAGE clause of its own (the item's own clauses decide, here as everywhere); data names "
        "that hold USAGE words, PIC or PICTURE at the start, in the middle and at the end (COMP-AMOUNT, EMP-COMPANY, WS-COMP-DATE, TOT-BINARY-CT, "
        "USE-DISPLAY, ELEMENTARY-PIC ...), also on the items written WITHOUT a USAGE clause (stream name_words: every name of the pool on "
        "DISPLAY items without a USAGE clause, alone and inside a group with a USAGE clause; the name and the spelling of every copybook are "
        "functions of the input, so a replay parses the same text); plus X(k)/A(k) for k<=40. "
        "Non-trivial = all; distinct = distinct case lines.")
TRIVIAL_BRANCHES = []
ASSUMPTIONS = ["struct.calcsize('h'/'i'/'q'/'f'/'d') = 2/4/8/4/8 (native sizes on this platform)",
               "picture text -> (signed, m, n) is C13's concern"]


def inputs(ctx):
    # every data name of the pool on DISPLAY items written WITHOUT a USAGE clause (nothing but the name could make them anything
    # else), alone and inside a group that carries a USAGE clause; the wire form is that of the cfg stream
    for i in range(len(NAMES)):
        for j, (s, m, n) in enumerate([(False, 5, 0), (True, 3, 2), (False, 0, 4), (True, 9, 0), (False, 8, 0), (False, 3, 0)]):
            yield "name_words", dict(k=1, u=DISPLAY, s=s, m=m, n=n, name=i, grp=(i + j + 1) % 2)
    ctx.exhaustive.append("13_spellings_x_signed_x_digit_pairs_1..18")
    for u in range(13):
        for s in (False, True):
            for m in range(0, 19):
                for n in range(0, 19 - m):
                    if m + n >= 1:
                        yield "cfg", dict(k=1, u=u, s=s, m=m, n=n)
    for k in range(1, 41):
        for ch in "XA":
            yield "alnum", dict(k=2, kk=k, ch=ch)


def rep(f):
    r = observe_call(f, lambda v: v)
    if r[0] == 0 and not isinstance(r[1], int):
        return [1, 99]
    return r


def canonical(u, w):
    if u == DISPLAY:
        return bytes([0xF0] * w)
    if u in PACKED:
        return bytes([0] * (w - 1) + [0x0C])
    return bytes(w)


_UNP = None


_WB = {}


def workbook():
    """ONE COBOL_EBCDIC_File for the whole run, on an empty scratch file, opened without an lrecl: every configuration binds
    its schema to a sheet of this workbook and reads the record length the sheet computed"""
    if "wb" not in _WB:
        import atexit, os, tempfile
        from pathlib import Path
        from stingray.workbook import COBOL_EBCDIC_File
        fd, path = tempfile.mkstemp(suffix=".data")
        os.close(fd)
        _WB["path"] = path
        _WB["wb"] = COBOL_EBCDIC_File(Path(path))
        def done():
            try:
                _WB["wb"].close()
            except BaseException:
                pass
            os.unlink(path)
        atexit.register(done)
    return _WB["wb"]


def case_key(c):
    """a number that depends on the case alone: the data name and the spelling of the copybook are functions of the INPUT, so
    that a replay prints and parses the same copybook"""
    if c["k"] == 1:
        return ((c["u"] * 2 + int(c["s"])) * 19 + c["m"]) * 19 + c["n"]
    return 10007 + 2 * c["kk"] + (1 if c["ch"] == "A" else 0)


def copybook(pic_text, usage_name, in_group, key, name=None):
    """(data name, copybook text) of one configuration"""
    # data names rotate through a pool that holds USAGE words, PIC and PICTURE at the start, in the middle and at the end of a
    # name (codec_common.NAMES) - for the items that carry a USAGE clause (it must win) AND for those that leave it out (the
    # item is DISPLAY whatever its name says: before the repair of estruct.clause_pattern the name decided, finding
    # K-name-contains-usage, now a fixed entry)
    FLD = NAMES[(key * 7) % len(NAMES)] if usage_name is None else NAMES[key % len(NAMES)]
    if name is not None:
        FLD = NAMES[name]
    h = key % 12
    pic_kw = ["PIC", "PICTURE", "PIC IS", "PICTURE IS"][h % 4]
    usage_kw = ["USAGE", "USAGE IS", ""][h // 4]
    # the record of interest is the SECOND 01; the first declares the same data name with another picture
    usage_line = "" if usage_name is None else f"               {usage_kw} {usage_name}"
    if in_group:
        # the item sits in a group that has a USAGE clause of its own, different from the item's
        gu = ["COMP-3", "BINARY", "DISPLAY", "COMP"][(key // 3) % 4]
        if gu == usage_name:
            gu = "PACKED-DECIMAL"
        body = (f"           05  GRP USAGE {gu}.\n" f"               10  {FLD}\n"
                f"               {pic_kw} {pic_text}\n" + (usage_line + ".\n" if usage_line else "               .\n"))
    else:
        body = (f"           05  {FLD}\n" f"               {pic_kw} {pic_text}\n" + (usage_line + ".\n" if usage_line else "               .\n"))
    return FLD, ("       01  PREV.\n" f"           05  {FLD} PIC X(7).\n" "       01  REC.\n" + body)


def schema_reports(pic_text, usage_name, in_group=0, key=0, name=None):
    """maxLength, minLength, location size, record end, Struct.calcsize, TextUnpacker.calcsize, workbook sheet lrecl"""
    from stingray.cobol_parser import schema_iter
    from stingray.schema_instance import SchemaMaker, EBCDIC, Struct, TextUnpacker, LocationMaker
    FLD, text = copybook(pic_text, usage_name, in_group, key, name)
    state = {}
    def load():
        (_prev, js) = list(schema_iter(io.StringIO(text)))
        state["js"] = js
        state["schema"] = SchemaMaker.from_json(js)
        return 0
    r = observe_call(load, lambda v: v)
    if r[0] != 0:
        return [r] * 7
    js, schema = state["js"], state["schema"]
    fld = js["properties"]["GRP"]["properties"][FLD] if in_group else js["properties"][FLD]
    out = [rep(lambda: fld["maxLength"]), rep(lambda: fld["minLength"])]
    # ONE long-lived unpacker for the whole run (as a long-lived workbook has): per-unpacker caches that
    # outlive a schema show up as widths of unrelated fields
    global _UNP
    if _UNP is None:
        _UNP = EBCDIC()
    unp = _UNP
    def loc():
        state["loc"] = LocationMaker(unp, schema).from_schema()
        top = state["loc"].properties["GRP"] if in_group else state["loc"]
        return top.properties[FLD].size
    out.append(rep(loc))
    out.append(rep(lambda: state["loc"].end))
    fschema = schema.properties["GRP"].properties[FLD] if in_group else schema.properties[FLD]
    out.append(rep(lambda: Struct().calcsize(fschema)))
    out.append(rep(lambda: TextUnpacker().calcsize(fschema)))
    def sheet_lrecl():
        wb = workbook()
        sheet = wb.sheet("")
        sheet.set_schema(schema)
        return sheet.lrecl
    out.append(rep(sheet_lrecl))
    return out


def config(c):
    """(picture text, estruct clause text, own USAGE spelling or None, inside a group with a USAGE clause?) of a case"""
    if c["k"] == 1:
        u, s, m, n = c["u"], c["s"], c["m"], c["n"]
        pic = picture(s, m, n, repeat=((u + m + n) % 2 == 0))
        grp = 1 if (u * 3 + m + 2 * n + int(s)) % 3 == 0 else 0
        # a DISPLAY item may leave its USAGE clause out (every fourth of them does)
        own = None if (u == DISPLAY and (m + n) % 4 == 1) else SPELLINGS[u]
        if "name" in c:
            own, grp = None, c["grp"]
        return pic, clause(u, pic), own, grp
    k, ch = c["kk"], c["ch"]
    pic = f"{ch}({k})" if k % 2 else ch * k
    return pic, f"PIC {pic}", "DISPLAY", 0


def observe(ctx, c):
    import stingray.estruct as E
    pic, cl, own, grp = config(c)
    if c["k"] == 1:
        u, s, m, n = c["u"], c["s"], c["m"], c["n"]
        calc = rep(lambda: E.calcsize(cl))
        if calc[0] == 0:
            dec = observe_call(lambda: E.unpack(cl, canonical(u, calc[1])), lambda v: 1)
        else:
            dec = [2]
        return [1, u, s, m, n, calc, dec] + schema_reports(pic, own, grp, case_key(c), c.get("name"))
    k = c["kk"]
    r = schema_reports(pic, own, grp, case_key(c))
    return [2, k, rep(lambda: E.calcsize(cl)), r[0], r[2], r[3], r[5], r[6]]


def describe(c):
    pic, cl, own, grp = config(c)
    name, text = copybook(pic, own, grp, case_key(c), c.get("name"))
    return dict(c, clause=cl, data_name=name, own_usage_clause=own, copybook=text)
