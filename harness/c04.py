"""C04 - a field's width is what its decoder needs, and is the same wherever reported."""
import io
from codec_common import *
from lib import observe_call

GEN = ["EstructParams", "Cp037", "TextCodec"]
RULE = ("complete enumeration of the finite space {13 USAGE spellings} x {signed, unsigned} x {(m,n) | 1<=m+n<=18} = 4914 configurations, each with "
        "eight reports (calcsize, decoder acceptance of that width, schema maxLength/minLength, Location size, record end, Struct.calcsize, "
        "TextUnpacker.calcsize), pictures printed alternately with and without repeat notation; plus X(k)/A(k) for k<=40. "
        "Non-trivial = all; distinct = distinct case lines.")
TRIVIAL_BRANCHES = []
ASSUMPTIONS = ["struct.calcsize('h'/'i'/'q'/'f'/'d') = 2/4/8/4/8 (native sizes on this platform)",
               "picture text -> (signed, m, n) is C13's concern"]


def inputs(ctx):
    ctx.exhaustive.append("13_spellings_x_signed_x_digit_pairs_1..18")
    for u in range(13):
        for s in (False, True):
            for m in range(0, 19):
                for n in range(0, 19 - m):
                    if m + n >= 1:
                        yield "cfg", dict(k=1, u=u, s=s, m=m, n=n)
    for k in range(1, 41):
        for ch in "XA":
            yield "alnum", dict(k=2, kk=k, ch=ch)


def rep(f):
    r = observe_call(f, lambda v: v)
    if r[0] == 0 and not isinstance(r[1], int):
        return [1, 99]
    return r


def canonical(u, w):
    if u == DISPLAY:
        return bytes([0xF0] * w)
    if u in PACKED:
        return bytes([0] * (w - 1) + [0x0C])
    return bytes(w)


_UNP = None
_N = [0]


def schema_reports(pic_text, usage_name):
    """maxLength, minLength, location size, record end, Struct.calcsize, TextUnpacker.calcsize"""
    from stingray.cobol_parser import schema_iter
    from stingray.schema_instance import SchemaMaker, EBCDIC, Struct, TextUnpacker, LocationMaker
    # data names rotate through a pool that includes names beginning with a USAGE keyword (explicit USAGE must win)
    _N[0] += 1
    FLD = NAMES[_N[0] % len(NAMES)]
    h = _N[0] % 12
    pic_kw = ["PIC", "PICTURE", "PIC IS", "PICTURE IS"][h % 4]
    usage_kw = ["USAGE", "USAGE IS", ""][h // 4]
    # the record of interest is the SECOND 01; the first declares the same data name with another picture
    text = ("       01  PREV.\n" f"           05  {FLD} PIC X(7).\n"
            "       01  REC.\n" f"           05  {FLD}\n"
            f"               {pic_kw} {pic_text}\n               {usage_kw} {usage_name}.\n")
    state = {}
    def load():
        (_prev, js) = list(schema_iter(io.StringIO(text)))
        state["js"] = js
        state["schema"] = SchemaMaker.from_json(js)
        return 0
    r = observe_call(load, lambda v: v)
    if r[0] != 0:
        return [r] * 6
    js, schema = state["js"], state["schema"]
    fld = js["properties"][FLD]
    out = [rep(lambda: fld["maxLength"]), rep(lambda: fld["minLength"])]
    # ONE long-lived unpacker for the whole run (as a long-lived workbook has): per-unpacker caches that
    # outlive a schema show up as widths of unrelated fields
    global _UNP
    if _UNP is None:
        _UNP = EBCDIC()
    unp = _UNP
    def loc():
        state["loc"] = LocationMaker(unp, schema).from_schema()
        return state["loc"].properties[FLD].size
    out.append(rep(loc))
    out.append(rep(lambda: state["loc"].end))
    fschema = schema.properties[FLD]
    out.append(rep(lambda: Struct().calcsize(fschema)))
    out.append(rep(lambda: TextUnpacker().calcsize(fschema)))
    return out


def observe(ctx, c):
    import stingray.estruct as E
    if c["k"] == 1:
        u, s, m, n = c["u"], c["s"], c["m"], c["n"]
        pic = picture(s, m, n, repeat=((u + m + n) % 2 == 0))
        cl = clause(u, pic)
        calc = rep(lambda: E.calcsize(cl))
        if calc[0] == 0:
            dec = observe_call(lambda: E.unpack(cl, canonical(u, calc[1])), lambda v: 1)
        else:
            dec = [2]
        return [1, u, s, m, n, calc, dec] + schema_reports(pic, SPELLINGS[u])
    k, ch = c["kk"], c["ch"]
    pic = f"{ch}({k})" if k % 2 else ch * k
    cl = f"PIC {pic}"
    r = schema_reports(pic, "DISPLAY")
    return [2, k, rep(lambda: E.calcsize(cl)), r[0], r[2], r[3], r[5]]


def describe(c):
    if c["k"] == 1:
        return dict(c, clause=clause(c["u"], picture(c["s"], c["m"], c["n"])))
    return c
