"""C16 - conversion helpers restore exactly what the spreadsheet mangled
(schema_instance.digit_string / decimal_places / CONVERSION).

The runner only builds the argument, calls the real function and serialises argument and
result: numbers as Decimal(x).as_tuple() (sign, coefficient, exponent), strings as code
points, types as small codes.  Whether a result is right is decided by coq/Judge/JC16.v."""
from lib import S, observe_call

GEN = ["ConversionParams", "ConversionBodyParams", "UnicodeParams"]
RULE = ("digit_string: every v in [0, 10^n) for n <= 3 (quick) / 4 (thorough) as int, float and Decimal; boundary values "
        "(0, 1, 10^(n-1)-1, 10^(n-1), 10^n-1) and random v for n = 1..20 as int, float (the float's own exact value is the input), "
        "Decimal in plain, trailing-zero-fraction and scientific spelling; n = 4300 at the CPython int->str digit limit. "
        "decimal_places: every k/1000 with |k| <= 1100 (quick) / 2500 (thorough) for d = 0..3 (all ties, both parities, both signs); "
        "d = 0..12 with random int, float, str and Decimal arguments, constructed ties, scale-up cases and both sides of the "
        "28-digit limit; d at the Etiny bound; negative d down to -999999 with exponents at Emax (results of 1..29 digits on both "
        "sides of the adjusted-exponent bound), d where the quantum itself overflows, underflows or is refused. "
        "CONVERSION: every key on six argument types. "
        "Arguments of any class (streams *_text, *_classes): str arguments of every class of the int / float / Decimal grammars "
        "(white space ASCII, Unicode and 28-31; signs; single, double, leading, trailing underscores; Unicode decimal digits of "
        "every script and non-decimal numerics; fraction, exponent, inf / nan / snan spellings; NUL; 4299-4301 digits; exponents "
        "at the 10^18 bounds of the Decimal constructor; random edits of all of these; EVERY string of length <= 3 (quick) / 4 (thorough) "
        "over 18 characters chosen for the three grammars), None, bool, nan, inf, huge int, Decimal "
        "NaN / sNaN / Infinity, Fraction - given to digit_string (with int(arg) observed alone), to decimal_places (with "
        "Decimal(arg) observed alone) and to every CONVERSION key (type and value of the result). "
        "Branch = which model branch the case took (10-12 digit_string by representation, 20 exact, 21 round down, 22 round up, "
        "23 tie stays even, 24 tie goes up to even, 25 outside the digit domain, 26 zero, 27 quantum refused, 30+key conversion; "
        "40-48 digit_string by argument class (45 str accepted, 49 str rejected), 50-59 the same for decimal_places, "
        "60+key conversion returned, 70+key conversion raised); distinct = distinct case lines.")
TRIVIAL_BRANCHES = [0]
ASSUMPTIONS = [
    "the decimal context at call time is the default one (precision 28, ROUND_HALF_EVEN, Emin -999999, Emax 999999, InvalidOperation and Overflow trapped)",
    "sys.get_int_max_str_digits() is the CPython default 4300",
    "Decimal(x) for a finite int/float/str/Decimal x is exact and Decimal.as_tuple() reports it (stdlib, used by the runner to serialise arguments and results)",
    "int(float) and int(Decimal) truncate toward zero (modelled; exercised here on integral values only, as the property demands)",
    "the decimal module is the C one on a 64-bit build (the exact constructor's exponent bounds are those of MPD_MAX_EMAX = 999999999999999999)",
    "which characters are decimal digits and white space is read from the running CPython (unicodedata.decimal / str.isspace -> coq/Gen/UnicodeParams.v)",
]
TRUSTED = ["harness/t1_c16.py (CONVERSION table -> coq/Gen/ConversionParams.v; helper bodies -> coq/Gen/ConversionBodyParams.v; "
           "CPython's character tables -> coq/Gen/UnicodeParams.v)"]

KEYS = {None: 0, "null": 1, "bool": 2, "integer": 3, "number": 4, "string": 5, "decimal": 6}
TYPES = {"NoneType": 0, "bool": 1, "int": 2, "float": 3, "str": 4, "Decimal": 5, "Fraction": 6}
CONV_ARGS = ["0", "12", "3.0", "'7'", "Decimal('2')", "True"]


# ------------------------------------------------------------------ inputs

def _digit_inputs(ctx):
    rng = ctx.rng
    top = 3 if ctx.tier == "quick" else 4
    ctx.exhaustive.append(f"digit_string n<={top}, all v<10^n, int/float/Decimal")
    for n in range(1, top + 1):
        for v in range(10 ** n):
            for rep in (0, 1, 2):
                yield "digits_exhaustive", ["ds", n, rep, str(v)]
    for n in range(1, 21):
        for v in sorted({0, 1, 10 ** (n - 1) - 1, 10 ** (n - 1), 10 ** n - 1, 10 ** n // 2, 10 ** n // 3}):
            yield "digits_boundary", ["ds", n, 0, str(v)]
            yield "digits_boundary", ["ds", n, 1, str(v)]      # float(v): the float's own value is what the judge sees
            yield "digits_boundary", ["ds", n, 2, str(v)]
            yield "digits_boundary", ["ds", n, 2, str(v) + ".000"]
            yield "digits_boundary", ["ds", n, 2, _sci(v)]
    count = 1500 if ctx.tier == "quick" else 40000
    for _ in range(count):
        n = rng.randint(1, 20)
        k = rng.randint(1, n)
        v = rng.randrange(10 ** k)
        yield "digits_random", ["ds", n, 0, str(v)]
        if v < 2 ** 53 or rng.random() < 0.3:
            yield "digits_random", ["ds", n, 1, str(v)]
        style = rng.randrange(3)
        text = str(v) if style == 0 else (str(v) + "." + "0" * rng.randint(1, 6) if style == 1 else _sci(v))
        yield "digits_random", ["ds", n, 2, text]
    # the CPython limit on int -> str (4300 digits)
    yield "digits_limit", ["ds", 4300, 2, "9" * 4300]
    yield "digits_limit", ["ds", 4300, 0, "7"]
    yield "digits_limit", ["ds", 4301, 2, "1E+4300"]       # outside the theorem's bound: ValueError, model agrees


def _sci(v):
    """v in scientific spelling with its trailing zeros moved into the exponent"""
    s = str(v)
    t = s.rstrip("0")
    if not t:
        return "0E+0"
    return f"{t}E+{len(s) - len(t)}"


def _dec_text(rng, int_digits, frac_digits):
    s = "-" if rng.random() < 0.4 else ""
    i = str(rng.randrange(10 ** int_digits)) if int_digits else "0"
    f = "".join(rng.choice("0123456789") for _ in range(frac_digits))
    return s + i + ("." + f if f else "")


def _places_inputs(ctx):
    rng = ctx.rng
    top = 1100 if ctx.tier == "quick" else 2500
    ctx.exhaustive.append(f"decimal_places k/1000, |k|<={top}, d<=3")
    for d in range(4):
        for k in range(-top, top + 1):
            a = abs(k)
            yield "places_grid", ["dp", d, 2, ("-" if k < 0 else "") + f"{a // 1000}.{a % 1000:03d}"]
    fixed = [
        (1, "0.125"), (1, "2.5"), (1, "3.5"), (1, "-2.5"), (1, "-0.125"), (1, "0.375"), (1, "3.99"), (1, "1e22"), (1, "5e-324"),
        (1, "1e-07"), (1, "123456.789"), (1, "0.1"), (1, "-0.0"), (1, "1.7976931348623157e308"), (1, "4503599627370497.5"),
        (2, "-0.001"), (2, "  1.005 "), (2, "1_0.5"), (2, "1E+5"), (2, "0E+100"), (2, "-0"), (2, "+7"), (2, ".5"), (2, "5."),
        (3, "1E+25"), (3, "1E+26"), (3, "1E+27"), (3, "1E+28"), (3, "0E-50"), (3, "-0E+3"), (3, "1.00000000000000000000000000005"),
        (0, "0"), (0, "7"), (0, "-7"), (0, str(10 ** 27)), (0, str(10 ** 28 - 1)), (0, str(10 ** 28)), (0, str(-10 ** 15)),
    ]
    for d in range(13):
        for kind, text in fixed:
            yield "places_fixed", ["dp", d, kind, text]
        # both sides of the 28-digit limit
        nines = "9" * (28 - d)
        for frac in ("", ".4", ".5", ".49999", ".50001", ".6"):
            for sign in ("", "-"):
                yield "places_limit", ["dp", d, 3, sign + nines + frac]
                yield "places_limit", ["dp", d, 2, sign + nines[:-1] + "8" + frac]
                yield "places_limit", ["dp", d, 3, sign + "1" + "0" * (28 - d) + frac]
                yield "places_limit", ["dp", d, 3, sign + "1" + "0" * (27 - d) + frac]
        yield "places_limit", ["dp", d, 3, f"1E+{27 - d}"]
        yield "places_limit", ["dp", d, 3, f"1E+{28 - d}"]
        yield "places_limit", ["dp", d, 3, f"9.99E+{27 - d}"]
        yield "places_limit", ["dp", d, 0, str(10 ** (28 - d) - 1)]
        yield "places_limit", ["dp", d, 0, str(10 ** (28 - d))]
    count = 1200 if ctx.tier == "quick" else 40000
    for _ in range(count):
        d = rng.randint(0, 12)
        # ties at place d: digits then a 5 then optional zeros
        t = _dec_text(rng, rng.randint(0, 6), d) + ("5" if d else ".5") + "0" * rng.randint(0, 3)
        yield "places_tie", ["dp", d, rng.choice((2, 3)), t]
        yield "places_random", ["dp", d, rng.choice((2, 3)), _dec_text(rng, rng.randint(0, 15), rng.randint(0, 16))]
        yield "places_random", ["dp", d, 0, str(rng.randrange(-10 ** rng.randint(1, 15), 10 ** rng.randint(1, 15)))]
        x = rng.choice((rng.uniform(-1000, 1000), rng.randrange(-4000, 4000) / 8, rng.randrange(-10 ** 6, 10 ** 6) / 64,
                        rng.uniform(-1, 1) * 10 ** rng.randint(-12, 15), float(rng.randrange(10 ** 9)) / 100))
        yield "places_random", ["dp", d, 1, repr(x)]
        if rng.random() < 0.15:
            yield "places_random", ["dp", d, 3, f"{rng.randrange(1, 10 ** 6)}E{rng.randint(-30, 24)}"]
    # the largest digit count the default context allows, and one beyond (the quantum underflows to 0E-1000026)
    for d in (1000026, 1000027):
        for text in ("1E-1000020", "0E-1000030", "-25E-1000027", "15E-1000027", "1.5E-1000030"):
            yield "places_etiny", ["dp", d, 3, text]
    # negative digit counts: the quantum is 1E+|d|.  Small ones round to tens, hundreds ...
    for d in range(-12, 0):
        for text in ("0", "5", "15", "25", "-25", "149", "150", "151", "12345", "12500", "13500", "1E+3", "1E+20", "99999E+10",
                     "9" * 28, "9" * 29, "1E+27", "1E+28", "5E-1", "-0", "4.999E+%d" % (-d - 1), "5.000E+%d" % (-d - 1), "5.001E+%d" % (-d - 1)):
            yield "places_negative", ["dp", d, 3, text]
        yield "places_negative", ["dp", d, 0, str(rng.randrange(-10 ** 15, 10 ** 15))]
        yield "places_negative", ["dp", d, 1, repr(rng.uniform(-1, 1) * 10 ** rng.randint(0, 15))]
        yield "places_negative", ["dp", d, 2, " %d.5 " % rng.randrange(10 ** 6)]
        for frac in ("", ".5"):
            yield "places_negative", ["dp", d, 3, "9" * (28 - d) + frac]
            yield "places_negative", ["dp", d, 3, "9" * (27 - d) + frac]
            yield "places_negative", ["dp", d, 3, "1" + "0" * (28 - d) + frac]
    # ... the large ones meet Emax = 999999: the result must keep exponent + digits - 1 <= 999999
    for d in (-999999, -999998, -999997, -999990, -999973, -999972, -999971, -999950):
        e = -d
        room = 999999 - e + 1                      # digits a result may have
        for k in sorted({1, 2, 3, room - 1, room, room + 1, 27, 28, 29} - {0, -1}):
            if k < 1:
                continue
            for digits in ("1" + "0" * (k - 1), "9" * k, "5" + "0" * (k - 1), "12345678901234567890123456789"[:k]):
                for shift in (0, 1, 2, -1, -2):
                    if shift >= 0:
                        yield "places_emax", ["dp", d, 3, f"{digits}{'0' * 0}E+{e + shift}"]
                    else:
                        yield "places_emax", ["dp", d, 3, f"{digits}{'5' if shift == -1 else '49'}E+{e + shift}"]
                        yield "places_emax", ["dp", d, 3, f"-{digits}{'4' if shift == -1 else '51'}E+{e + shift}"]
        for text in (f"0E+{e}", f"-0E+{e + 5}", f"0E+{e - 5}", f"5E+{e - 1}", f"15E+{e - 1}", f"95E+{e - 1}", f"4E+{e - 1}", f"1E+{e + 30}",
                     f"1E+{e - 3}", f"9995E+{e - 3}", f"15E+{e}", f"10E+{e}", f"9E+{e}"):
            yield "places_emax", ["dp", d, 3, text]
    # the quantum Decimal(1).scaleb(-d) itself: Overflow below -999999, InvalidOperation beyond +-2000054, Etiny above 1000026
    for d in (-1000000, -1000001, -1500000, -2000054, -2000055, -3000000, 2000054, 2000055, 3000000, 1000028, 1500000):
        for kind, text in ((0, "1"), (0, "0"), (3, "0E-1000026"), (3, "1E-1000026"), (3, "1E+999999"), (3, "0E+999999"), (1, "2.5")):
            yield "places_quantum", ["dp", d, kind, text]


def _conv_inputs(ctx):
    ctx.exhaustive.append("CONVERSION: 7 keys x 6 argument types")
    for key in ["null", "bool", "integer", "number", "string", "decimal", None]:
        for a in range(len(CONV_ARGS)):
            yield "conversion", ["cv", key, a]


# ------------------------------------------------------------------ arguments of any class
# An argument is described as ["none"] | ["bool", 0|1] | ["int", text] | ["float", text] | ["str", text] | ["dec", text] |
# ["frac", num-text, den-text]; _arg builds the Python value.

CLASS_ARGS = [
    ["none"], ["bool", 1], ["bool", 0], ["int", "0"], ["int", "12"], ["int", "-3"], ["int", "99999"], ["int", "100000"],
    ["float", "3.0"], ["float", "12.9"], ["float", "-12.9"], ["float", "-0.0"], ["float", "1e22"], ["float", "5e-324"],
    ["float", "nan"], ["float", "inf"], ["float", "-inf"], ["float", "1e400"], ["float", "-1e400"], ["float", "1.7976931348623157e308"],
    ["int", str(10 ** 400)], ["int", str(-10 ** 400)], ["int", str(2 ** 1024 - 2 ** 970)], ["int", str(2 ** 1024 - 2 ** 970 - 1)],
    ["int", str(-(2 ** 1024 - 2 ** 970))], ["int", str(-(2 ** 1024 - 2 ** 970) + 1)], ["int", str(2 ** 1024)],
    ["int", "9" * 4300], ["int", "1" + "0" * 4300], ["int", "-" + "9" * 4300], ["int", "-1" + "0" * 4300],
    ["dec", "2"], ["dec", "12.9"], ["dec", "-12.9"], ["dec", "1E+3"], ["dec", "1020.00"], ["dec", "0E-7"], ["dec", "1E-7"], ["dec", "0.000001"],
    ["dec", "-0"], ["dec", "0E+5"], ["dec", "1.5E+30"], ["dec", "123456789012345678901234567890.5"], ["dec", "1E+400"], ["dec", "-1E-400"],
    ["dec", "NaN"], ["dec", "-NaN"], ["dec", "sNaN"], ["dec", "NaN123"], ["dec", "Infinity"], ["dec", "-Infinity"],
    ["frac", "7", "2"], ["frac", "-7", "2"], ["frac", "0", "1"], ["frac", "3", "1"], ["frac", "1", "3"], ["frac", "99999", "1"],
    ["frac", str(7 * (2 ** 1024 - 2 ** 970)), "7"], ["frac", str(7 * (2 ** 1024 - 2 ** 970) - 1), "7"], ["frac", str(-7 * (2 ** 1024 - 2 ** 970) + 1), "7"],
    ["frac", "1" + "0" * 4300, "7"], ["frac", "7", "1" + "0" * 4299 + "1"], ["frac", "9" * 4300, "7"],
    ["str", "1.5"], ["str", "x"], ["str", ""], ["str", " 7 "], ["str", "nan"], ["str", "7"], ["str", "True"], ["str", "None"],
]

WS_ASCII = [" ", "\t", "\n", "\x0b", "\x0c", "\r"]
WS_UNICODE = ["\x85", "\xa0", "\u1680", "\u2000", "\u2003", "\u200a", "\u2028", "\u2029", "\u202f", "\u205f", "\u3000"]
WS_SEPARATORS = ["\x1c", "\x1d", "\x1e", "\x1f"]          # str.isspace, but not white space for int() and float()
NOT_WS = ["\u200b", "\ufeff", "\x00", "\x7f", "\x08"]
NOT_DECIMAL = ["\u00b2", "\u00bd", "\u2168", "\u4e09", "\u2460", "\u0bf0", "\u3007", "\u2080", "\u1369"]   # numeric, not category Nd
EDIT_ALPHABET = list("0123456789__++--..eEnaifsNIty xX,?/") + ["\t", "\xa0", "\u2003", "\x1c", "\x00", "\u0663", "\uff17", "\u00b2", "\U0001d7d8"]


def _digit_zeros():
    """the zero of every script that has decimal digits (generation only: which characters to try)"""
    import sys
    import unicodedata
    return [c for c in range(sys.maxunicode + 1) if unicodedata.decimal(chr(c), None) == 0]


def _spell(rng, digits, zeros, mixed=0.3):
    """the digit string in the digits of one script, or of a different script per digit"""
    z = rng.choice(zeros)
    return "".join(chr((rng.choice(zeros) if rng.random() < mixed else z) + int(ch)) for ch in digits)


def _fixed_texts():
    m = 999999999999999999
    out = [
        "", " ", "\t\n", "7", " 7 ", "12", "-5", "+5", "- 5", "+ 5", "+-1", "--1", "++1", "+", "-", "_", "+_1", "-_1", "_1", "1_", "1__0", "1_0",
        "1_000", "1_2_3", "__1__", "00012", "-0", "+0", "0", "1 2", "1\t2", " + 1", "12.5", "1e3", "1.0", "1.", ".5", ".", "5.", "1e", "e5", "E1",
        "1E+5", "1e+5", "1e-5", "1e+", "1e-", "1e++5", "1e5.0", "1.5e1.5", "1..5", "1.5.", "1.5e", "+.5", "-.", "-.e1", ".e1", "0e0", "1ee5",
        "1_0.5", "1_.5", "1._5", "1.5_", "1.5_0", "1e_5", "1_e5", "1e5_0", "1e+_5", "1e1_0", "_.5", "._5", "1_0e1_0", "1__0.5", "1e5_",
        "nan", "NaN", "nAn", " nan ", "+nan", "-nan", "- nan", "nan1", "nan123", "NaN0009", "nan_", "NaN_1", "na_n", "n_an", "nan.", "nane5", "nann",
        "snan", "sNaN", "-sNaN", "snan123", "sNa_N", "ssnan", "snann", "inf", "Inf", "iNF", "+inf", "-inf", "inf1", "inf0", "i_nf", "in_f", "infinity",
        "Infinity", "InFiNiTy", "-Infinity", "infinit", "infinityy", "Inf_inity", "infinity_", " infinity\n", "in f",
        "0x10", "0b1", "0o7", "1,5", "1'000", "True", "None", "x", "abc", "1x", "x1", "?", "1?", "12L", "1j", "(1)", "1/2", "1 /2",
        "1\x002", "1\x00", "\x001", "1.5\x00", "\x1c1", "1\x1c", "\x1d1\x1e", "\x1f7", "\x1c", "1\x1c2", "\x857", "7\x85", "\xa01", "1\u2003",
        "\u30001\u3000", "\u200b1", "1\ufeff", "\x7f1", "1\x7f", "1\xa02", "1\u2003.5",
        "\u0663", "\u0661\u0662\u0663", "1\u0661", "-\u0661_2", "\u0663.\u0665", "\u0661e\u0662", "1\u066b5", "\uff11\uff12", "\uff11.\uff15",
        "NaN\u0663", "\u00b2", "1\u00b2", "\u00bd", "\u2168", "\u4e09", "\U0001d7d8\U0001d7d9", "\U0001e950", "\u0966\u0967_\u0968",
        "1e400", "1e-400", "1e9999999999999999999", "1e-9999999999999999999", "0e9999999999999999999", "9" * 400, "9" * 400 + ".5", "1" + "0" * 400,
        f"1e{m}", f"1e{m + 1}", f"10e{m}", f"0e{m}", f"0e{m + 1}", f"00e{m}", f"0.0e{m + 1}", f"0.1e{m + 1}", f"0.1e{m + 2}", f"000123e{m - 2}",
        f"000123e{m - 1}", f"1e-{2 * m - 1}", f"1e-{2 * m}", f"0e-{2 * m - 1}", f"0e-{2 * m}", f"0.0e-{2 * m - 2}", f"0.0e-{2 * m - 1}",
        f"1.0e-{2 * m - 2}", f"1.0e-{2 * m - 1}", f"-1e{m}", f"-1e{m + 1}", f"1_e_{m}", "1e" + "9" * 40, "1e-" + "9" * 40, "0e-" + "9" * 40,
        "9" * 4299, "9" * 4300, "9" * 4301, "0" * 4301, "0" * 4300, " " + "1" * 4300 + " ", "-" + "9" * 4300, "-" + "9" * 4301,
        "1_" * 4299 + "1", "1_" * 4300 + "1", "+" + "0" * 4299 + "5", "\u0663" * 4300, "\u0663" * 4301, "9" * 4301 + ".0", "9" * 4301 + "e0",
        "1" * 4300 + "_", "_" + "1" * 4300, "1" * 2150 + "__" + "1" * 2150,
    ]
    return [x for x in out if x is not None]


def _grammar_texts(rng, zeros, count):
    """strings built from the int grammar (white space, sign, groups of digits joined by underscores) with a fault of a known
    kind injected into a part of them, and float / Decimal spellings of the same digits"""
    ws_all = WS_ASCII + WS_UNICODE
    for _ in range(count):
        ws1 = "".join(rng.choice(ws_all) for _ in range(rng.choice((0, 0, 1, 2))))
        ws2 = "".join(rng.choice(ws_all) for _ in range(rng.choice((0, 0, 1, 2))))
        sign = rng.choice(("", "", "+", "-"))
        groups = [str(rng.randrange(10 ** rng.randint(1, 6))).zfill(rng.randint(1, 4)) for _ in range(rng.choice((1, 1, 1, 2, 3)))]
        style = rng.random()
        if style < 0.35:
            groups = [_spell(rng, g, zeros, mixed=rng.choice((0.0, 0.0, 0.5))) for g in groups]
        body = "_".join(groups)
        shape = rng.randrange(14)
        if shape <= 3:
            text = ws1 + sign + body + ws2                                   # a well formed integer
        elif shape == 4:
            text = ws1 + sign + rng.choice(ws_all + WS_SEPARATORS) + body + ws2    # white space after the sign
        elif shape == 5:
            text = ws1 + sign + rng.choice(("_" + body, body + "_", body.replace("_", "__") if "_" in body else body + "__1")) + ws2
        elif shape == 6:
            cut = rng.randrange(len(body) + 1)
            text = ws1 + sign + body[:cut] + rng.choice(ws_all + WS_SEPARATORS + NOT_WS + NOT_DECIMAL + ["x", ",", "?"]) + body[cut:] + ws2
        elif shape == 7:
            text = rng.choice(WS_SEPARATORS + NOT_WS) + sign + body + ws2 if rng.random() < 0.5 else ws1 + sign + body + rng.choice(WS_SEPARATORS + NOT_WS)
        elif shape == 8:
            frac = str(rng.randrange(10 ** rng.randint(0, 4))) if rng.random() < 0.8 else ""
            text = ws1 + sign + rng.choice((body + "." + frac, "." + (frac or "5"), body + ".")) + ws2         # a fraction
        elif shape == 9:
            ex = rng.choice(("e", "E")) + rng.choice(("", "+", "-")) + rng.choice((str(rng.randrange(40)), "1_0", "", "_5", "5_"))
            text = ws1 + sign + body + rng.choice(("", "." + str(rng.randrange(100)))) + ex + ws2                # an exponent
        elif shape == 10:
            word = rng.choice(("nan", "inf", "infinity", "snan", "NaN", "Infinity", "sNaN", "INF", "nAN", "infinit", "na", "nan7", "snan07", "inf7"))
            text = ws1 + sign + word + ws2
        elif shape == 11:
            text = ws1 + rng.choice(("+-", "-+", "--", "++", "+ ", "")) + body + ws2
        elif shape == 12:
            text = ws1 + sign + _spell(rng, groups[0], zeros, mixed=1.0) + ws2                                   # one script per digit
        else:
            text = ws1 + ws2
        yield text


def _edited_texts(rng, pool, count):
    for _ in range(count):
        s = list(rng.choice(pool))
        if len(s) > 60:
            continue
        for _ in range(rng.choice((1, 1, 2, 3))):
            op = rng.randrange(4)
            i = rng.randrange(len(s) + 1)
            if op == 0 or not s:
                s.insert(i, rng.choice(EDIT_ALPHABET))
            elif op == 1:
                del s[min(i, len(s) - 1)]
            elif op == 2:
                s[min(i, len(s) - 1)] = rng.choice(EDIT_ALPHABET)
            else:
                j = min(i, len(s) - 1)
                s.insert(j, s[j])
        yield "".join(s)


def _is_big(a):
    return any(isinstance(z, str) and len(z) > 4000 for z in a[1:])


def _moderate(text):
    """generation only: leave out of the decimal_places streams the texts whose exponent is so far from the quantum that the
    judge would have to write out a power of ten with thousands of digits (they still go to Decimal() through CONVERSION)"""
    from decimal import Decimal, InvalidOperation
    try:
        x = Decimal(text)
    except (InvalidOperation, ValueError, TypeError):
        return True
    return not x.is_finite() or abs(x.as_tuple().exponent) <= 2000


def _arg_inputs(ctx):
    rng = ctx.rng
    zeros = _digit_zeros()
    keys = ["null", "bool", "integer", "number", "string", "decimal", None]
    # every class of argument through the three calls.  Arguments of about 4300 digits cost the judge seconds each (the model
    # prints and reads them digit by digit): all their cases are collected in [big] and a random part of them is run.
    big = []
    small_args = [a for a in CLASS_ARGS if not _is_big(a)]
    ctx.exhaustive.append(f"CONVERSION: 7 keys x {len(small_args)} arguments of every class")
    for a in CLASS_ARGS:
        out = big if _is_big(a) else None
        for key in keys:
            case = ("conversion_classes", ["cw", key, a])
            if out is None:
                yield case
            else:
                out.append(case)
        for n in (1, 5, 20) + ((4300, 4301) if out is not None else ()):
            case = ("digits_classes", ["dv", n, a])
            if out is None:
                yield case
            else:
                out.append(case)
        for d in (0, 2, -1):
            case = ("places_classes", ["pv", d, a])
            if out is None:
                yield case
            else:
                out.append(case)
    # every decimal digit of every script, alone
    ctx.exhaustive.append(f"digit_string(3, c) and float(c) or Decimal(c) for each of the {10 * len(zeros)} decimal digit characters c")
    for z in zeros:
        for i in range(10):
            yield "digits_text", ["dv", 3, ["str", chr(z + i)]]
            yield "conversion_text", ["cw", rng.choice(("number", "decimal")), ["str", chr(z + i)]]
    # every string up to a length over the characters the three text grammars care about
    alphabet = ["1", "0", "_", "+", "-", ".", "e", "E", " ", "n", "a", "i", "f", "s", "N", "\x1c", "\u0663", "x"]
    top = 3 if ctx.tier == "quick" else 4
    ctx.exhaustive.append(f"int / float / Decimal / digit_string of every string of length <= {top} over {len(alphabet)} characters "
                          "(digits, underscore, signs, point, e E, blank, separator 28, the letters of nan inf snan, an Arabic-Indic digit, x)")
    import itertools
    for n in range(top + 1):
        for chars in itertools.product(alphabet, repeat=n):
            text = "".join(chars)
            yield "text_exhaustive", ["cw", "integer", ["str", text]]
            yield "text_exhaustive", ["cw", "number", ["str", text]]
            yield "text_exhaustive", ["cw", "decimal", ["str", text]]
            if n <= 3:
                yield "text_exhaustive", ["dv", 3, ["str", text]]
                yield "text_exhaustive", ["pv", 1, ["str", text]]
    fixed = _fixed_texts()
    n_gram, n_edit = (1500, 1500) if ctx.tier == "quick" else (10000, 10000)
    grammar = list(_grammar_texts(rng, zeros, n_gram))
    edited = list(_edited_texts(rng, fixed + grammar[:400], n_edit))
    for text in fixed:
        cases = []
        for n in ((5, 4300, 4301) if len(text) > 4000 else (1, 5, 20)):
            cases.append(("digits_text", ["dv", n, ["str", text]]))
        for key in ("integer", "number", "decimal", "string", "bool"):
            cases.append(("conversion_text", ["cw", key, ["str", text]]))
        if _moderate(text):
            for d in (2,) if len(text) > 4000 else (0, 2, 12):
                cases.append(("places_text", ["pv", d, ["str", text]]))
        if len(text) > 4000:
            big.extend(cases)
        else:
            yield from cases
    # the limit cases themselves (one side each of 4300 digits for int(str), str(int), digit_string) always run
    yield "digits_text", ["dv", 5, ["str", "9" * 4301]]
    yield "conversion_text", ["cw", "integer", ["str", "1" * 4300]]
    yield "conversion_classes", ["cw", "string", ["int", "1" + "0" * 4300]]
    yield from rng.sample(big, min(len(big), 6 if ctx.tier == "quick" else 15))
    for text in grammar + edited:
        yield "digits_text", ["dv", rng.randint(1, 20), ["str", text]]
        yield "conversion_text", ["cw", "integer", ["str", text]]
        yield "conversion_text", ["cw", "number", ["str", text]]
        yield "conversion_text", ["cw", "decimal", ["str", text]]
        if _moderate(text):
            yield "places_text", ["pv", rng.randint(0, 6), ["str", text]]
    # random arguments of the numeric classes through digit_string and CONVERSION (values, not only types)
    count = 300 if ctx.tier == "quick" else 6000
    for _ in range(count):
        kind = rng.randrange(5)
        if kind == 0:
            a = ["int", str(rng.randrange(-10 ** rng.randint(1, 30), 10 ** rng.randint(1, 30)))]
        elif kind == 1:
            a = ["float", repr(rng.choice((rng.uniform(-1e6, 1e6), float(rng.randrange(10 ** 9)), rng.uniform(-1, 1) * 10 ** rng.randint(-20, 30))))]
        elif kind == 2:
            a = ["dec", _dec_text(rng, rng.randint(0, 20), rng.randint(0, 8)) + rng.choice(("", "", "E+%d" % rng.randint(0, 12), "E-%d" % rng.randint(0, 12)))]
        elif kind == 3:
            a = ["frac", str(rng.randrange(-10 ** 12, 10 ** 12)), str(rng.randrange(1, 10 ** rng.randint(1, 6)))]
        else:
            a = ["int", str(rng.choice((1, -1)) * (2 ** 1024 - 2 ** 970 + rng.randrange(-3, 3) * rng.choice((1, 2 ** 900))))]
        yield "digits_classes", ["dv", rng.randint(1, 20), a]
        yield "conversion_classes", ["cw", rng.choice(keys), a]
        if kind != 4:
            yield "places_classes", ["pv", rng.randint(-3, 8), a]


def inputs(ctx):
    yield from _conv_inputs(ctx)
    yield from _arg_inputs(ctx)
    yield from _digit_inputs(ctx)
    yield from _places_inputs(ctx)


# ------------------------------------------------------------------ observation

def _wint(v):
    """an int for the wire: itself, or - when it has more digits than CPython converts between int and str in one go (the wire
    is written and re-read with str() and int()) - the list [sign, limb, ..., limb] of its base 10^4000 digits, most
    significant first"""
    if abs(v) < 10 ** 4000:
        return int(v)
    m, base, limbs = abs(v), 10 ** 4000, []
    while m:
        m, r = divmod(m, base)
        limbs.append(r)
    return [1 if v < 0 else 0] + limbs[::-1]


def _triple(x):
    """exact decimal expansion of a finite number: [sign, coefficient, exponent]"""
    from decimal import Decimal
    t = (x if isinstance(x, Decimal) else Decimal(x)).as_tuple()
    if not isinstance(t.exponent, int):
        raise ValueError("special value")
    c = 0
    for dg in t.digits:
        c = c * 10 + dg
    return [t.sign, _wint(c), t.exponent]


def _value(kind_of, tag, text):
    from decimal import Decimal
    if kind_of == "ds":
        return [lambda: int(text), lambda: float(int(text)), lambda: Decimal(text)][tag]()
    return [lambda: int(text), lambda: float(text), lambda: text, lambda: Decimal(text)][tag]()


def observe(ctx, inp):
    from decimal import Decimal
    import stingray.schema_instance as si
    what = inp[0]
    if what == "ds":
        _, n, rep, text = inp
        value = _value("ds", rep, text)
        return [1, n, rep, _triple(value), observe_call(lambda: S(si.digit_string(n, value)), list)]
    if what == "dp":
        _, d, kind, text = inp
        value = _value("dp", kind, text)
        kept = []

        def first_call():
            kept.append(si.decimal_places(d, value))
            return _triple(kept[0])

        o1 = observe_call(first_call, list)
        if o1[0] == 0:
            o2 = observe_call(lambda: _triple(si.decimal_places(d, kept[0])), list)
        else:
            o2 = [1, 0]
        return [2, d, kind, _triple(value), o1, o2]
    if what == "cv":
        _, key, a = inp
        arg = eval(CONV_ARGS[a], {"Decimal": Decimal})
        return [3, KEYS[key], TYPES.get(type(arg).__name__, 9),
                observe_call(lambda: TYPES.get(type(si.CONVERSION[key](arg)).__name__, 9), int)]
    if what == "dv":
        _, n, a = inp
        value = _arg(a)
        return [4, n, _wire(value), observe_call(lambda: int(value), _wint), observe_call(lambda: S(si.digit_string(n, value)), list)]
    if what == "pv":
        _, d, a = inp
        value = _arg(a)
        return [5, d, _wire(value), observe_call(lambda: _wire(Decimal(value)), list),
                observe_call(lambda: _wire(si.decimal_places(d, value)), list)]
    if what == "cw":
        _, key, a = inp
        value = _arg(a)
        kept = []

        def call():
            kept.append(si.CONVERSION[key](value))
            return TYPES.get(type(kept[0]).__name__, 9)

        o = observe_call(call, int)
        return [6, KEYS[key], _wire(value), o, _wire(kept[0]) if kept else [9]]
    raise ValueError(inp)


def _arg(a):
    """the Python value an argument description denotes"""
    from decimal import Decimal
    from fractions import Fraction
    tag = a[0]
    if tag == "none":
        return None
    if tag == "bool":
        return bool(a[1])
    if tag == "int":
        return _big_int(a[1])
    if tag == "float":
        return float(a[1])
    if tag == "str":
        return a[1]
    if tag == "dec":
        return Decimal(a[1])
    if tag == "frac":
        return Fraction(_big_int(a[1]), _big_int(a[2]))
    raise ValueError(a)


def _big_int(text):
    """int(text) without CPython's limit on the number of digits (arguments of 4301 digits are wanted)"""
    neg = text.startswith("-")
    v = 0
    digits = text.lstrip("+-")
    for i in range(0, len(digits), 4000):
        chunk = digits[i:i + 4000]
        v = v * 10 ** len(chunk) + int(chunk)
    return -v if neg else v


def _wire(v):
    """a value of one of the described classes as (tag ...); [9] for anything else"""
    from decimal import Decimal
    from fractions import Fraction
    if v is None:
        return [0]
    if type(v) is bool:
        return [1, int(v)]
    if type(v) is int:
        return [2, _wint(v)]
    if type(v) is float:
        if v != v:
            return [4, 0]
        if v in (float("inf"), float("-inf")):
            return [4, 1 if v > 0 else 2]
        return [3, _triple(v)]
    if type(v) is str:
        return [5, S(v)]
    if type(v) is Decimal:
        if v.is_nan():
            return [7, 1 if v.is_snan() else 0]
        if v.is_infinite():
            return [7, 3 if v.is_signed() else 2]
        return [6, _triple(v)]
    if type(v) is Fraction:
        return [8, _wint(v.numerator), _wint(v.denominator)]
    return [9]


def describe(inp):
    if inp[0] == "ds":
        rep = ["int({})", "float({})", "Decimal('{}')"][inp[2]].format(inp[3] if len(inp[3]) < 60 else inp[3][:20] + "...")
        return f"digit_string({inp[1]}, {rep})"
    if inp[0] == "dp":
        arg = ["{}", "float('{}')", "'{}'", "Decimal('{}')"][inp[2]].format(inp[3])
        return f"decimal_places({inp[1]}, {arg})"
    if inp[0] in ("dv", "pv", "cw"):
        a = inp[2]
        body = a[1] if len(a) > 1 else ""
        if isinstance(body, str) and len(body) > 60:
            body = body[:24] + "..." + body[-8:] + f" ({len(body)} characters)"
        shown = {"none": "None", "bool": str(bool(body)), "int": f"{body}", "float": f"float({body!r})", "str": f"{body!r}",
                 "dec": f"Decimal({body!r})", "frac": f"Fraction({body}, {a[2] if len(a) > 2 and len(a[2]) < 40 else '...'})"}[a[0]]
        if inp[0] == "dv":
            return f"digit_string({inp[1]}, {shown})"
        if inp[0] == "pv":
            return f"decimal_places({inp[1]}, {shown})"
        return f"CONVERSION[{inp[1]!r}]({shown})"
    return f"CONVERSION[{inp[1]!r}]({CONV_ARGS[inp[2]]})"
