"""C16 - conversion helpers restore exactly what the spreadsheet mangled
(schema_instance.digit_string / decimal_places / CONVERSION).

The runner only builds the argument, calls the real function and serialises argument and
result: numbers as Decimal(x).as_tuple() (sign, coefficient, exponent), strings as code
points, types as small codes.  Whether a result is right is decided by coq/Judge/JC16.v."""
from lib import S, observe_call

GEN = ["ConversionParams", "ConversionBodyParams"]
RULE = ("digit_string: every v in [0, 10^n) for n <= 3 (quick) / 4 (thorough) as int, float and Decimal; boundary values "
        "(0, 1, 10^(n-1)-1, 10^(n-1), 10^n-1) and random v for n = 1..20 as int, float (the float's own exact value is the input), "
        "Decimal in plain, trailing-zero-fraction and scientific spelling; n = 4300 at the CPython int->str digit limit. "
        "decimal_places: every k/1000 with |k| <= 1100 (quick) / 2500 (thorough) for d = 0..3 (all ties, both parities, both signs); "
        "d = 0..12 with random int, float, str and Decimal arguments, constructed ties, scale-up cases and both sides of the "
        "28-digit limit; d at the Etiny bound. CONVERSION: every key on six argument types. "
        "Branch = which model branch the case took (10-12 digit_string by representation, 20 exact, 21 round down, 22 round up, "
        "23 tie stays even, 24 tie goes up to even, 25 outside the 28-digit domain, 26 zero, 30+key conversion); "
        "distinct = distinct case lines.")
TRIVIAL_BRANCHES = [0]
ASSUMPTIONS = [
    "the decimal context at call time is the default one (precision 28, ROUND_HALF_EVEN, Emin -999999, Emax 999999, InvalidOperation trapped)",
    "sys.get_int_max_str_digits() is the CPython default 4300",
    "Decimal(x) for a finite int/float/str/Decimal x is exact and Decimal.as_tuple() reports it (stdlib, used by the runner to serialise arguments and results)",
    "int(float) and int(Decimal) truncate toward zero (modelled; exercised here on integral values only, as the property demands)",
]
TRUSTED = ["harness/t1_c16.py (CONVERSION table -> coq/Gen/ConversionParams.v)"]

KEYS = {None: 0, "null": 1, "bool": 2, "integer": 3, "number": 4, "string": 5, "decimal": 6}
TYPES = {"NoneType": 0, "bool": 1, "int": 2, "float": 3, "str": 4, "Decimal": 5}
CONV_ARGS = ["0", "12", "3.0", "'7'", "Decimal('2')", "True"]


# ------------------------------------------------------------------ inputs

def _digit_inputs(ctx):
    rng = ctx.rng
    top = 3 if ctx.tier == "quick" else 4
    ctx.exhaustive.append(f"digit_string n<={top}, all v<10^n, int/float/Decimal")
    for n in range(1, top + 1):
        for v in range(10 ** n):
            for rep in (0, 1, 2):
                yield "digits_exhaustive", ["ds", n, rep, str(v)]
    for n in range(1, 21):
        for v in sorted({0, 1, 10 ** (n - 1) - 1, 10 ** (n - 1), 10 ** n - 1, 10 ** n // 2, 10 ** n // 3}):
            yield "digits_boundary", ["ds", n, 0, str(v)]
            yield "digits_boundary", ["ds", n, 1, str(v)]      # float(v): the float's own value is what the judge sees
            yield "digits_boundary", ["ds", n, 2, str(v)]
            yield "digits_boundary", ["ds", n, 2, str(v) + ".000"]
            yield "digits_boundary", ["ds", n, 2, _sci(v)]
    count = 1500 if ctx.tier == "quick" else 40000
    for _ in range(count):
        n = rng.randint(1, 20)
        k = rng.randint(1, n)
        v = rng.randrange(10 ** k)
        yield "digits_random", ["ds", n, 0, str(v)]
        if v < 2 ** 53 or rng.random() < 0.3:
            yield "digits_random", ["ds", n, 1, str(v)]
        style = rng.randrange(3)
        text = str(v) if style == 0 else (str(v) + "." + "0" * rng.randint(1, 6) if style == 1 else _sci(v))
        yield "digits_random", ["ds", n, 2, text]
    # the CPython limit on int -> str (4300 digits)
    yield "digits_limit", ["ds", 4300, 2, "9" * 4300]
    yield "digits_limit", ["ds", 4300, 0, "7"]
    yield "digits_limit", ["ds", 4301, 2, "1E+4300"]       # outside the theorem's bound: ValueError, model agrees


def _sci(v):
    """v in scientific spelling with its trailing zeros moved into the exponent"""
    s = str(v)
    t = s.rstrip("0")
    if not t:
        return "0E+0"
    return f"{t}E+{len(s) - len(t)}"


def _dec_text(rng, int_digits, frac_digits):
    s = "-" if rng.random() < 0.4 else ""
    i = str(rng.randrange(10 ** int_digits)) if int_digits else "0"
    f = "".join(rng.choice("0123456789") for _ in range(frac_digits))
    return s + i + ("." + f if f else "")


def _places_inputs(ctx):
    rng = ctx.rng
    top = 1100 if ctx.tier == "quick" else 2500
    ctx.exhaustive.append(f"decimal_places k/1000, |k|<={top}, d<=3")
    for d in range(4):
        for k in range(-top, top + 1):
            a = abs(k)
            yield "places_grid", ["dp", d, 2, ("-" if k < 0 else "") + f"{a // 1000}.{a % 1000:03d}"]
    fixed = [
        (1, "0.125"), (1, "2.5"), (1, "3.5"), (1, "-2.5"), (1, "-0.125"), (1, "0.375"), (1, "3.99"), (1, "1e22"), (1, "5e-324"),
        (1, "1e-07"), (1, "123456.789"), (1, "0.1"), (1, "-0.0"), (1, "1.7976931348623157e308"), (1, "4503599627370497.5"),
        (2, "-0.001"), (2, "  1.005 "), (2, "1_0.5"), (2, "1E+5"), (2, "0E+100"), (2, "-0"), (2, "+7"), (2, ".5"), (2, "5."),
        (3, "1E+25"), (3, "1E+26"), (3, "1E+27"), (3, "1E+28"), (3, "0E-50"), (3, "-0E+3"), (3, "1.00000000000000000000000000005"),
        (0, "0"), (0, "7"), (0, "-7"), (0, str(10 ** 27)), (0, str(10 ** 28 - 1)), (0, str(10 ** 28)), (0, str(-10 ** 15)),
    ]
    for d in range(13):
        for kind, text in fixed:
            yield "places_fixed", ["dp", d, kind, text]
        # both sides of the 28-digit limit
        nines = "9" * (28 - d)
        for frac in ("", ".4", ".5", ".49999", ".50001", ".6"):
            for sign in ("", "-"):
                yield "places_limit", ["dp", d, 3, sign + nines + frac]
                yield "places_limit", ["dp", d, 2, sign + nines[:-1] + "8" + frac]
                yield "places_limit", ["dp", d, 3, sign + "1" + "0" * (28 - d) + frac]
                yield "places_limit", ["dp", d, 3, sign + "1" + "0" * (27 - d) + frac]
        yield "places_limit", ["dp", d, 3, f"1E+{27 - d}"]
        yield "places_limit", ["dp", d, 3, f"1E+{28 - d}"]
        yield "places_limit", ["dp", d, 3, f"9.99E+{27 - d}"]
        yield "places_limit", ["dp", d, 0, str(10 ** (28 - d) - 1)]
        yield "places_limit", ["dp", d, 0, str(10 ** (28 - d))]
    count = 1200 if ctx.tier == "quick" else 40000
    for _ in range(count):
        d = rng.randint(0, 12)
        # ties at place d: digits then a 5 then optional zeros
        t = _dec_text(rng, rng.randint(0, 6), d) + ("5" if d else ".5") + "0" * rng.randint(0, 3)
        yield "places_tie", ["dp", d, rng.choice((2, 3)), t]
        yield "places_random", ["dp", d, rng.choice((2, 3)), _dec_text(rng, rng.randint(0, 15), rng.randint(0, 16))]
        yield "places_random", ["dp", d, 0, str(rng.randrange(-10 ** rng.randint(1, 15), 10 ** rng.randint(1, 15)))]
        x = rng.choice((rng.uniform(-1000, 1000), rng.randrange(-4000, 4000) / 8, rng.randrange(-10 ** 6, 10 ** 6) / 64,
                        rng.uniform(-1, 1) * 10 ** rng.randint(-12, 15), float(rng.randrange(10 ** 9)) / 100))
        yield "places_random", ["dp", d, 1, repr(x)]
        if rng.random() < 0.15:
            yield "places_random", ["dp", d, 3, f"{rng.randrange(1, 10 ** 6)}E{rng.randint(-30, 24)}"]
    # the largest digit count the default context allows, and one beyond (the quantum underflows to 0E-1000026)
    for d in (1000026, 1000027):
        for text in ("1E-1000020", "0E-1000030", "-25E-1000027", "15E-1000027", "1.5E-1000030"):
            yield "places_etiny", ["dp", d, 3, text]


def _conv_inputs(ctx):
    ctx.exhaustive.append("CONVERSION: 7 keys x 6 argument types")
    for key in ["null", "bool", "integer", "number", "string", "decimal", None]:
        for a in range(len(CONV_ARGS)):
            yield "conversion", ["cv", key, a]


def inputs(ctx):
    yield from _conv_inputs(ctx)
    yield from _digit_inputs(ctx)
    yield from _places_inputs(ctx)


# ------------------------------------------------------------------ observation

def _triple(x):
    """exact decimal expansion of a finite number: [sign, coefficient, exponent]"""
    from decimal import Decimal
    t = (x if isinstance(x, Decimal) else Decimal(x)).as_tuple()
    if not isinstance(t.exponent, int):
        raise ValueError("special value")
    c = 0
    for dg in t.digits:
        c = c * 10 + dg
    return [t.sign, c, t.exponent]


def _value(kind_of, tag, text):
    from decimal import Decimal
    if kind_of == "ds":
        return [lambda: int(text), lambda: float(int(text)), lambda: Decimal(text)][tag]()
    return [lambda: int(text), lambda: float(text), lambda: text, lambda: Decimal(text)][tag]()


def observe(ctx, inp):
    from decimal import Decimal
    import stingray.schema_instance as si
    what = inp[0]
    if what == "ds":
        _, n, rep, text = inp
        value = _value("ds", rep, text)
        return [1, n, rep, _triple(value), observe_call(lambda: S(si.digit_string(n, value)), list)]
    if what == "dp":
        _, d, kind, text = inp
        value = _value("dp", kind, text)
        kept = []

        def first_call():
            kept.append(si.decimal_places(d, value))
            return _triple(kept[0])

        o1 = observe_call(first_call, list)
        if o1[0] == 0:
            o2 = observe_call(lambda: _triple(si.decimal_places(d, kept[0])), list)
        else:
            o2 = [1, 0]
        return [2, d, kind, _triple(value), o1, o2]
    if what == "cv":
        _, key, a = inp
        arg = eval(CONV_ARGS[a], {"Decimal": Decimal})
        return [3, KEYS[key], TYPES.get(type(arg).__name__, 9),
                observe_call(lambda: TYPES.get(type(si.CONVERSION[key](arg)).__name__, 9), int)]
    raise ValueError(inp)


def describe(inp):
    if inp[0] == "ds":
        rep = ["int({})", "float({})", "Decimal('{}')"][inp[2]].format(inp[3] if len(inp[3]) < 60 else inp[3][:20] + "...")
        return f"digit_string({inp[1]}, {rep})"
    if inp[0] == "dp":
        arg = ["{}", "float('{}')", "'{}'", "Decimal('{}')"][inp[2]].format(inp[3])
        return f"decimal_places({inp[1]}, {arg})"
    return f"CONVERSION[{inp[1]!r}]({CONV_ARGS[inp[2]]})"
