"""Shared helpers for the codec checks (C02, C04, C18): clause printing, value canonicalisation, nav path."""
import io
from decimal import Decimal

SPELLINGS = ["BINARY", "COMPUTATIONAL-1", "COMPUTATIONAL-2", "COMPUTATIONAL-3", "COMPUTATIONAL-4", "COMPUTATIONAL",
             "COMP-1", "COMP-2", "COMP-3", "COMP-4", "COMP", "DISPLAY", "PACKED-DECIMAL"]
PACKED = [8, 3, 12]
BINARY = [9, 4, 0, 10, 5]
DISPLAY = 11
FLOAT4, FLOAT8 = [6, 1], [7, 2]


def picture(signed, m, n, repeat=False):
    def nines(k):
        if k == 0:
            return ""
        return f"9({k})" if (repeat and k > 1) else "9" * k
    return ("S" if signed else "") + nines(m) + (("V" + nines(n)) if n else "")


def clause(usage, pic_text):
    """the USAGE / PICTURE clauses in one of the spellings COBOL allows (chosen deterministically from the arguments):
    PIC | PICTURE, optional IS after either keyword, optional word USAGE, either clause order"""
    h = (usage * 7 + len(pic_text) * 3 + sum(map(ord, pic_text))) % 24
    pic_kw = "PICTURE" if h % 2 else "PIC"
    pic_is = " IS" if (h // 2) % 3 == 1 else ""
    u = SPELLINGS[usage]
    usage_txt = [f"USAGE {u}", f"USAGE IS {u}", u][(h // 6) % 3]
    pic_txt = f"{pic_kw}{pic_is} {pic_text}"
    return f"{usage_txt} {pic_txt}" if (h // 18) % 2 == 0 else f"{pic_txt} {usage_txt}"


def canon(v):
    """Python value -> wire form"""
    if isinstance(v, Decimal):
        t = v.as_tuple()
        if not isinstance(t.exponent, int):
            return [8]
        coef = int("".join(map(str, t.digits))) if t.digits else 0
        return [0, t.sign, coef, t.exponent]
    if isinstance(v, bool):
        return [8]
    if isinstance(v, int):
        return [1, v]
    if isinstance(v, str):
        return [2, [ord(c) for c in v]]
    return [8]


def unpack_obs(clause_text, buffer):
    from lib import observe_call
    import stingray.estruct as E
    def call():
        (v,) = E.unpack(clause_text, bytes(buffer))
        return v
    return observe_call(call, canon)


_SHARED = {}
# data names for the schema/nav path: a plain one and names that BEGIN with a USAGE keyword followed by a hyphen
# (legal COBOL; estruct re-parses the whole DDE text and the explicit USAGE clause after the name must win)
NAMES = ["FLD", "COMP-AMOUNT", "BINARY-FLAG", "DISPLAY-TOTAL", "PACKED-DECIMAL-QTY", "COMP-3-TOTAL", "AMOUNT"]
_count = [0]


def nav_obs(usage, pic_text, buffer):
    """the same field through schema_iter / SchemaMaker / EBCDIC().nav().name().value(), through ONE long-lived
    unpacker for the whole run (as a file's workbook has) and under data names that repeat from schema to schema
    with different USAGE / PICTURE - state kept on the unpacker across schemas shows up as a wrong value"""
    from lib import observe_call
    _count[0] += 1
    name = NAMES[_count[0] % len(NAMES)]
    def call():
        from stingray.cobol_parser import schema_iter
        from stingray.schema_instance import SchemaMaker, EBCDIC, BytesInstance
        # one clause per line: a line reaching column 72 would lose its newline (C07 finding)
        # the record of interest is the SECOND 01 of the copybook; the first one declares the same data name with
        # another picture (schema_iter keeps one generator/unpacker for all records of a copybook)
        h = _count[0] % 12
        pic_kw = ["PIC", "PICTURE", "PIC IS", "PICTURE IS"][h % 4]
        usage_kw = ["USAGE", "USAGE IS", ""][h // 4]
        text = ("       01  PREV.\n"
                f"           05  {name} PIC X(7).\n"
                "       01  REC.\n"
                f"           05  {name}\n"
                f"               {pic_kw} {pic_text}\n"
                f"               {usage_kw} {SPELLINGS[usage]}.\n")
        (_prev, js) = list(schema_iter(io.StringIO(text)))
        schema = SchemaMaker.from_json(js)
        if "u" not in _SHARED:
            _SHARED["u"] = EBCDIC()
        unpacker = _SHARED["u"]
        nav = unpacker.nav(schema, BytesInstance(bytes(buffer)))
        return nav.name(name).value()
    return observe_call(call, canon)


def enc_packed(ds, s):
    nib = list(ds) + [s]
    if len(nib) % 2:
        nib = [0] + nib
    return [16 * nib[i] + nib[i + 1] for i in range(0, len(nib), 2)]


def enc_zoned(ds, z):
    return [0xF0 + d for d in ds[:-1]] + [16 * z + ds[-1]]
