"""Shared helpers for the codec checks (C02, C04, C18): clause printing, value canonicalisation, nav path."""
import io
from decimal import Decimal

SPELLINGS = ["BINARY", "COMPUTATIONAL-1", "COMPUTATIONAL-2", "COMPUTATIONAL-3", "COMPUTATIONAL-4", "COMPUTATIONAL",
             "COMP-1", "COMP-2", "COMP-3", "COMP-4", "COMP", "DISPLAY", "PACKED-DECIMAL"]
PACKED = [8, 3, 12]
BINARY = [9, 4, 0, 10, 5]
DISPLAY = 11
FLOAT4, FLOAT8 = [6, 1], [7, 2]


def picture(signed, m, n, repeat=False):
    def nines(k):
        if k == 0:
            return ""
        return f"9({k})" if (repeat and k > 1) else "9" * k
    return ("S" if signed else "") + nines(m) + (("V" + nines(n)) if n else "")


def clause(usage, pic_text):
    """the USAGE / PICTURE clauses in one of the spellings COBOL allows (chosen deterministically from the arguments):
    PIC | PICTURE, optional IS after either keyword, optional word USAGE, either clause order"""
    h = (usage * 7 + len(pic_text) * 3 + sum(map(ord, pic_text))) % 24
    pic_kw = "PICTURE" if h % 2 else "PIC"
    pic_is = " IS" if (h // 2) % 3 == 1 else ""
    u = SPELLINGS[usage]
    usage_txt = [f"USAGE {u}", f"USAGE IS {u}", u][(h // 6) % 3]
    pic_txt = f"{pic_kw}{pic_is} {pic_text}"
    return f"{usage_txt} {pic_txt}" if (h // 18) % 2 == 0 else f"{pic_txt} {usage_txt}"


def canon(v):
    """Python value -> wire form"""
    if isinstance(v, Decimal):
        t = v.as_tuple()
        if not isinstance(t.exponent, int):
            return [8]
        coef = int("".join(map(str, t.digits))) if t.digits else 0
        return [0, t.sign, coef, t.exponent]
    if isinstance(v, bool):
        return [8]
    if isinstance(v, int):
        return [1, v]
    if isinstance(v, str):
        return [2, [ord(c) for c in v]]
    return [8]


_ambient = [0]


def ambient():
    """Ordinary use of the REST of the library in the same process, interleaved with the observed calls (first call, then
    every 4000th): the conversion helpers on floats/strings/Decimals, name cleaning, sizes, wide packed and zoned items,
    a copybook parsed, loaded and read.  Nothing is observed here; a change that makes one entry point leave process-wide
    state behind (the thread's decimal context, a module-level cache, a class attribute) then shows up in the observed
    decodes that follow."""
    _ambient[0] += 1
    if _ambient[0] % 4000 != 1:
        return
    ambient_now()


def ambient_now():
    """one round of ordinary use of the rest of the library (see ambient); harness/lib.py runs it every few hundred cases of
    EVERY check, so that no property is decided on a process in which nothing else of the library ever ran"""
    import io
    from decimal import Decimal as D
    import stingray.estruct as E
    from stingray import schema_instance as SI, workbook as WB, cobol_parser as CP
    calls = [
        lambda: SI.decimal_places(2, 3.14159), lambda: SI.decimal_places(2, 2.675), lambda: SI.decimal_places(0, 7.5),
        lambda: SI.decimal_places(3, "1.23456"), lambda: SI.decimal_places(2, D("12345678901234567890.125")), lambda: SI.decimal_places(2, 17),
        lambda: SI.digit_string(5, 1020.0), lambda: SI.digit_string(9, D("123456789")), lambda: SI.digit_string(16, 9007199254740993),
        lambda: [f(1) for f in SI.CONVERSION.values()],
        lambda: WB.name_cleaner("Total ($)\n"),
        lambda: E.calcsize("USAGE COMP-3 PIC S9(31)"), lambda: E.unpack("USAGE COMP-3 PIC S9(31)", bytes([0x12] * 15 + [0x3D])),
        lambda: E.unpack("USAGE DISPLAY PIC 9(20)V9(10)", bytes([0xF1] * 30)), lambda: E.unpack("USAGE DISPLAY PIC s9(3)v99", bytes([0xF1] * 5)),
        lambda: E.unpack("USAGE COMP PIC S9(18)", bytes(8)), lambda: E.unpack("PIC X(3)", bytes([0xC1, 0xC2, 0xC3])),
        lambda: E.unpack("USAGE COMP-3 PIC 9(3)", bytes([0x1A, 0x3C])),
    ]

    def copybook():
        text = ("       01  AMB-REC.\n           05  AMB-N PIC 9.\n           05  AMB-T OCCURS 0 TO 3 TIMES DEPENDING ON AMB-N.\n"
                "               10  AMB-P PIC S9(5)V99 COMP-3.\n           05  AMB-X PIC X(4).\n           05  AMB-R REDEFINES AMB-X PIC 9(4).\n")
        js = list(CP.schema_iter(io.StringIO(text)))[0]
        schema = SI.SchemaMaker.from_json(js)
        u = SI.EBCDIC()
        nav = u.nav(schema, SI.BytesInstance(bytes([0xF2, 0x12, 0x34, 0x56, 0x7C, 0x00, 0x00, 0x00, 0x1D, 0xF1, 0xF2, 0xF3, 0xF4])))
        return [nav.name("AMB-T").index(1).name("AMB-P").value(), nav.name("AMB-R").value(), nav.name("AMB-X").value()]
    for f in calls + [copybook]:
        try:
            f()
        except BaseException as ex:   # DesignError derives from BaseException
            from lib import CaseTimeout
            if isinstance(ex, (KeyboardInterrupt, SystemExit, MemoryError, CaseTimeout)):
                raise


def unpack_obs(clause_text, buffer):
    from lib import observe_call
    import stingray.estruct as E
    ambient()
    def call():
        (v,) = E.unpack(clause_text, bytes(buffer))
        return v
    return observe_call(call, canon)


_SHARED = {}
# data names for the schema/nav path: plain ones and names that hold a USAGE word, PIC / PICTURE or USAGE / IS at the START
# (followed by a hyphen), in the MIDDLE and at the END, in upper and mixed case (legal COBOL; estruct re-parses the whole DDE
# text: only the item's own USAGE and PICTURE clauses may decide - with an explicit USAGE clause and without one)
NAMES = ["FLD", "COMP-AMOUNT", "BINARY-FLAG", "DISPLAY-TOTAL", "PACKED-DECIMAL-QTY", "COMP-3-TOTAL", "AMOUNT",
         "EMP-COMPANY", "WS-COMP-DATE", "TOT-BINARY-CT", "USE-DISPLAY", "ELEMENTARY-PIC", "N-COMP-3", "OLD-COMPUTATIONAL-1",
         "YTD-PACKED-DECIMAL", "X-PICTURE", "NON-USAGE-COMP-3", "IS-BINARY-SW", "Emp-COMP-Nm", "ws-BINARY", "COMP-4-CT", "PIC-9",
         "THIS-IS", "USAGE-COMP-CT"]
_count = [0]


def nav_obs(usage, pic_text, buffer):
    """the same field through schema_iter / SchemaMaker / EBCDIC().nav().name().value(), through ONE long-lived
    unpacker for the whole run (as a file's workbook has) and under data names that repeat from schema to schema
    with different USAGE / PICTURE - state kept on the unpacker across schemas shows up as a wrong value"""
    from lib import observe_call
    _count[0] += 1
    name = NAMES[_count[0] % len(NAMES)]
    def call():
        from stingray.cobol_parser import schema_iter
        from stingray.schema_instance import SchemaMaker, EBCDIC, BytesInstance
        # one clause per line: a line reaching column 72 would lose its newline (C07 finding)
        # the record of interest is the SECOND 01 of the copybook; the first one declares the same data name with
        # another picture (schema_iter keeps one generator/unpacker for all records of a copybook)
        h = _count[0] % 12
        pic_kw = ["PIC", "PICTURE", "PIC IS", "PICTURE IS"][h % 4]
        usage_kw = ["USAGE", "USAGE IS", ""][h // 4]
        text = ("       01  PREV.\n"
                f"           05  {name} PIC X(7).\n"
                "       01  REC.\n"
                f"           05  {name}\n"
                f"               {pic_kw} {pic_text}\n"
                f"               {usage_kw} {SPELLINGS[usage]}.\n")
        (_prev, js) = list(schema_iter(io.StringIO(text)))
        schema = SchemaMaker.from_json(js)
        if "u" not in _SHARED:
            _SHARED["u"] = EBCDIC()
        unpacker = _SHARED["u"]
        nav = unpacker.nav(schema, BytesInstance(bytes(buffer)))
        return nav.name(name).value()
    return observe_call(call, canon)


def enc_packed(ds, s):
    nib = list(ds) + [s]
    if len(nib) % 2:
        nib = [0] + nib
    return [16 * nib[i] + nib[i + 1] for i in range(0, len(nib), 2)]


def enc_zoned(ds, z):
    return [0xF0 + d for d in ds[:-1]] + [16 * z + ds[-1]]
