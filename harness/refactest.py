#!/venv/bin/python
"""refactest.py <patch.diff> [Cxx ...]: apply a BEHAVIOUR-PRESERVING change to a scratch worktree of /repo and run the checks
(all 18 by default) against it from a private copy of /verif.  Every check must exit 0 and print no VIOLATION line: an alarm
here is a false alarm of the machinery.  Prints one JSON object."""
import json, os, subprocess, sys, tempfile, shutil
patch = os.path.abspath(sys.argv[1])
props = sys.argv[2:] or ["C%02d" % i for i in range(1, 19)]
HERE = os.path.dirname(os.path.dirname(os.path.abspath(__file__)))
wt = tempfile.mkdtemp(prefix="refac_wt_", dir="/tmp"); os.rmdir(wt)
priv = tempfile.mkdtemp(prefix="refac_verif_", dir="/tmp")
res = {"patch": patch, "checks": {}}
def run(cmd, **kw):
    try:
        p = subprocess.run(cmd, stdout=subprocess.PIPE, stderr=subprocess.STDOUT, text=True, timeout=2400, **kw)
        return p.returncode, p.stdout
    except subprocess.TimeoutExpired:
        return 124, "timeout"
try:
    run(["git", "-C", "/repo", "worktree", "add", "-f", wt, "HEAD"])
    rc, out = run(["git", "-C", wt, "apply", patch])
    res["applies"] = rc == 0
    if rc == 0:
        run(["rsync", "-a", "--exclude", ".git", "--exclude", "replays", HERE + "/", priv + "/"])
        rc, out = run(["/venv/bin/python", priv + "/harness/baseline.py"], env=dict(os.environ, VERIF_REPO=wt))
        res["baseline_ok"] = rc == 0
        for p in props:
            rc, out = run([priv + "/check", p, "--tier", "quick"], env=dict(os.environ, VERIF_REPO=wt), cwd=priv)
            lines = [l[:400] for l in out.splitlines() if l.startswith("VIOLATION") or l.startswith(p + " ") or l.startswith(p + "b ") or "pinned" in l]
            res["checks"][p] = dict(exit=rc, lines=lines[-4:])
            if rc != 0:
                for l in out.splitlines():
                    if l.startswith("VIOLATION") and "replay=" in l:
                        rp = l.split("replay=")[1].split()[0]
                        try:
                            d = json.load(open(rp)); d.pop("log", None)
                            res["checks"][p]["replay"] = json.loads(json.dumps(d, default=str)[:3000]) if len(json.dumps(d, default=str)) < 3000 else str(d)[:3000]
                        except Exception as ex:
                            res["checks"][p]["replay"] = str(ex)
                        break
finally:
    run(["git", "-C", "/repo", "worktree", "remove", "--force", wt])
    shutil.rmtree(wt, ignore_errors=True); shutil.rmtree(priv, ignore_errors=True)
res["alarms"] = sorted(p for p, c in res["checks"].items() if c["exit"] != 0)
print(json.dumps(res, indent=1))
