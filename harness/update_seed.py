#!/venv/bin/python
"""update_seed.py Cxx N [history] [--by Cyy]: re-record the result of harness/run_seeds.py (/tmp/seedres/Cxx_N.json, or
x_Cxx_N_by_Cyy.json with --by) in /verif/seeded/Cxx-N/meta.json (patch and demonstration are already there)."""
import json, os, re, sys
args = sys.argv[1:]
by = None
if "--by" in args:
    i = args.index("--by"); by = args[i + 1]; del args[i:i + 2]
prop, n = args[0], args[1]
hist = args[2] if len(args) > 2 else None
dst = f"/verif/seeded/{prop}-{n}"
meta = json.load(open(f"{dst}/meta.json"))
j = json.load(open(f"/tmp/seedres/{prop}_{n}.json" if not by else f"/tmp/seedres/x_{prop}_{n}_by_{by}.json"))
lines = j.get("check_lines", [])
if by:
    if j.get("caught"):
        meta["caught_by"] = by
        meta["history"] = (hist or f"not reported by ./check {prop}; reported by ./check {by}") + f" ({[l for l in lines if re.match(r'C[0-9]', l)][-1:]})"
else:
    old_caught = meta.get("caught")
    first = [l for l in meta.get("confirmed", {}).get("check_output", []) if re.match(r"C\d\d", l)]
    meta["confirmed"].update(patch_applies=str(j.get("applies")).lower(), stable_tests_pass=str(j.get("baseline_ok")).lower(),
                             demo_exit_clean_tree=str(j.get("demo_clean_exit")), demo_exit_changed_tree=str(j.get("demo_changed_exit")),
                             check_exit=str(j.get("check_exit")), check_output=lines[:5])
    meta["caught"] = bool(j.get("caught"))
    if old_caught is False and meta["caught"]:
        meta["history"] = (hist or meta.get("history") or "missed at first; the check was strengthened and now reports it") + \
            (" [first run: %s]" % first[-1] if first and "first run" not in (meta.get("history") or "") else "")
    elif hist:
        meta["history"] = hist
json.dump(meta, open(f"{dst}/meta.json", "w"), indent=1)
print(dst, "caught" if meta["caught"] else ("caught by " + meta["caught_by"] if meta.get("caught_by") else "MISSED"), lines[-1:])
