"""T1 plug-in for C11: which process-wide state the parser and the schema makers touch.

Gen/GlobalsParams.v:
  reset_at_start     - structure() of src/stingray/cobol_parser.py begins (after the docstring) with
                       `DDE.filler_count = 0`                                        -> true
                       structure() never assigns filler_count                        -> false
  ext_mutates_atomic - JSONSchemaMakerExtendedVocabulary.__init__ contains a call
                       `<anything>.ATOMIC.add(<literal 'decimal'>)`                   -> true
                       it does not mention ATOMIC at all and the maker it installs is an instance of a
                       class of this module whose body is exactly `ATOMIC = SchemaMaker.ATOMIC | {...}`
                       (a NEW set object)                                            -> false
Both shapes of both fixes are recognised (the tree before and after commits 6cf36a5 / 5271a92), so reverting
either fix changes the generated model parameters and Props/C11.vo stops compiling.  DDE.__init__ must have the
counter protocol that coq/Model/Structure.v (mk_ddes) models: reset on level 01, `+= 1` for the name FILLER.
No other function of the module may assign DDE.filler_count or mutate an ATOMIC set.
Any other shape raises Unrecognised (the pinned text is used and the run relies on the correspondence check).
"""
import ast
from translate import Unrecognised, _parse, _func


def _nodoc(body):
    return [s for s in body if not (isinstance(s, ast.Expr) and isinstance(s.value, ast.Constant) and isinstance(s.value.value, str))]


def _is_counter(n):
    """DDE.filler_count / self.filler_count / cls.filler_count"""
    return isinstance(n, ast.Attribute) and n.attr == "filler_count"


def _counter_writes(fn):
    out = []
    for n in ast.walk(fn):
        if isinstance(n, ast.Assign) and any(_is_counter(t) for t in n.targets):
            out.append(n)
        elif isinstance(n, (ast.AugAssign, ast.AnnAssign)) and _is_counter(n.target):
            out.append(n)
        elif isinstance(n, ast.Call) and isinstance(n.func, ast.Name) and n.func.id == "setattr":
            raise Unrecognised("setattr in a function that handles the FILLER counter")
    return out


def _is_reset(s):
    return (isinstance(s, ast.Assign) and len(s.targets) == 1 and _is_counter(s.targets[0])
            and isinstance(s.targets[0].value, ast.Name) and s.targets[0].value.id == "DDE"
            and isinstance(s.value, ast.Constant) and type(s.value.value) is int and s.value.value == 0)


def _mentions_atomic(fn):
    return [n for n in ast.walk(fn) if (isinstance(n, ast.Attribute) and n.attr == "ATOMIC") or (isinstance(n, ast.Name) and n.id == "ATOMIC")]


def gen_GlobalsParams(src):
    tree = _parse(src, "stingray/cobol_parser.py")

    # ---- the counter protocol of DDE.__init__ (what Structure.mk_ddes models)
    init = _func(tree, "__init__", "DDE")
    writes = _counter_writes(init)
    resets = [w for w in writes if _is_reset(w)]
    incs = [w for w in writes if isinstance(w, ast.AugAssign) and isinstance(w.op, ast.Add)
            and isinstance(w.value, ast.Constant) and w.value.value == 1]
    if len(writes) != 2 or len(resets) != 1 or len(incs) != 1:
        raise Unrecognised("DDE.__init__: expected one `DDE.filler_count = 0` and one `DDE.filler_count += 1`")
    cls = [n for n in tree.body if isinstance(n, ast.ClassDef) and n.name == "DDE"][0]
    attrs = [s for s in cls.body if isinstance(s, ast.Assign) and len(s.targets) == 1 and isinstance(s.targets[0], ast.Name)
             and s.targets[0].id == "filler_count"]
    if len(attrs) != 1 or not (isinstance(attrs[0].value, ast.Constant) and attrs[0].value.value == 0):
        raise Unrecognised("class DDE: expected the class attribute filler_count = 0")

    # ---- structure()
    st = _func(tree, "structure")
    body = _nodoc(st.body)
    swrites = _counter_writes(st)
    if not swrites:
        reset_at_start = False
    elif len(swrites) == 1 and body and swrites[0] is body[0] and _is_reset(body[0]):
        reset_at_start = True
    else:
        raise Unrecognised("structure(): FILLER counter assignment of an unknown shape")

    # ---- nobody else writes the counter
    for n in ast.walk(tree):
        if isinstance(n, (ast.FunctionDef, ast.AsyncFunctionDef)) and n is not st and n is not init:
            if _counter_writes(n):
                raise Unrecognised(f"{n.name}() assigns the FILLER counter")

    # ---- the extended-vocabulary maker
    ext = _func(tree, "__init__", "JSONSchemaMakerExtendedVocabulary")
    mentions = _mentions_atomic(ext)
    adds = [n for n in ast.walk(ext) if isinstance(n, ast.Call) and isinstance(n.func, ast.Attribute) and n.func.attr == "add"
            and isinstance(n.func.value, ast.Attribute) and n.func.value.attr == "ATOMIC"]
    if adds:
        if len(adds) != 1 or len(mentions) != 1 or not (len(adds[0].args) == 1 and isinstance(adds[0].args[0], ast.Constant)
                                                      and adds[0].args[0].value == "decimal"):
            raise Unrecognised("extended maker: ATOMIC mutation of an unknown shape")
        ext_mutates_atomic = True
    elif mentions:
        raise Unrecognised("extended maker mentions ATOMIC without the known .add('decimal') call")
    else:
        # self.atomic_maker = <LocalClass>() where LocalClass has its own new ATOMIC set
        assigns = [n for n in ast.walk(ext) if isinstance(n, ast.Assign) and len(n.targets) == 1
                   and isinstance(n.targets[0], ast.Attribute) and n.targets[0].attr == "atomic_maker"]
        if len(assigns) != 1 or not (isinstance(assigns[0].value, ast.Call) and isinstance(assigns[0].value.func, ast.Name)
                                     and not assigns[0].value.args and not assigns[0].value.keywords):
            raise Unrecognised("extended maker: atomic_maker is not assigned a plain constructor call")
        cname = assigns[0].value.func.id
        local = [n for n in tree.body if isinstance(n, ast.ClassDef) and n.name == cname]
        if len(local) != 1:
            raise Unrecognised(f"extended maker: class {cname} is not defined in cobol_parser.py")
        cbody = _nodoc(local[0].body)
        ok = (len(cbody) == 1 and isinstance(cbody[0], ast.Assign) and len(cbody[0].targets) == 1
              and isinstance(cbody[0].targets[0], ast.Name) and cbody[0].targets[0].id == "ATOMIC"
              and isinstance(cbody[0].value, ast.BinOp) and isinstance(cbody[0].value.op, ast.BitOr)
              and isinstance(cbody[0].value.right, ast.Set))
        if not ok:
            raise Unrecognised(f"class {cname}: body is not `ATOMIC = <set> | {{...}}`")
        ext_mutates_atomic = False

    # ---- no other ATOMIC mutation in the parser module or in SchemaMaker itself
    for rel in ("stingray/cobol_parser.py", "stingray/schema_instance.py", "stingray/workbook.py"):
        t = tree if rel.endswith("cobol_parser.py") else _parse(src, rel)
        for n in ast.walk(t):
            if isinstance(n, ast.Call) and isinstance(n.func, ast.Attribute) and n.func.attr in ("add", "update", "discard", "remove", "clear", "pop") \
                    and isinstance(n.func.value, ast.Attribute) and n.func.value.attr == "ATOMIC":
                if not (adds and n is adds[0]):
                    raise Unrecognised(f"{rel}: another mutation of an ATOMIC set")
            if isinstance(n, ast.AugAssign) and ((isinstance(n.target, ast.Attribute) and n.target.attr == "ATOMIC")
                                                 or (isinstance(n.target, ast.Name) and n.target.id == "ATOMIC")):
                raise Unrecognised(f"{rel}: augmented assignment to ATOMIC")

    b = lambda x: "true" if x else "false"
    return (
        "(* GENERATED by harness/t1_c11.py from src/stingray/cobol_parser.py structure() / "
        "JSONSchemaMakerExtendedVocabulary.__init__ -- do not edit *)\n"
        f"Definition reset_at_start : bool := {b(reset_at_start)}.\n"
        f"Definition ext_mutates_atomic : bool := {b(ext_mutates_atomic)}.\n"
    )


GENERATORS = {"GlobalsParams": gen_GlobalsParams}
