"""C12 - respelling a copybook (layout, case, synonyms, clause order) changes nothing.

Streams
  rf     reference_format on lists of card-image lines (with / without a REPLACING list)      [Layer A]
  sent   dde_sentences on texts printed from (lead, level, gap, body, terminator) entries
         and on random texts                                                                  [Layer A]
  compact DDE.compact_source                                                                   [Layer A]
  meta   whole pipeline, metamorphic: generated copybook, printed in a base style and in the
         same style with one (quick) / several (thorough) meaning-preserving rewrites applied  [Layer B]

The Python side only prints copybooks and serialises what the implementation returned; whether two
observations must be equal, what the model says and which findings are known is decided by the
Coq judge (coq/Judge/JC12.v).
"""
import io
from lib import S, observe_call, exn_code

ALSO = ["C12b"]   # second engine for this property: the clause regular expression (harness/c12b.py, coq/Props/C12b.v)
GEN = ["RefFormatParams", "StructureParams"]
RULE = ("rf: hand-built card images + random line lists over a 14-symbol alphabet, every REPLACING shape (0-3 pairs, overlapping, "
        "self-creating); sent: printed entry lists with every white-space class as terminator + random texts; "
        "meta: generated copybooks (groups to depth 4, OCCURS, ODO, REDEFINES, FILLER, all usages) x each rewrite kind at every "
        "applicable site (quick; for the rewrites whose site is a line position: first, last and 5 random positions; every second "
        "copybook is already broken over several lines so that noise lines fall inside entries, every fourth also has OCCURS written first) / random compositions of 2-5 rewrites (thorough). Non-trivial = branch id > 0 "
        "Level renumbering: one number per depth (renumber), one group's children renumbered on their own (renumber_group, every group), "
        "every group choosing independently (renumber_all); 3 hand-shaped copybooks with sibling subtrees of different depth. "
        "(rf: number of emitted lines; sent: number of sentences; meta: 100 + rewrite kind). distinct = distinct case lines.")
TRIVIAL_BRANCHES = [0]
ASSUMPTIONS = [
    "Layer B is metamorphic only: the 600-character clause regexp, structure(), JSONSchemaMaker and LocationMaker are NOT modelled "
    "here; the judge's predicate for the meta stream is equality of the implementation's two observations (PARTIAL)",
    "file iteration delivers the lines the harness passes as a list (reference_format only iterates its source)",
    "Python str.strip/str.split/str.replace and the re classes for white space and digits as modelled in coq/Model/RefFormat.v "
    "(29 white-space code points, 64 Nd ranges of the interpreter's Unicode database); tied by the rf/sent/compact streams",
    "observation of a copybook = JSON schema without the 'cobol' source text + Location tree (name, start, end) from "
    "LocationMaker(EBCDIC(), schema).from_schema(); decoded record values are not compared",
]
TRUSTED = ["harness/c12.py copybook printer (spelling choices) - a wrong printer shows up as a VIOLATION, not as a false PASS, "
           "except where two spellings are wrongly printed identically"]

# ------------------------------------------------------------------------------------------------
# abstract copybooks
# ------------------------------------------------------------------------------------------------
# entry = dict(d=depth, name=str|None, pic=str|None, usage=None|'B'|'P'|'D'|'F1'|'F2', occurs=int|None,
#              odo=[lo, hi, dep]|None, redef=str|None)

NAMES = ["CUST-ID", "ACCT-NO", "AMT-1", "AMT-2", "FLD-A", "FLD-B", "KEY-X", "QTY", "RATE", "ZIP-4", "LAST-NM", "FIRST-NM",
         "ITEM-1", "ITEM-2", "TBL-A", "TBL-B", "GRP-A", "GRP-B", "GRP-C", "HDR", "TRL", "WS-TOTAL", "N1", "N2", "X-9", "Y2K-DT",
         # USAGE words and PIC inside and at the end of a name (the decoder's second parse reads the whole entry text)
         "EMP-COMPANY", "WS-COMP-DT", "TOT-BINARY-CT", "USE-DISPLAY", "ELEM-PIC", "N-COMP-3", "YTD-PACKED-DECIMAL"]
PICS_ALNUM = ["X", "X(3)", "XX", "X(10)", "A(4)", "XXX", "X(01)"]
PICS_NUM = ["9", "99", "9(3)", "S9(4)", "S9(5)V99", "9(2)V9(2)", "S999", "9(7)", "S9(9)", "99V9"]
PICS_EDIT = ["ZZ9", "Z(3)9.99", "$ZZ9", "-9(3)", "9(3).99", "ZZ,ZZ9"]
BIN = ["COMP", "COMPUTATIONAL", "BINARY", "COMP-4", "COMPUTATIONAL-4"]
PACK = ["COMP-3", "PACKED-DECIMAL", "COMPUTATIONAL-3"]
LEVELS = [[1, 5, 10, 15, 20], [1, 2, 3, 4, 5], [1, 10, 20, 30, 40], [1, 3, 7, 12, 49]]


def gen_copybook(rng, size=None):
    n = size or rng.randint(2, 9)
    names = NAMES[:]
    rng.shuffle(names)
    blank = dict(pic=None, usage=None, occurs=None, odo=None, redef=None)
    ents = [dict(d=0, name=names.pop(), **blank)]
    prev_group, prev_d = True, 0
    numeric_before = []
    in_occurs_depth = None          # depth of an enclosing OCCURS group, if any
    for i in range(n):
        d = prev_d + 1 if prev_group else rng.randint(1, prev_d)
        if in_occurs_depth is not None and d <= in_occurs_depth:
            in_occurs_depth = None
        e = dict(d=d, name=names.pop() if rng.random() < 0.85 else None, **blank)
        group = i < n - 1 and d < 3 and rng.random() < 0.25
        if group:
            if rng.random() < 0.3:
                e["occurs"] = rng.randint(2, 4)
                if in_occurs_depth is None:
                    in_occurs_depth = d
        else:
            r = rng.random()
            if r < 0.35:
                e["pic"] = rng.choice(PICS_ALNUM)
                if rng.random() < 0.15:
                    e["usage"] = "D"
            elif r < 0.5:
                e["pic"] = rng.choice(PICS_EDIT)
            else:
                e["pic"] = rng.choice(PICS_NUM)
                e["usage"] = rng.choice([None, None, "B", "P", "D"])
            r = rng.random()
            if r < 0.2:
                e["occurs"] = rng.randint(2, 5)
            elif r < 0.45 and numeric_before and in_occurs_depth is None:
                e["odo"] = [rng.randint(0, 1), rng.randint(2, 5), rng.choice(numeric_before)]
            if (e["pic"] in ("9", "99", "9(3)") and e["usage"] is None and e["name"] and not e["occurs"] and not e["odo"]
                    and in_occurs_depth is None):
                numeric_before.append(e["name"])
        ents.append(e)
        prev_group, prev_d = group, d
    # REDEFINES: an elementary item redefining the previous elementary sibling (never inside an OCCURS group: C07 finding)
    if rng.random() < 0.3:
        occ = None
        for i in range(1, len(ents)):
            a, b = ents[i - 1], ents[i]
            if occ is not None and b["d"] <= occ:
                occ = None
            if b["occurs"] and not b["pic"] and occ is None:
                occ = b["d"]
            if (i >= 2 and occ is None and a["d"] == b["d"] and a["pic"] and b["pic"] and a["name"] and b["name"]
                    and not (a["occurs"] or b["occurs"] or a["odo"] or b["odo"])):
                b["redef"] = a["name"]
                break
    return ents


# ------------------------------------------------------------------------------------------------
# printer: style = spelling choices.  st[i] = per-entry choices, st['g'] = global choices
# ------------------------------------------------------------------------------------------------

def parents_of(ents):
    """index of the enclosing group of every entry (None for the root), from the depths"""
    out, stack = [], []
    for i, e in enumerate(ents):
        while stack and ents[stack[-1]]["d"] >= e["d"]:
            stack.pop()
        out.append(stack[-1] if stack else None)
        stack.append(i)
    return out


def entry_levels(ents, st):
    """level number of every entry.  Default: one number per depth (LEVELS[st['levels']]); a group listed in
    st['child_level'] numbers ITS children with its own number.  Always strictly greater than the group's own level,
    all children of one group equal, at most 49 (depth <= 3)."""
    par = parents_of(ents)
    lv = []
    for i, e in enumerate(ents):
        if par[i] is None:
            lv.append(LEVELS[st["levels"]][0])
        else:
            base = st.get("child_level", {}).get(str(par[i]), LEVELS[st["levels"]][e["d"]])
            lv.append(min(49, max(base, lv[par[i]] + 1)))
    return lv


def base_style(ents):
    return {"levels": 0, "child_level": {}, "seq": {}, "ident": {}, "noise": [], "tail_nl": True,
            "e": [dict(pic_word="PIC", pic_is=False, usage_kw=False, usage_is=False, syn=0, times=False, on=True, order=0,
                       sep=None, lower=False, breaks=[], cont=None, value=None, value_is=False, neutral=[], cond=[], key=None,
                       just_word="JUSTIFIED", blank_when=True, occurs_to=True)
                  for _ in ents]}


def usage_token(e, s):
    u = e["usage"]
    if u == "B":
        return BIN[s["syn"] % len(BIN)]
    if u == "P":
        return PACK[s["syn"] % len(PACK)]
    if u == "D":
        return "DISPLAY"
    if u == "F1":
        return ["COMP-1", "COMPUTATIONAL-1"][s["syn"] % 2]
    if u == "F2":
        return ["COMP-2", "COMPUTATIONAL-2"][s["syn"] % 2]
    return None


def clause_groups(e, s):
    """list of (kind, tokens); tokens are (text, is_reserved_word)"""
    R = lambda t: (t, True)
    L = lambda t: (t, False)
    out = []
    if e["redef"]:
        out.append(("redef", [R("REDEFINES"), L(e["redef"])]))
    if e["pic"]:
        toks = [R(s["pic_word"])]
        if s["pic_is"]:
            toks.append(R("IS"))
        toks.append(("\x00" + e["pic"], True))        # picture string: letters follow the case choice
        out.append(("pic", toks))
    ut = usage_token(e, s)
    if ut:
        toks = []
        if s["usage_kw"]:
            toks.append(R("USAGE"))
        if s["usage_is"]:
            toks.append(R("IS"))
        toks.append(R(ut))
        out.append(("usage", toks))
    if e["occurs"]:
        toks = [R("OCCURS"), L(str(e["occurs"]))]
        if s["times"]:
            toks.append(R("TIMES"))
        if s["key"]:
            k = s["key"]
            if k.get("asc"):
                toks.append(R(k["asc"]))
                if k.get("key"):
                    toks.append(R("KEY"))
                if k.get("is"):
                    toks.append(R("IS"))
                toks.append(L(k["kname"]))
            toks.append(R("INDEXED"))
            if k.get("by", True):
                toks.append(R("BY"))
            toks.append(L(k["iname"]))
        out.append(("occurs", toks))
    if e["odo"]:
        lo, hi, dep = e["odo"]
        toks = [R("OCCURS")]
        if s["occurs_to"]:
            toks += [L(str(lo)), R("TO")]
        toks.append(L(str(hi)))
        if s["times"]:
            toks.append(R("TIMES"))
        toks.append(R("DEPENDING"))
        if s["on"]:
            toks.append(R("ON"))
        toks.append(L(dep))
        out.append(("occurs", toks))
    if s["value"] is not None:
        toks = [R("VALUE")]
        if s["value_is"]:
            toks.append(R("IS"))
        toks.append(L(s["value"]))
        out.append(("value", toks))
    for nk in s["neutral"]:
        if nk == "just":
            out.append(("just", [R(s["just_word"]), R("RIGHT")]))
        elif nk == "blank":
            out.append(("blank", [R("BLANK")] + ([R("WHEN")] if s["blank_when"] else []) + [R("ZERO")]))
        elif nk == "sync":
            out.append(("sync", [R("SYNC")]))
        elif nk == "synchronized":
            out.append(("sync", [R("SYNCHRONIZED")]))
    # clause order: rotation of the clause list (redefines stays first, as COBOL requires)
    head = [g for g in out if g[0] == "redef"]
    rest = [g for g in out if g[0] != "redef"]
    if rest:
        k = s["order"] % len(rest)
        rest = rest[k:] + rest[:k]
        if s["order"] >= len(rest) and len(rest) > 1:
            rest = rest[::-1]
    return head + rest


def entry_tokens(ents, i, st):
    e, s = ents[i], st["e"][i]
    lv = entry_levels(ents, st)[i]
    toks = [("%02d" % lv, False)]
    if e["name"] is not None:
        toks.append((e["name"], False))
    elif s.get("filler_word", True):
        toks.append(("FILLER", True))
    groups = clause_groups(e, s)
    flat = []
    for gi, (kind, gt) in enumerate(groups):
        for ti, t in enumerate(gt):
            flat.append([t[0], t[1], kind, ti == len(gt) - 1 and gi < len(groups) - 1])
    words = []
    for t, r in toks:
        words.append(t.lower() if (r and s["lower"]) else t)
    for t, r, kind, last_of_clause in flat:
        pic = t.startswith("\x00")
        if pic:
            t = t[1:]
        if r and s["lower"]:
            t = t.lower()
        if last_of_clause and s["sep"] is not None and s["sep"][0] == kind:
            t = t + s["sep"][1]
        words.append(t)
    words[-1] = words[-1] + "."
    return words


def cond_tokens(c, s):
    w = ["88", c[0], "value" if s["lower"] else "VALUE", c[1] + "."]
    return w


def render(ents, st, owners=False):
    """-> list of lines (each with its newline), card images; owners=True: entry index of every code line instead"""
    body = []      # (entry index, area text)
    for i, e in enumerate(ents):
        s = st["e"][i]
        words = entry_tokens(ents, i, st)
        indent = " " * (0 if e["d"] == 0 else 4 * e["d"])
        lines, cur = [], indent
        for wi, w in enumerate(words):
            sepr = "" if cur.strip() == "" else " "
            if (wi in s["breaks"] and cur.strip()) or len(cur) + len(sepr) + len(w) > 60:
                lines.append(cur)
                cur = indent + "    " + w
            else:
                cur = cur + sepr + w
        lines.append(cur)
        for li, ln in enumerate(lines):
            body.append([i, " ", ln])
        if s["cont"] is not None and len(lines) >= 1:
            # continuation: cut one area line in two; the second part goes on a '-' line
            kind, pos = s["cont"]
            j = len(body) - len(lines) + (pos % len(lines))
            ln = body[j][2]
            cuts = [k for k in range(len(ln)) if ln[k] == " " and ln[:k].strip()
                    and ln[:k].count("'") % 2 == 0 and ln[:k].count('"') % 2 == 0]      # never inside a literal
            if kind == "token" and cuts:
                k = cuts[pos % len(cuts)]
                body[j][2] = ln[:k]
                body.insert(j + 1, [i, "-", " " * 4 + ln[k:]])
            elif kind == "word":
                # true COBOL continuation of a word: first part padded out to column 72, rest from column 12
                inner = [k for k in range(1, len(ln)) if ln[k] != " " and ln[k - 1] != " "]
                if inner:
                    k = inner[pos % len(inner)]
                    body[j][2] = ln[:k].ljust(65)
                    body.insert(j + 1, [i, "-", " " * 4 + ln[k:]])
        for c in s["cond"]:
            body.append([i, " ", " " * (4 * e["d"] + 4) + " ".join(cond_tokens(c, s))])
    if owners:
        return [b[0] for b in body]
    out = []
    for j, (i, ind, ln) in enumerate(body):
        seq = st["seq"].get(str(j), "      ")
        text = seq + ind + ln
        if str(j) in st["ident"]:
            text = text.ljust(72) + st["ident"][str(j)]
        out.append(text + "\n")
    # noise lines: (position in the line list, text)
    for pos, text in sorted(st["noise"], key=lambda p: -p[0]):
        out.insert(min(pos, len(out)), text + "\n")
    if not st["tail_nl"]:
        out[-1] = out[-1][:-1]
    return out


# ------------------------------------------------------------------------------------------------
# rewrites: each returns a new style; kind ids are what the judge sees
# ------------------------------------------------------------------------------------------------
KINDS = {
    "seq": 1, "ident": 2, "comment": 3, "blank": 4, "directive": 5, "rebreak": 6, "cont_token": 7, "cont_word": 8,
    "sep": 9, "sep_after_pic": 10, "opt_is": 11, "opt_times": 12, "opt_usage": 13, "opt_on": 14, "opt_key": 15,
    "syn_pic": 16, "syn_usage": 17, "order": 18, "renumber": 19, "lower": 20, "value": 21, "value_kw": 22,
    "neutral": 23, "cond88": 24, "numbered_directive": 25, "slash_comment": 26, "opt_to": 27, "filler_word": 28,
    "opt_indexed": 29, "renumber_group": 30, "renumber_all": 31,
}


def copy_style(st):
    import copy
    return copy.deepcopy(st)


def n_lines(ents, st):
    return len(render(ents, st))


def sites(ents, st, kind):
    """all applicable sites of a rewrite kind (site = small JSON value)"""
    E = range(len(ents))
    nl = n_lines(ents, st)
    if kind in ("seq", "ident"):
        return list(range(nl)) + ["all"]
    if kind in ("comment", "blank", "directive", "numbered_directive", "slash_comment"):
        return list(range(nl + 1))
    if kind == "rebreak":
        return [i for i in E if len(entry_tokens(ents, i, st)) >= 3]
    if kind in ("cont_token", "cont_word"):
        return [i for i in E if len(entry_tokens(ents, i, st)) >= 3]
    if kind == "sep":
        out = []
        for i in E:
            gs = clause_groups(ents[i], st["e"][i])
            for g in gs[:-1]:
                if g[0] != "pic":
                    out.append([i, g[0]])
        return out
    if kind == "sep_after_pic":
        out = []
        for i in E:
            gs = clause_groups(ents[i], st["e"][i])
            if any(g[0] == "pic" for g in gs[:-1]):
                out.append([i, "pic"])
        return out
    if kind == "opt_is":
        return [[i, w] for i in E for w in (["pic"] if ents[i]["pic"] else []) + (["usage"] if ents[i]["usage"] else [])]
    if kind == "opt_times":
        return [i for i in E if ents[i]["occurs"] or ents[i]["odo"]]
    if kind == "opt_usage":
        return [i for i in E if ents[i]["usage"]]
    if kind in ("opt_on", "opt_to"):
        return [i for i in E if ents[i]["odo"]]
    if kind in ("opt_key", "opt_indexed"):
        return [i for i in E if ents[i]["occurs"]]
    if kind == "syn_pic":
        return [i for i in E if ents[i]["pic"]]
    if kind == "syn_usage":
        return [[i, k] for i in E if ents[i]["usage"] in ("B", "P", "F1", "F2")
                for k in range(1, {"B": 5, "P": 3, "F1": 2, "F2": 2}[ents[i]["usage"]])]
    if kind == "order":
        out = []
        for i in E:
            gs = [g for g in clause_groups(ents[i], st["e"][i]) if g[0] != "redef"]
            for k in range(1, 2 * len(gs) if len(gs) > 1 else 0):
                out.append([i, k])
        return out
    if kind == "renumber":
        return [1, 2, 3]
    if kind == "renumber_group":
        par = parents_of(ents)
        return sorted({p for p in par if p is not None})          # every group, the root included
    if kind == "renumber_all":
        return [0, 1, 2]
    if kind == "lower":
        return list(E) + ["all"]
    if kind in ("value", "value_kw"):
        return [i for i in E if ents[i]["pic"] and not ents[i]["occurs"] and not ents[i]["odo"]]
    if kind == "neutral":
        return [[i, k] for i in E if ents[i]["pic"] for k in ("just", "blank", "sync", "synchronized")]
    if kind == "cond88":
        return [i for i in E if ents[i]["pic"]]
    if kind == "filler_word":
        return [i for i in E if ents[i]["name"] is None]
    return []


def apply(ents, st, kind, site, rng_val=0):
    """apply one rewrite; rng_val = small integer picking among equivalent spellings"""
    st = copy_style(st)
    v = rng_val
    if kind == "seq":
        nl = n_lines(ents, st)
        for j in (range(nl) if site == "all" else [site]):
            st["seq"][str(j)] = "%06d" % ((j + 1) * 100 + v % 100)
    elif kind == "ident":
        nl = n_lines(ents, st)
        for j in (range(nl) if site == "all" else [site]):
            st["ident"][str(j)] = ["COPYBK01", "X", "PIC 99. ", "12345678"][v % 4]
    elif kind == "comment":
        st["noise"].append([site, ["      * A COMMENT 05 X PIC 9.", "000100*", "      D    05 DEBUG-LINE PIC X.",
                                   "      *" + "-" * 65 + "IDENT"][v % 4]])
    elif kind == "blank":
        st["noise"].append([site, ["", "      ", " " * 72, "\t", "       "][v % 5]])
    elif kind == "directive":
        st["noise"].append([site, "       " + ["EJECT", "SKIP1", "SKIP2", "SKIP3", "    EJECT   "][v % 5]])
    elif kind == "numbered_directive":
        st["noise"].append([site, ["000300 EJECT", "000400 SKIP1", "ABC    SKIP2", "000300 SKIP3",
                                   "       EJECT".ljust(72) + "IDENT001"][v % 5]])
    elif kind == "slash_comment":
        st["noise"].append([site, "      / PAGE HEADING"])
    elif kind == "rebreak":
        n = len(entry_tokens(ents, site, st))
        st["e"][site]["breaks"] = [k for k in range(1, n) if (v >> (k % 8)) & 1 or v % 3 == 0]
    elif kind == "cont_token":
        st["e"][site]["cont"] = ["token", v]
    elif kind == "cont_word":
        st["e"][site]["cont"] = ["word", v]
    elif kind in ("sep", "sep_after_pic"):
        st["e"][site[0]]["sep"] = [site[1], [",", ";"][v % 2]]
    elif kind == "opt_is":
        st["e"][site[0]]["pic_is" if site[1] == "pic" else "usage_is"] = True
    elif kind == "opt_times":
        st["e"][site]["times"] = True
    elif kind == "opt_usage":
        st["e"][site]["usage_kw"] = True
    elif kind == "opt_on":
        st["e"][site]["on"] = False
    elif kind == "opt_to":
        st["e"][site]["occurs_to"] = False
    elif kind == "opt_indexed":
        st["e"][site]["key"] = [dict(iname="IDX-1"), dict(iname="IDX-1", by=False)][v % 2]
    elif kind == "opt_key":
        st["e"][site]["key"] = [dict(asc="ASCENDING", key=True, **{"is": True}, kname="KEY-X", iname="IDX-1"),
                                dict(asc="DESCENDING", kname="KEY-X", iname="IDX-1"),
                                dict(asc="ASCENDING", key=True, kname="KEY-X", iname="IDX-1", by=False)][v % 3]
    elif kind == "syn_pic":
        st["e"][site]["pic_word"] = "PICTURE"
    elif kind == "syn_usage":
        st["e"][site[0]]["syn"] = site[1]
    elif kind == "order":
        st["e"][site[0]]["order"] = site[1]
    elif kind == "renumber":
        st["levels"] = site
    elif kind == "renumber_group":
        # this group numbers its children on its own: any level above its own that leaves room for the deeper levels
        own = entry_levels(ents, st)[site]
        top = 47 + ents[site]["d"]
        cands = [x for x in range(own + 1, top + 1)]
        st["child_level"][str(site)] = cands[(v * 7919) % len(cands)]
    elif kind == "renumber_all":
        # every group chooses independently (pseudo-random in v and the group index), sibling groups differently
        par = parents_of(ents)
        for g in sorted({p for p in par if p is not None}):
            own = entry_levels(ents, st)[g]
            top = 47 + ents[g]["d"]
            cands = [x for x in range(own + 1, top + 1)]
            if site == 0:
                cands = cands[:20]
            elif site == 1:
                cands = cands[:12]            # small steps: later groups often BELOW their earlier cousins
            st["child_level"][str(g)] = cands[((v + 1) * 7919 + g * 104729 + site) % len(cands)]
    elif kind == "lower":
        for i in (range(len(ents)) if site == "all" else [site]):
            st["e"][i]["lower"] = True
    elif kind == "value":
        e = ents[site]
        num = e["pic"] in PICS_NUM
        st["e"][site]["value"] = (["ZERO", "0", "1.5", "+12", "ZEROS"] if num else
                                  ["SPACES", "'A'", "'A B.C'", "\"Q\"", "'X, Y'",
                                   # lower-case words that only LOOK like reserved words: the decoder's second parse is case-sensitive
                                   "'binary'", "'comp-3 rate'", "'pic x(9)'", "'display it'", "\"usage is comp\"",
                                   # what other dialects and tools read as the start of a comment or as an operator is text here
                                   "'*>'", "'<*>'", "'A*>B'", "'*'", "'/'", "'#'", "'--'", "'$%&'", "\"*> X\"", "'A-B'"])[v % (5 if num else 20)]
        st["e"][site]["value_is"] = bool(v & 1)
    elif kind == "value_kw":
        st["e"][site]["value"] = ["'BINARY'", "'COMP-3'", "'PIC X(9)'", "'USAGE COMP'"][v % 4]
    elif kind == "neutral":
        st["e"][site[0]]["neutral"] = st["e"][site[0]]["neutral"] + [site[1]]
        st["e"][site[0]]["just_word"] = ["JUSTIFIED", "JUST"][v % 2]
        st["e"][site[0]]["blank_when"] = bool(v % 2)
    elif kind == "cond88":
        st["e"][site]["cond"] = [[["IS-A", "'A'"], ["IS-ONE", "1"]], [["IS-STAR", "'*>'"], ["IS-A", "'A'"]]][(v // 2) % 2][: 1 + v % 2]
    elif kind == "filler_word":
        st["e"][site]["filler_word"] = False
    return st


LINE_KINDS = ("seq", "ident", "comment", "blank", "directive", "numbered_directive", "slash_comment")
NOISE_KINDS = ("comment", "blank", "directive", "numbered_directive", "slash_comment")


def flags(ents, st, kind, site):
    """facts about the rewritten site for the judge's trigger predicates (input facts only, nothing observed):
    [entry has PIC, entry has USAGE, copybook has ODO, entry is spelled FILLER, noise line lies inside an entry,
     the entry's OCCURS clause is followed by another clause]"""
    idx = site[0] if isinstance(site, list) else site
    if kind == "lower" and site == "all":
        es = ents
    elif kind in ("seq", "ident", "renumber", "renumber_group", "renumber_all") + NOISE_KINDS or not isinstance(idx, int):
        es = []
    else:
        es = [ents[idx]]
    inside = 0
    if kind in NOISE_KINDS:
        own = render(ents, st, owners=True)
        inside = int(0 < site < len(own) and own[site - 1] == own[site])
    followed = 0
    if kind == "opt_key":
        gs = [g[0] for g in clause_groups(ents[idx], st["e"][idx])]
        followed = int("occurs" in gs and gs[-1] != "occurs")
    return [int(any(x["pic"] for x in es)), int(any(x["usage"] for x in es)), int(any(x["odo"] for x in ents)),
            int(any(x["name"] is None for x in es)), inside, followed]


# ------------------------------------------------------------------------------------------------
# observation of the real pipeline
# ------------------------------------------------------------------------------------------------

KEYS = {k: i + 1 for i, k in enumerate(
    ["title", "$anchor", "type", "properties", "items", "maxItems", "maxItemsDependsOn", "$ref", "oneOf", "contentEncoding",
     "conversion", "maxLength", "minLength", "object", "array", "string", "integer", "number", "cp037", "packed-decimal",
     "bigendian-int", "decimal", "ObjectLocation", "ArrayLocation", "AtomicLocation", "OneOfLocation", "RefToLocation"])}


def K(text):
    """fixed vocabulary words travel as small integers, everything else as code points"""
    return KEYS.get(text) or S(text)


def _schema_sx(js):
    """JSON schema -> nested ints, dropping the 'cobol' source text (it legitimately differs between spellings)"""
    out = []
    for k, v in js.items():
        if k == "cobol":
            continue
        if isinstance(v, dict):
            if k == "properties":
                out.append([K(k), [[S(n), _schema_sx(p)] for n, p in v.items()]])
            else:
                out.append([K(k), _schema_sx(v)])
        elif isinstance(v, list):
            out.append([K(k), [_schema_sx(x) if isinstance(x, dict) else S(str(x)) for x in v]])
        elif isinstance(v, bool):
            out.append([K(k), int(v)])
        elif isinstance(v, int):
            out.append([K(k), v])
        else:
            out.append([K(k), K(str(v)) if k in ("type", "contentEncoding", "conversion") else S(str(v))])
    return out


def _loc_sx(loc, name=""):
    cls = type(loc).__name__
    node = [S(name), K(cls), loc.start, loc.end]
    kids = []
    if cls == "ObjectLocation":
        kids = [_loc_sx(p, n) for n, p in loc.properties.items()]
    elif cls == "ArrayLocation":
        node += [loc.item_size, loc.item_count]
        kids = [_loc_sx(loc.items, "items")]
    elif cls == "OneOfLocation":
        kids = [_loc_sx(p, n) for n, p in loc.alternatives.items()]
    elif cls == "RefToLocation":
        node.append(S(str(loc.schema.ref)))
    node.append(kids)
    return node


def pipeline(lines):
    from stingray.cobol_parser import schema_iter
    from stingray.schema_instance import SchemaMaker, LocationMaker, EBCDIC

    def run():
        out = []
        for js in schema_iter(iter(lines)):
            sch = SchemaMaker.from_json(js)
            loc = observe_call(lambda: _loc_sx(LocationMaker(EBCDIC(), sch).from_schema()), lambda x: x)
            out.append([_schema_sx(js), loc])
        return out
    return observe_call(run, lambda x: x)


def rf_observe(lines, repl):
    from stingray.cobol_parser import reference_format
    rp = [(a, b) for a, b in repl] if repl is not None else None
    return observe_call(lambda: list(reference_format(iter(lines), rp)), lambda out: [S(x) for x in out])


# ------------------------------------------------------------------------------------------------
# inputs
# ------------------------------------------------------------------------------------------------
CARD = "      "

RF_HAND = [
    # (lines, replacing)
    (["000100 01  REC.\n", "000200     05  A PIC X.\n"], None),
    (["       01  REC.\n", "      * COMMENT\n", "           05 A PIC X(3).\n", "\n", "       EJECT\n", "           05 B PIC 9.\n"], None),
    (["       01  REC.\n", "           05 A\n", "      -        PIC X.\n"], None),
    (["       01  REC.\n", "           05 A\n", "      * BETWEEN\n", "\n", "       SKIP2\n", "      -        PIC X.\n"], None),
    (["      -01  REC.\n", "           05 A PIC X.\n"], None),
    ([], None), (["\n", "      * ONLY\n"], None), (["short\n"], None), (["123456"], None), (["1234567"], None),
    (["       COPY OTHER.\n", "       01  REC.\n"], None), (["       01  REC.\n", "       COPY OTHER.\n"], None),
    (["       01 'A'.\n", "          05 'A'-X PIC X.\n"], [["'A'", "REC"]]),
    (["       01 'A'.\n", "          05 'B'-'A' PIC X.\n"], [["'A'", "REC"], ["'B'", "FLD"]]),
    (["       01 'A'.\n", "          05 'B'-'A' PIC X.\n"], [["'A'", "'B'"], ["'B'", "FLD"], ["FLD", "'A'"]]),
    (["       01 AAAA.\n"], [["AA", "A"]]), (["       01 AAA.\n"], [["AA", "B"]]), (["       01 ABAB.\n"], [["AB", "ABAB"]]),
    (["       01 X.\n"], []), (["       01 X.\n"], [["", "-"]]), (["       01 X.\n"], [["X", ""]]),
    (["       01  'P'.\n"], [["'P'", "COPY"]]), (["       'P' X.\n", "       01 Y.\n"], [["'P'", "COPY"]]),
    (["000300 EJECT\n", "       01 X.\n"], None), (["       01 X\n", "000300 EJECT\n", "           PIC X.\n"], None),
    (["       01 X\n", "      / HEADING\n", "           PIC X.\n"], None),
    (["       01 X\n", "       EJECT" + " " * 60 + "IDENT001\n", "           PIC X.\n"], None),
    (["       01 X" + " " * 61 + "IDENT001\n", "           PIC X.\n"], None),
    (["       " + "A" * 65 + "BCDEFGH\n", "      -" + "B" * 70 + "\n"], None),
    (["  EJECT  \n", "       01 X.\n"], None), (["EJECT\n", "       01 X.\n"], None),
]

RF_ALPHA = " \n*D-/.0A'\t5Ec"


def rf_random(rng):
    n = rng.randint(0, 6)
    lines = []
    for _ in range(n):
        r = rng.random()
        if r < 0.15:
            lines.append(rng.choice(["\n", "      \n", "", " " * 80 + "\n", "\t\n"]))
        elif r < 0.3:
            lines.append(rng.choice(["       ", "      ", "000100 ", " "]) + rng.choice(["EJECT", "SKIP1", "SKIP2", "SKIP3", "SKIP4", "EJECT."])
                         + rng.choice(["\n", "  \n", "", " " * 70 + "X\n"]))
        elif r < 0.75:
            seq = rng.choice(["      ", "000100", "ABCDEF", "   \t  "])
            ind = rng.choice(" " * 6 + "*D-/d" + "-")
            k = rng.randint(0, 75)
            body = "".join(rng.choice("  AB'.01-COPY\t") for _ in range(k))
            lines.append(seq + ind + body + rng.choice(["\n", "\n", ""]))
        else:
            k = rng.randint(0, 12)
            lines.append("".join(rng.choice(RF_ALPHA) for _ in range(k)))
    r = rng.random()
    if r < 0.5:
        repl = None
    else:
        repl = []
        for _ in range(rng.randint(0, 3)):
            old = "".join(rng.choice("AB'.0 ") for _ in range(rng.randint(1, 3)))
            new = "".join(rng.choice("AB'.0 C") for _ in range(rng.randint(0, 4)))
            repl.append([old, new])
    return lines, repl


WS_ALL = [9, 10, 11, 12, 13, 28, 29, 30, 31, 32, 133, 160, 5760, 8192, 8202, 8232, 8233, 8239, 8287, 12288]


def sent_entries(rng):
    n = rng.randint(0, 5)
    es = []
    for _ in range(n):
        lead = "".join(chr(rng.choice([32, 32, 10, 9])) for _ in range(rng.randint(0, 4)))
        digs = "0123456789" if rng.random() < 0.9 else "٣७９"
        l1, l2 = rng.choice(digs), rng.choice(digs)
        gap = "".join(chr(rng.choice([32, 32, 10])) for _ in range(rng.randint(0, 3)))
        k = rng.randint(0, 14)
        body = "".join(rng.choice("AB- X9().1'\n ,V") for _ in range(k)).lstrip()
        # keep 'period + white space' out of the body (the judge re-checks well-formedness)
        body = body.replace(". ", ".9").replace(".\n", ".X")
        term = chr(rng.choice(WS_ALL))
        es.append([lead, l1, l2, gap, body, term])
    tail = "".join(chr(rng.choice([32, 10])) for _ in range(rng.randint(0, 3)))
    return es, tail


def sent_random(rng):
    k = rng.randint(0, 30)
    pool = rng.choice(["01 A.\n", "0123. \n\tAB", ". 9\n05", "  12 PIC 9.9. 05 X"]) + " ."
    return "".join(rng.choice(pool) for _ in range(k))


META_KINDS_QUICK = ["seq", "ident", "comment", "blank", "directive", "rebreak", "cont_token", "sep", "opt_is", "opt_times",
                    "opt_usage", "opt_on", "opt_to", "opt_key", "syn_pic", "syn_usage", "order", "renumber", "renumber_group", "renumber_all", "value", "neutral",
                    "cond88", "filler_word",
                    # rewrites the property text allows but the implementation is known to mishandle
                    "lower", "sep_after_pic", "value_kw", "cont_word", "numbered_directive", "slash_comment", "opt_indexed"]
KNOWN_BAD_KINDS = META_KINDS_QUICK[-7:]


def _e(d, name, pic=None, usage=None, occurs=None):
    return dict(d=d, name=name, pic=pic, usage=usage, occurs=occurs, odo=None, redef=None)


# sibling subtrees of different depth: a deep first group, later groups at shallower / equal depth (with and without OCCURS)
SHAPED = [
    [_e(0, "REC"), _e(1, "GRP-A"), _e(2, "GRP-B"), _e(3, "FLD-A", "X(3)"), _e(3, "FLD-B", "9(3)"), _e(2, "AMT-1", "S9(4)", "B"),
     _e(1, "GRP-C"), _e(2, "ITEM-1", "X(2)"), _e(2, "ITEM-2", "9(7)", "P"), _e(1, "TRL", "X")],
    [_e(0, "REC"), _e(1, "HDR", "XX"), _e(1, "GRP-A"), _e(2, "GRP-B", occurs=2), _e(3, "FLD-A", "X(3)"), _e(2, "QTY", "99"),
     _e(1, "TBL-A", occurs=3), _e(2, "ITEM-1", "X(2)"), _e(2, "ITEM-2", "S9(5)V99", "P"), _e(1, "TBL-B", occurs=2),
     _e(2, "KEY-X", "X(4)")],
    [_e(0, "REC"), _e(1, "GRP-A"), _e(2, "FLD-A", "X"), _e(1, "GRP-B"), _e(2, "GRP-C"), _e(3, "N1", "9"), _e(3, "N2", "99"),
     _e(1, "TBL-A", occurs=4), _e(2, "RATE", "S999", "B"), _e(1, "TBL-B"), _e(2, "ZIP-4", "9(4)"), _e(2, "LAST-NM", "X(10)")],
]


def inputs(ctx):
    rng = ctx.rng
    quick = ctx.tier == "quick"
    for lines, repl in RF_HAND:
        yield "rf", {"k": "rf", "lines": lines, "repl": repl}
    for _ in range(1500 if quick else 30000):
        lines, repl = rf_random(rng)
        yield "rf", {"k": "rf", "lines": lines, "repl": repl}
    for _ in range(600 if quick else 12000):
        es, tail = sent_entries(rng)
        yield "sent", {"k": "sent", "entries": es, "tail": tail, "chunk": rng.randint(1, 9)}
    for _ in range(600 if quick else 12000):
        yield "sent", {"k": "sent", "entries": None, "text": sent_random(rng), "chunk": rng.randint(1, 9)}
    for _ in range(200 if quick else 4000):
        k = rng.randint(0, 20)
        yield "compact", {"k": "compact", "text": "".join(rng.choice("AB  \n\t.\xa0\x1c9") for _ in range(k))}
    # layer B
    ncb = 24 if quick else 150
    for c in range(ncb):
        ents = SHAPED[c] if c < len(SHAPED) else gen_copybook(rng)
        st0 = base_style(ents)
        pre = []
        if c % 3 == 2:
            # original already numbered group by group
            pre.append(["renumber_all", c % 2, rng.randint(0, 255)])
        if c % 2:
            # original already broken over several lines, so that noise lines can fall inside an entry
            for i in sites(ents, st0, "rebreak"):
                pre.append(["rebreak", i, 3 * rng.randint(0, 60)])
            # ... and written with the OCCURS clause in front of the other clauses
            for i in range(len(ents)):
                if ents[i]["occurs"] and (ents[i]["pic"] or ents[i]["usage"]) and c % 4 == 1:
                    pre.append(["order", [i, 1], 0])
        for kind, site, v in pre:
            st0 = apply(ents, st0, kind, site, v)
        for kind in META_KINDS_QUICK:
            ss = sites(ents, st0, kind)
            if not quick and len(ss) > 5:
                ss = rng.sample(ss, 5)
            elif kind in LINE_KINDS and len(ss) > 7:
                ss = [ss[0], ss[-1]] + rng.sample(ss[1:-1], 5)
            for site in ss:
                yield "meta", {"k": "meta", "ents": ents, "pre": pre, "rw": [[kind, site, rng.randint(0, 255)]]}
    if not quick:
        clean = [k for k in META_KINDS_QUICK if k not in KNOWN_BAD_KINDS]
        for c in range(2500):
            ents = rng.choice(SHAPED) if c % 10 == 0 else gen_copybook(rng)
            st = base_style(ents)
            rws = []
            for _ in range(rng.randint(2, 6)):
                kind = rng.choice(clean)
                ss = sites(ents, st, kind)
                if not ss:
                    continue
                site = rng.choice(ss)
                v = rng.randint(0, 255)
                st = apply(ents, st, kind, site, v)
                rws.append([kind, site, v])
            if rws:
                yield "meta", {"k": "meta", "ents": ents, "pre": [], "rw": rws}


_cache = {}


def observe(ctx, inp):
    k = inp["k"]
    if k == "rf":
        repl = inp["repl"]
        obs = rf_observe(inp["lines"], repl)
        return [0, [S(x) for x in inp["lines"]], [[S(a), S(b)] for a, b in (repl or [])], obs]
    if k == "sent":
        from stingray.cobol_parser import dde_sentences
        if inp["entries"] is not None:
            text = "".join(a + b + c + d + e + "." + f for a, b, c, d, e, f in inp["entries"]) + inp["tail"]
            ents = [[S(a), ord(b), ord(c), S(d), S(e), ord(f)] for a, b, c, d, e, f in inp["entries"]]
            tail = S(inp["tail"])
            has = 1
        else:
            text, ents, tail, has = inp["text"], [], [], 0
        n = max(1, inp["chunk"])
        chunks = [text[i:i + n] for i in range(0, len(text), n)]
        obs = observe_call(lambda: [list(g) for g in dde_sentences(iter(chunks))], lambda out: [[S(a), S(b)] for a, b in out])
        return [1, has, ents, tail, [S(c) for c in chunks], obs]
    if k == "compact":
        from stingray.cobol_parser import DDE
        obs = observe_call(lambda: DDE("05", inp["text"], clauses={"name": "X"}).compact_source, S)
        return [2, S(inp["text"]), obs]
    if k == "meta":
        ents = inp["ents"]
        st0 = base_style(ents)
        for kind, site, v in inp.get("pre", []):
            st0 = apply(ents, st0, kind, site, v)
        st = st0
        for kind, site, v in inp["rw"]:
            st = apply(ents, st, kind, site, v)
        l0, l1 = render(ents, st0), render(ents, st)
        key = repr(l0)
        if key not in _cache:
            if len(_cache) > 64:
                _cache.clear()
            _cache[key] = pipeline(l0)
        o0 = _cache[key]
        o1 = pipeline(l1)
        kinds = [KINDS[kd] for kd, _, _ in inp["rw"]]
        fl = [flags(ents, st, kd, site) for kd, site, _ in inp["rw"]]
        # Layer A inside the whole-pipeline case: the card images of both spellings and reference_format's output for them
        r0, r1 = rf_observe(l0, None), rf_observe(l1, None)
        return [3, kinds, fl, o0, o1, [S(x) for x in l0], r0, [S(x) for x in l1], r1]
    raise ValueError(k)


def describe(inp):
    if inp["k"] == "meta":
        ents = inp["ents"]
        st0 = base_style(ents)
        for kind, site, v in inp.get("pre", []):
            st0 = apply(ents, st0, kind, site, v)
        st = st0
        for kind, site, v in inp["rw"]:
            st = apply(ents, st, kind, site, v)
        return {"rewrites": inp["rw"], "original": "".join(render(ents, st0)), "rewritten": "".join(render(ents, st))}
    return inp
