"""C11 runtime: executes a HISTORY of calls against the real stingray code and then a PROBE, all in THIS
interpreter, and prints one JSON report on stdout.  Started by harness/c11.py as a fresh process
(`python c11_probe.py < job.json`, PYTHONPATH=<tree under test>/src, PYTHONHASHSEED=0): once with the
history, once with an empty history (the fresh-interpreter run of the same probe).

No oracle logic here: the script calls the implementation, serialises what it returned (canonical JSON text,
exception class names, digests of those texts) and records, for the judge's model, which modelled call each
step was (`mops`, see coq/Judge/JC11.v) together with that call's INPUT as the implementation's own front end
read it (dde_sentences + clause_dict entries; leaf type names of a document).

job = {"history": [op, ...], "probe": probe}
 op    {"op": "parse", "text": str, "via": "schema_iter" | "maker" | "loader" | "ext"}
       {"op": "make_std" | "make_ext", "keep": bool}
       {"op": "load", "doc": json | None, "ref": int, "via": "class" | "instance" | "ext"}
       {"op": "nav", "text": str, "record": [int], "paths": [[[0, name] | [1, index], ...], ...], "keep": bool,
        "dump": bool, "unp": "shared" | "new"}   shared = the one long-lived EBCDIC unpacker of the process
       {"op": "reread", "k": int} | {"op": "drop"} | {"op": "print", "k": int} | {"op": "csv", "rows": [[str]]}
       {"op": "csv_schema", "cols": [str], "rows": [[str]]}   CSV without heading row + hand-written schema without
                                                              position keywords, built from shared column sub-documents
 probe {"probe": "parse", "text": str, "via": "schema_iter" | "maker"}
       {"probe": "load", "doc": json}
       {"probe": "read", "text": str, "record": [int], "paths": [...], "use_kept": bool, "unp": "shared" | "new"}
       {"probe": "csv_read", "cols": [str], "rows": [[str]]}
"""
import contextlib
import gc
import hashlib
import io
import json
import os
import shutil
import sys
import tempfile

HERE = os.path.dirname(os.path.abspath(__file__))
if HERE not in sys.path:
    sys.path.append(HERE)
from lib import S, exn_code  # noqa: E402


def digest(text):
    return int.from_bytes(hashlib.blake2b(text.encode("utf-8", "surrogatepass"), digest_size=16).digest(), "big")


def opt(x):
    return [] if x is None else [S(str(x))]


def fatal(ex):
    return isinstance(ex, (KeyboardInterrupt, SystemExit, MemoryError))


def doc_text(doc):
    """the document as JSON text, key order as it is"""
    return json.dumps(doc, sort_keys=False, default=repr, ensure_ascii=True)


def leaf_types(doc):
    """type names of the leaves of a document in walk order (input abstraction for the model's LoadSchema)"""
    out = []

    def go(d):
        if not isinstance(d, dict):
            return
        if d.get("oneOf"):
            for a in d["oneOf"]:
                go(a)
        elif d.get("$ref"):
            return
        elif "items" in d or d.get("type") == "array":
            go(d.get("items"))
        elif "properties" in d or d.get("type") == "object":
            for v in d.get("properties", {}).values():
                go(v)
        else:
            out.append(str(d.get("type")))
    go(doc)
    return out


def schema_struct(schema, doc, seen=None):
    """(structure of the loaded Schema tree as nested lists, every node aliases its document node)"""
    alias = [True]

    def name_of(s):
        if s is None:
            return None
        a = s._attributes if isinstance(getattr(s, "_attributes", None), dict) else {}
        return [type(s).__name__, a.get("$anchor"), a.get("title")]

    def go(s, d, depth):
        if depth > 60:
            return ["deep"]
        if s._attributes is not d:
            alias[0] = False
        a = s._attributes if isinstance(s._attributes, dict) else {}
        node = [type(s).__name__, a.get("$anchor"), a.get("title"), getattr(s, "ref", None), name_of(getattr(s, "ref_to", None))]
        cls = type(s).__name__
        dd = d if isinstance(d, dict) else {}
        if cls == "ObjectSchema":
            props = getattr(s, "properties", {})
            node.append([[k, go(v, dd.get("properties", {}).get(k), depth + 1)] for k, v in props.items()])
        elif cls in ("ArraySchema", "DependsOnArraySchema"):
            node.append(go(s.items, dd.get("items"), depth + 1))
            if cls == "DependsOnArraySchema":
                node.append(getattr(s, "max_ref", None))
        elif cls == "OneOfSchema":
            alts = dd.get("oneOf") or []
            node.append([go(x, alts[i] if i < len(alts) else None, depth + 1) for i, x in enumerate(s.alternatives)])
        # instance attributes that do not belong there would be state hung on the schema
        node.append(sorted(k for k in vars(s).keys()))
        return node
    tree = go(schema, doc, 0)
    return json.dumps(tree, default=repr), alias[0]


class Runtime:
    def __init__(self):
        import stingray.cobol_parser as cp
        import stingray.schema_instance as si
        import stingray.workbook as wb
        import stingray.estruct as es
        self.cp, self.si, self.wb, self.es = cp, si, wb, es
        self.mops = []
        self.docs = []       # {"doc", "before"}
        self.schemas = []    # {"schema", "doc", "before", "alias"}
        self.by_text = {}    # copybook text -> loaded schema used for navigation
        self.navs = []       # kept navigators (text, record, nav, unpacker, paths)
        self.std_makers, self.ext_makers = [], []
        self.shared_unp = None   # the long-lived EBCDIC unpacker
        self.coldocs = {}        # column name -> the ONE sub-document describing that column (shared between schemas)
        self.csv_docs = {}       # tuple of column names -> (document, loaded schema) of a hand-written schema
        self.tmp = None

    # ---------------------------------------------------------------- helpers
    def tmpdir(self):
        if self.tmp is None:
            self.tmp = tempfile.mkdtemp(prefix="c11_")
        return self.tmp

    def cleanup(self):
        if self.tmp:
            shutil.rmtree(self.tmp, ignore_errors=True)

    def entries(self, text):
        cp = self.cp
        out = []
        for lvl, src in cp.dde_sentences(cp.reference_format(io.StringIO(text))):
            cl = cp.clause_dict(src)
            out.append([S(lvl), opt(cl.get("name")), opt(cl.get("filler")), opt(cl.get("redefines")),
                        int("picture" in cl), int("occurs_maxitems" in cl or "odo_maxitems" in cl), S(" ".join(src.split()))])
        return out

    def register_doc(self, doc):
        for d in self.docs:
            if d["doc"] is doc:
                return
        self.docs.append({"doc": doc, "before": digest(doc_text(doc))})

    def register_schema(self, schema, doc):
        st, alias = schema_struct(schema, doc)
        self.schemas.append({"schema": schema, "doc": doc, "before": digest(st), "alias": int(alias)})

    def printed(self, f):
        """what f() writes to stdout, or the exception class"""
        buf = io.StringIO()
        with contextlib.redirect_stdout(buf):
            ok, v = self.call(f)
        return buf.getvalue() if ok else v[0]

    def call(self, f):
        """(True, value) | (False, exception class name, code)"""
        try:
            return True, f()
        except BaseException as ex:
            if fatal(ex):
                raise
            return False, [type(ex).__name__, exn_code(ex)]

    # ---------------------------------------------------------------- modelled calls
    def parse(self, text, via):
        """returns {"docs": (ok, docs|exc), "names": res}"""
        cp = self.cp
        maker = None
        if via == "ext":
            self.mops.append([2])
            maker = cp.JSONSchemaMakerExtendedVocabulary()
        elif via == "maker":
            if not self.std_makers:
                self.mops.append([1])
                maker = cp.JSONSchemaMaker()
            else:
                maker = self.std_makers[-1]
        ok, ents = self.call(lambda: self.entries(text))
        self.mops.append([0, ents] if ok else [5])
        captured = []
        original = cp.structure

        def spy(sentences):
            try:
                trees = original(sentences)
            except BaseException as ex:
                if not fatal(ex):
                    captured.append([1, exn_code(ex)])
                raise
            names = []

            def pre(n):
                names.append(S(n.unique_name))
                for c in n.children:
                    pre(c)
            for t in trees:
                pre(t)
            captured.append([0, names])
            return trees

        def run():
            if via == "schema_iter":
                return list(cp.schema_iter(io.StringIO(text)))
            if via == "loader":
                from pathlib import Path
                p = Path(self.tmpdir()) / f"book{len(self.mops)}.cpy"
                p.write_text(text)
                loader = self.wb.COBOLSchemaLoader(p)
                first = loader.load()
                assert first is loader.schemas[0]
                return list(loader.schemas)
            trees = cp.structure(cp.dde_sentences(cp.reference_format(io.StringIO(text))))
            return [maker.jsonschema(t) for t in trees]
        cp.structure = spy
        try:
            res = self.call(run)
        finally:
            cp.structure = original
        if res[0]:
            for d in res[1][:4]:
                self.register_doc(d)
        return {"docs": res, "names": captured[0] if captured else [2]}

    def load(self, doc, via):
        si, cp = self.si, self.cp
        self.register_doc(doc)
        if via == "ext":
            self.mops.append([4, [S(t) for t in leaf_types(doc)]])
            res = self.call(lambda: cp.JSONSchemaMakerExtendedVocabulary().atomic_maker.from_json(doc))
        else:
            self.mops.append([3, [S(t) for t in leaf_types(doc)]])
            if via == "instance":
                res = self.call(lambda: si.SchemaMaker().from_json(doc))
            else:
                res = self.call(lambda: si.SchemaMaker.from_json(doc))
        if res[0]:
            self.register_schema(res[1], doc)
        return res

    def schema_for(self, text):
        if text not in self.by_text:
            p = self.parse(text, "schema_iter")
            if not p["docs"][0] or not p["docs"][1]:
                return None
            doc = p["docs"][1][0]
            res = self.load(doc, "class")
            if not res[0]:
                return None
            self.by_text[text] = res[1]
        return self.by_text[text]

    def follow(self, nav, path):
        for kind, x in path:
            nav = nav.index(x) if kind == 1 else nav.name(x)
        return nav

    def read_all(self, nav, paths):
        out = []
        for p in paths:
            def one():
                n = self.follow(nav, p)
                raw = n.raw()
                ok, v = self.call(n.value)
                return [n.location.start, n.location.end, bytes(raw).hex(), repr(v) if ok else v[0]]
            ok, v = self.call(one)
            out.append(v if ok else v[0])
        return out

    def make_nav(self, text, record, shared=True):
        """shared: through the ONE long-lived unpacker of this process (as a sheet does for every row of a file);
        otherwise through a new unpacker"""
        schema = self.schema_for(text)
        if schema is None:
            return None, None
        if shared:
            if self.shared_unp is None:
                self.shared_unp = self.si.EBCDIC()
            unp = self.shared_unp
        else:
            unp = self.si.EBCDIC()
        self.mops.append([5])
        ok, nav = self.call(lambda: unp.nav(schema, self.si.BytesInstance(bytes(record))))
        return (nav, unp) if ok else (nav[0], unp)

    def csv_schema(self, cols, rows):
        """rows of a CSV file WITHOUT heading row, read through a hand-written schema that has no position keywords:
        an object whose properties are the shared column sub-documents in the order of cols"""
        from pathlib import Path
        import csv
        key = tuple(cols)
        if key not in self.csv_docs:
            for c in cols:
                if c not in self.coldocs:
                    self.coldocs[c] = {"title": c, "$anchor": c, "type": "string"}
            doc = {"title": "layout " + " ".join(cols), "type": "object", "properties": {c: self.coldocs[c] for c in cols}}
            res = self.load(doc, "class")
            if not res[0]:
                return res[1][0]
            self.csv_docs[key] = (doc, res[1])
        doc, schema = self.csv_docs[key]
        self.mops.append([5])
        p = Path(self.tmpdir()) / f"plain{len(self.mops)}.csv"
        with p.open("w", newline="") as f:
            csv.writer(f).writerows(rows)

        def run():
            out = []
            with self.wb.CSV_Workbook(p) as book:
                sheet = book.sheet("").set_schema(schema)
                for row in sheet.row_iter():
                    out.append([row.name(c).value() for c in cols])
            return out
        ok, v = self.call(run)
        return v if ok else v[0]

    # ---------------------------------------------------------------- the history
    def do(self, op):
        kind = op["op"]
        if kind == "parse":
            self.parse(op["text"], op["via"])
        elif kind == "make_std":
            self.mops.append([1])
            m = self.cp.JSONSchemaMaker()
            if op.get("keep"):
                self.std_makers.append(m)
        elif kind == "make_ext":
            self.mops.append([2])
            m = self.cp.JSONSchemaMakerExtendedVocabulary()
            if op.get("keep"):
                self.ext_makers.append(m)
        elif kind == "load":
            doc = op.get("doc")
            if doc is None:
                if not self.docs:
                    return
                doc = self.docs[op.get("ref", 0) % len(self.docs)]["doc"]
            self.load(doc, op.get("via", "class"))
        elif kind == "nav":
            nav, unp = self.make_nav(op["text"], op["record"], op.get("unp", "shared") == "shared")
            if nav is None or isinstance(nav, str):
                return
            self.read_all(nav, op["paths"])
            if op.get("dump"):
                with contextlib.redirect_stdout(io.StringIO()):
                    self.call(nav.dump)
            if op.get("keep"):
                self.navs.append((op["text"], list(op["record"]), nav, unp, op["paths"]))
        elif kind == "reread":
            if self.navs:
                self.mops.append([5])
                t = self.navs[op.get("k", 0) % len(self.navs)]
                self.read_all(t[2], t[4])
        elif kind == "drop":
            self.mops.append([6])
            self.navs.clear()
            gc.collect()
        elif kind == "print":
            if self.schemas:
                self.mops.append([5])
                s = self.schemas[op.get("k", 0) % len(self.schemas)]["schema"]
                with contextlib.redirect_stdout(io.StringIO()):
                    self.call(s.print)
                    self.call(lambda: list(s.dump_iter(None)))
                    self.call(lambda: repr(s))
        elif kind == "helpers":
            # ordinary use of entry points that have nothing to do with the probe: the conversion helpers on floats, strings and
            # Decimals, name cleaning, sizes and decodes of wide packed / zoned / binary items (no modelled state touched)
            self.mops.append([5])
            from decimal import Decimal as D
            E, SI, WB = self.es, self.si, self.wb
            for f in (lambda: SI.decimal_places(2, 3.14159), lambda: SI.decimal_places(2, 2.675), lambda: SI.decimal_places(0, 7.5),
                      lambda: SI.decimal_places(3, "1.23456"), lambda: SI.decimal_places(2, D("12345678901234567890.125")),
                      lambda: SI.digit_string(5, 1020.0), lambda: SI.digit_string(16, 9007199254740993),
                      lambda: [g(1) for g in SI.CONVERSION.values()], lambda: WB.name_cleaner("Total ($)\n"),
                      lambda: E.calcsize("USAGE COMP-3 PIC S9(31)"), lambda: E.unpack("USAGE COMP-3 PIC S9(31)", bytes([0x12] * 15 + [0x3D])),
                      lambda: E.unpack("USAGE DISPLAY PIC 9(20)V9(10)", bytes([0xF1] * 30)),
                      lambda: E.unpack("USAGE COMP PIC S9(18)", bytes(8)), lambda: E.unpack("USAGE COMP-3 PIC 9(3)", bytes([0x1A, 0x3C]))):
                self.call(f)
        elif kind == "csv":
            self.mops.append([5])
            from pathlib import Path
            import csv
            p = Path(self.tmpdir()) / f"sheet{len(self.mops)}.csv"
            with p.open("w", newline="") as f:
                csv.writer(f).writerows(op["rows"])

            def run():
                out = []
                with self.wb.open_workbook(p) as book:
                    sheet = book.sheet("Sheet1").set_schema_loader(self.wb.HeadingRowSchemaLoader())
                    for row in sheet.rows():
                        out.append([row.name(h).value() for h in op["rows"][0]])
                    self.register_doc(sheet.schema.json())
                    self.register_schema(sheet.schema, sheet.schema.json())
                return out
            self.call(run)
        elif kind == "csv_schema":
            self.csv_schema(op["cols"], op["rows"])
        else:
            raise ValueError(f"unknown op {kind}")

    # ---------------------------------------------------------------- the probe
    def probe(self, q):
        kind = q["probe"]
        if kind == "parse":
            r = self.parse(q["text"], q.get("via", "schema_iter"))
            ok = r["docs"][0]
            report = ["parse", ok, [doc_text(d) for d in r["docs"][1]] if ok else r["docs"][1][0], r["names"]]
            return report, r["names"]
        if kind == "load":
            res = self.load(q["doc"], "class")
            if res[0]:
                st, alias = schema_struct(res[1], q["doc"])
                return ["load", True, st, alias, res[1].json() is q["doc"], self.printed(res[1].print)], [0, []]
            return ["load", False, res[1][0]], [1, res[1][1]]
        if kind == "read":
            nav = None
            if q.get("use_kept"):
                for t in self.navs:
                    if t[0] == q["text"] and t[1] == list(q["record"]):
                        nav = t[2]
                        self.mops.append([5])
                        break
            if nav is None and q.get("tree_of_kept"):
                # the record read through the Location tree of a navigator kept from the history (a layout that does not depend on
                # the record's bytes is the same tree for every record): NDNav(unpacker, location, instance) is public API, and
                # what such a tree answers for THIS record must not depend on the records it served before
                for t in self.navs:
                    if t[0] == q["text"]:
                        self.mops.append([5])
                        ok, made = self.call(lambda: self.si.NDNav(t[3], t[2].location, self.si.BytesInstance(bytes(q["record"]))))
                        nav = made if ok else made[0]
                        break
            if nav is None:
                nav, _unp = self.make_nav(q["text"], q["record"], q.get("unp", "shared") == "shared")
            if nav is None:
                return ["read", "no schema"], [2]
            if isinstance(nav, str):
                return ["read", "nav raised", nav], [2]
            return ["read", self.read_all(nav, q["paths"]), self.printed(nav.dump), self.printed(nav.schema.print)], [2]
        if kind == "csv_read":
            return ["csv_read", self.csv_schema(q["cols"], q["rows"])], [2]
        raise ValueError(f"unknown probe {kind}")

    def immut(self):
        out = []
        for d in self.docs:
            out.append([d["before"], digest(doc_text(d["doc"]))])
        for s in self.schemas:
            st, alias = schema_struct(s["schema"], s["doc"])
            out.append([s["before"], digest(st)])
            out.append([s["alias"], int(alias)])
            out.append([1, int(s["schema"].json() is s["doc"])])
        return out


def main():
    job = json.load(sys.stdin)
    rt = Runtime()
    try:
        for op in job["history"]:
            rt.do(op)
        n = len(rt.mops)
        report, res = rt.probe(job["probe"])
        text = json.dumps(report, default=repr)
        out = {"mhist": rt.mops[:n], "mprobe": rt.mops[n:], "obs": [digest(text), res], "immut": rt.immut()}
        if os.environ.get("C11_DEBUG"):
            out["report"] = report
    finally:
        rt.cleanup()
    json.dump(out, sys.stdout)


if __name__ == "__main__":
    main()
