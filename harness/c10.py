"""C10 - navigation is coherent and lazy: a part of the value is the value of the part (NDNav family).

The DNav and WBNav families return the instance itself from value(); their commutation laws are C15's
(nav_value = plain indexing) and C09's (by name / values in header order) theorems and runs.
"""
import re
from layout_common import *
from codec_common import SPELLINGS, canon

GEN = ["EstructParams", "Cp037", "SchemaMakerParams", "NameCleanerParams", "HeaderRowParams"]
ALSO = ["C09"]   # the WBNav family (Row.name / Row.values over workbook rows) is C09's model, theorems and run; ./check C10 runs that engine too
RULE = ("random record descriptions (C01's generator with a numeric-rich pool: zoned, signed zoned, COMP-3, binary, X items; OCCURS, OCCURS DEPENDING ON, "
        "REDEFINES at every child position, FILLER) printed as copybooks; an EBCDIC record in which every elementary item holds a valid, position-coded "
        "encoding and 0-3 chosen numeric DISPLAY / COMP-3 occurrences are overwritten with a byte their decoder rejects (0xFA); for EVERY navigation path "
        "(names, REDEFINES-x entries, first/second/last index of every table, refused indices): start, end, raw(), value() (or the exception class) and the "
        "list of slices value() took from the instance (a BytesInstance subclass that logs __getitem__); for every top-level property nav.name(k).value(), and "
        "Row.values(). The judge checks whole-versus-part on the observations, decodes every elementary item from its own bytes with the C02 model, and compares "
        "everything with the value model. All navigators of a case are created breadth-first from shared, held parent navigators before anything is read. Own streams: OCCURS DEPENDING ON inside a repeated group (index raises KeyError) and negative indices on every table (-1 and a second negative number: IndexError demanded). "
        "Stream bad-counter: record descriptions with at least one OCCURS DEPENDING ON table whose counters are all unsigned DISPLAY or all unsigned COMP-3 items; in four cases of five "
        "one or two of the counters a table names hold bytes their decoder rejects (a zoned byte with low nibble A-F under any zone, a packed digit nibble A-F), in the fifth none does (control: the "
        "partial constructor is the total one, also for COMP-3 counters); every path - fields before, inside and after the tables - is read FROM SCRATCH (unpacker.nav, the path, value()), and so is every "
        "top-level property and Row.values(); the model is the constructor with a partial counter decoder (coq/Model/LayoutPartial.v). "
        "Non-trivial = tree has OCCURS, REDEFINES, ODO or an undecodable field (branch > 1); distinct = distinct case lines.")
TRIVIAL_BRANCHES = [1]
ASSUMPTIONS = ["widths of elementary items are given to the judge as the widths C04's specification lists",
               "the loaded Schema mirrors the JSON document (C15)",
               "outside the stream bad-counter ODO counters hold decodable unsigned digits (the clean generators never corrupt a counter); no generator produces a counter with a "
               "negative sign (Python's int is negative there and the table gets a negative length: outside the model) - a count above the declared maximum is accepted by code and model alike",
               "the decoder of one elementary item is the C02/C18 model of estruct.unpack (coq/Model/Estruct.v); CONVERSION is Decimal or identity, which leaves "
               "estruct's results unchanged (C16)",
               "alternatives of a oneOf carry pairwise distinct $anchor/title keys (OneOfLocation keeps them in a dict)",
               "TextUnpacker instances are exercised at the layout level only (C01); Decimal(str) parsing is not modelled"]
TRUSTED = ["harness-side BytesInstance subclass logging the slices taken (observation only)"]

# ---------------------------------------------------------------- generator: numeric-rich pool


def pool10():
    out = elem_choices(False)
    out += [("9(2)", "DISPLAY", 2), ("99V9", "DISPLAY", 3), ("S9(4)", "DISPLAY", 5), ("S99V9", "DISPLAY", 4), ("9(5)", "DISPLAY", 5),
            ("S9(3)", "COMP-3", 2), ("S9(7)V99", "COMP-3", 5), ("9(3)", "COMPUTATIONAL-3", 2), ("S9(2)", "PACKED-DECIMAL", 2),
            ("9(6)", "COMP-3", 4)]
    return out


def gen_tree10(rng, **opts):
    g = Gen(rng, **opts)
    g.pool = pool10()
    return g.group(0, False, False, top=True)


def pic_info(pic):
    """(kind, ...) of the pictures this generator prints: ('text', k) or ('num', signed, m, n)"""
    m = re.fullmatch(r"X\((\d+)\)", pic)
    if m:
        return ("text", int(m.group(1)))
    if re.fullmatch(r"X+", pic):
        return ("text", len(pic))
    signed = pic.startswith("S")
    body = pic[1:] if signed else pic
    parts = body.split("V")

    def digits(s):
        n = 0
        for mm in re.finditer(r"9(?:\((\d+)\))?", s):
            n += int(mm.group(1)) if mm.group(1) else 1
        assert re.fullmatch(r"(9(\(\d+\))?)*", s), pic
        return n
    return ("num", signed, digits(parts[0]), digits(parts[1]) if len(parts) > 1 else 0)


def atoms_sx(tree):
    out = []

    def go(n):
        if n["kind"] == "elem":
            info = pic_info(n["pic"])
            u = SPELLINGS.index(n["usage"])
            if info[0] == "text":
                out.append([n["id"], 1, u, info[1], 0, 0])
            else:
                out.append([n["id"], 0, u, int(info[1]), info[2], info[3]])
        for k in n["kids"]:
            go(k)
    go(tree)
    return out


def occurrences(tree, env):
    """[(start, node)] for every occurrence of every elementary item that owns storage (redefiners overlay their base)"""
    out = []

    def count(n):
        if n["occ"] is None:
            return 1
        return n["occ"][1] if n["occ"][0] == "times" else env[n["occ"][1]]

    def ext1(n):
        if n["kind"] == "elem":
            return n["size"]
        return sum(count(k) * ext1(k) for k in n["kids"] if k["redef"] is None)

    def item(n, start):
        for i in range(count(n)):
            pos = start + i * ext1(n)
            if n["kind"] == "elem":
                out.append((pos, n))
            else:
                off = pos
                for k in n["kids"]:
                    if k["redef"] is None:
                        item(k, off)
                        off += count(k) * ext1(k)
    item(tree, 0)
    return out


PACKED_U = {"COMP-3", "COMPUTATIONAL-3", "PACKED-DECIMAL"}


def fill(record, pos, n, env):
    size, info = n["size"], pic_info(n["pic"])
    d = lambda j: ((pos + j) * 7 + 3) % 10
    if n.get("is_counter") and n["usage"] in PACKED_U:
        nib = [int(ch) for ch in f"{env[n['id']]:0{2 * size - 1}d}"] + [0xF]
        for j in range(size):
            record[pos + j] = 16 * nib[2 * j] + nib[2 * j + 1]
    elif n.get("is_counter"):
        for j, ch in enumerate(f"{env[n['id']]:0{size}d}"):
            record[pos + j] = 0xF0 + int(ch)
    elif info[0] == "text":
        for j in range(size):
            record[pos + j] = (0xC1 + (pos + j) % 9) if (pos + j) % 3 else (0xF0 + d(j))
    elif n["usage"] == "DISPLAY":
        for j in range(size):
            record[pos + j] = 0xF0 + d(j)
        if info[1]:
            record[pos + size - 1] = (0xD0 if pos % 2 else 0xC0) + d(size - 1)
    elif n["usage"] in PACKED_U:
        nib = [d(j) for j in range(2 * size - 1)] + [(0xC, 0xD, 0xF)[pos % 3]]
        for j in range(size):
            record[pos + j] = 16 * nib[2 * j] + nib[2 * j + 1]
    else:
        for j in range(size):
            record[pos + j] = ((pos + j) * 37 + 11) % 251


def make_record10(tree, env, total, rng, ncorrupt):
    record = [0] * total
    occs = occurrences(tree, env)
    for pos, n in occs:
        fill(record, pos, n, env)
    targets = [(pos, n) for pos, n in occs if not n.get("is_counter") and pic_info(n["pic"])[0] == "num"
               and (n["usage"] == "DISPLAY" or n["usage"] in PACKED_U)]
    rng.shuffle(targets)
    for pos, n in targets[:ncorrupt]:
        record[pos + rng.randrange(n["size"])] = 0xFA
    return record


def node_at(tree, path):
    """(node, view) a path leads to; view = 'occ' (one occurrence / plain item), 'table', 'atom'"""
    node, view = tree, "occ"
    for kind, x in path:
        if kind == 1:
            if view != "table":
                return None, None
            view = "occ"
        else:
            if view != "occ":
                return None, None
            if node["kind"] == "elem":
                if x != node["id"]:
                    return None, None
                view = "atom"
            else:
                nxt = [k for k in node["kids"] if k["id"] == x]
                if not nxt:
                    return None, None
                node = nxt[0]
                view = "table" if node["occ"] is not None else "occ"
    return node, view


def with_redefines(tree, paths):
    out = []
    for p in paths:
        out.append(p)
        node, view = node_at(tree, p)
        if node is not None and view == "occ" and node["kind"] == "group":
            seen = []
            for k in node["kids"]:
                if k["redef"] is not None and k["redef"] not in seen:
                    seen.append(k["redef"])
                    out.append(p + [[2, k["redef"]]])
    return out


def used_counters(tree):
    """ids of the counters some OCCURS DEPENDING ON table names"""
    out = []

    def go(n):
        if n["occ"] is not None and n["occ"][0] == "odo" and n["occ"][1] not in out:
            out.append(n["occ"][1])
        for k in n["kids"]:
            go(k)
    go(tree)
    return out


def pack_counters(tree):
    """every counter becomes an unsigned COMP-3 item of the same number of bytes"""
    def go(n):
        if n.get("is_counter"):
            n["pic"], n["usage"] = f"9({2 * n['size'] - 1})", "COMP-3"
        for k in n["kids"]:
            go(k)
    go(tree)


def build_case_bad(c):
    """stream bad-counter: a tree with an ODO table; the record is laid out for a count vector, then some of the counters
    a table names are overwritten with bytes their decoder rejects (c['nbad'] of them; 0: control)"""
    import random
    if c.get("witness"):
        # the witness of finding K-bad-counter-blocks-record (Props/C10d.v wit_tree, wit_bad):
        #   01 REC. 05 HDR PIC X(3). 05 N PIC 9. 05 T OCCURS 5 DEPENDING ON N PIC XX. 05 AFTER PIC X(2).   N = byte 0x4A
        def el(i, pic, size, **kw):
            return dict(dict(id=i, kind="elem", pic=pic, usage="DISPLAY", size=size, occ=None, redef=None, filler=False, kids=[]), **kw)
        tree = dict(id=1, kind="group", occ=None, redef=None, filler=False,
                    kids=[el(2, "X(3)", 3), el(3, "9", 1, is_counter=True), el(4, "XX", 2, occ=("odo", 3, 5)), el(5, "X(2)", 2)])
        env = {3: 2}
        total, counters, paths = layout(tree, env)
        return tree, env, counters, paths, list(bytes.fromhex("c1c2c34a81818282e9e9"))
    k = 0
    while True:
        rng = random.Random(c["seed"] + 7919 * k)
        tree = gen_tree10(rng, **c["opts"])
        if used_counters(tree):
            break
        k += 1
    if c["cusage"] == 1:
        pack_counters(tree)
    env = choose_counts(tree, rng)
    total, counters, paths = layout(tree, env)
    paths = with_redefines(tree, paths)
    cap = c.get("cap", 30)
    if len(paths) > cap:
        keep = set(rng.sample(range(len(paths)), cap))
        chosen = {tuple(map(tuple, p)) for i, p in enumerate(paths) if i in keep}
        # always requested: every counter itself, and the items of the record's first level (fields before and after the tables)
        chosen |= {tuple(map(tuple, cp)) for _cid, cp, _st, _sz in counters}
        chosen |= {tuple(map(tuple, p)) for p in paths if len(p) == 1}
        paths = [p for p in paths if tuple(map(tuple, p)) in chosen]
    record = make_record10(tree, env, total, rng, c["corrupt"])
    used = used_counters(tree)
    victims = [x for x in counters if x[0] in used]
    rng.shuffle(victims)
    for _cid, _p, st, sz in victims[:c["nbad"]]:
        if c["cusage"] == 1:
            j = rng.randrange(2 * sz - 1)                      # a digit nibble, never the sign nibble
            b, bad = record[st + j // 2], rng.randrange(10, 16)
            record[st + j // 2] = (bad << 4 | (b & 0x0F)) if j % 2 == 0 else ((b & 0xF0) | bad)
        else:
            record[st + rng.randrange(sz)] = rng.choice([0x0, 0x4, 0x7, 0xC, 0xD, 0xF]) << 4 | rng.randrange(10, 16)
    return tree, env, counters, paths, record


def build_case(c):
    import random
    if c.get("bad"):
        return build_case_bad(c)
    rng = random.Random(c["seed"])
    tree = gen_tree10(rng, **c["opts"])
    env = choose_counts(tree, rng)
    total, counters, paths = layout(tree, env)
    paths = with_redefines(tree, paths)
    cap = c.get("cap", 45)
    if len(paths) > cap:
        keep = set(rng.sample(range(len(paths)), cap))
        chosen = {tuple(map(tuple, p)) for i, p in enumerate(paths) if i in keep}
        allp = {tuple(map(tuple, p)) for p in paths}
        for p in list(chosen):
            for j in range(len(p)):
                chosen.add(p[:j])
                # keep a second occurrence of every table that is entered, so that two element navigators of one
                # held table navigator exist side by side
                if p[j][0] == 1:
                    for other in (0, 1):
                        sib = p[:j] + ((1, other),)
                        if other != p[j][1] and sib in allp:
                            chosen.add(sib)
                            break
        paths = [p for p in paths if tuple(map(tuple, p)) in chosen]
    record = make_record10(tree, env, total, rng, c["corrupt"])
    if c.get("truncate"):
        # a record that ends early (a short last record, a truncated variable-length record): every counter stays inside
        keep_min = max([st + sz for _cid, _p, st, sz in counters] + [1])
        if total > keep_min:
            record = record[:rng.randint(keep_min, total - 1)]
    return tree, env, counters, paths, record


def inputs(ctx):
    rng = ctx.rng
    n = 220 if ctx.tier == "quick" else 2000
    for i in range(n):
        yield "clean", dict(seed=rng.randrange(1 << 30), corrupt=i % 4, neg=False, opts=dict(max_kids=4) if i % 3 else {})
    for i in range(120 if ctx.tier == "quick" else 1200):
        yield "truncated", dict(seed=rng.randrange(1 << 30), corrupt=i % 2, neg=False, truncate=True,
                                opts=dict(max_kids=4) if i % 3 else {})
    m = 25 if ctx.tier == "quick" else 200
    for i in range(m):
        yield "odo-in-table", dict(seed=rng.randrange(1 << 30), corrupt=i % 2, neg=False, opts=dict(odo_in_table=True, allow_redef=False))
        yield "negative-index", dict(seed=rng.randrange(1 << 30), corrupt=0, neg=True, opts=dict(allow_odo=False))
    yield "bad-counter", dict(seed=0, corrupt=0, neg=False, bad=True, witness=True, cusage=0, nbad=1, opts={})
    for i in range(60 if ctx.tier == "quick" else 600):
        yield "bad-counter", dict(seed=rng.randrange(1 << 30), corrupt=i % 2, neg=False, bad=True, cusage=(i // 2) % 2,
                                  nbad=(0, 1, 1, 2, 1)[i % 5], opts=dict(max_kids=4, allow_redef=bool(i % 3)))


# ---------------------------------------------------------------- observation


def canon_pv(v, rev):
    if isinstance(v, dict):
        return [2, [[key_of(k, rev), canon_pv(x, rev)] for k, x in v.items()]]
    if isinstance(v, list):
        return [1, [canon_pv(x, rev) for x in v]]
    return [0, canon(v)]


class _WB:
    def __init__(self, unpacker):
        self.unpacker = unpacker


def observe_bad(ctx, c):
    """stream bad-counter: every observation is a complete read made from scratch - unpacker.nav(schema, instance), the
    path, then start / end / raw() / value() - so that 'what nav creation did' and 'what each field read did' are both
    what really happened, whether or not a navigator can be built"""
    import io
    from lib import exn_code, observe_call
    from stingray.cobol_parser import schema_iter
    from stingray.schema_instance import SchemaMaker, EBCDIC, BytesInstance
    from stingray.workbook import Sheet, Row
    tree, env, counters, paths, record = build_case(c)
    names = assign_names(tree)
    rev = {v: k for k, v in names.items()}
    unp = shared_unpacker(False)
    js = list(schema_iter(io.StringIO(print_copybook(tree))))[0]
    schema_obs = [0, schema_sx(js, rev, EBCDIC())]
    schema = SchemaMaker.from_json(js)
    log = []

    class LogInstance(BytesInstance):
        def __getitem__(self, key):
            if isinstance(key, slice):
                log.append((key.start, key.stop))
            return super().__getitem__(key)

    def guarded(f):
        try:
            return f()
        except BaseException as ex:
            if isinstance(ex, (KeyboardInterrupt, SystemExit, MemoryError)):
                raise
            return [1, exn_code(ex)]

    top_obs = guarded(lambda: [0, unp.nav(schema, LogInstance(bytes(record))).location.end])

    def read(p):
        nav = unp.nav(schema, LogInstance(bytes(record)))
        for kind, x in p:
            nav = nav.index(x) if kind == 1 else nav.name(names[x] if kind == 0 else "REDEFINES-" + names[x])
        start, end, raw = nav.location.start, nav.location.end, list(nav.raw())
        del log[:]
        val = observe_call(nav.value, lambda v: canon_pv(v, rev))
        return [0, start, end, raw, val, [list(ab) for ab in sorted(set(log))]]

    path_obs = [[p, guarded(lambda: read(p))] for p in paths]
    tops = []
    for name in schema.properties:
        k = key_of(name, rev)
        tops.append([[2 if k[0] == 1 else 0, k[1]],
                     observe_call(lambda: unp.nav(schema, LogInstance(bytes(record))).name(name).value(), lambda v: canon_pv(v, rev))])
    wb = _WB(unp)                 # held: a Sheet only keeps a weak reference to its workbook
    sheet = Sheet(wb, "").set_schema(schema)
    rowvals = observe_call(lambda: Row(sheet, LogInstance(bytes(record))).values(), lambda vs: [canon_pv(v, rev) for v in vs])
    return [tree_sx(tree), record, [[k, v] for k, v in sorted(env.items())], [[cid, p] for cid, p, _, _ in counters], atoms_sx(tree),
            schema_obs, top_obs, path_obs, [tops, rowvals], [], total_extent(tree, env) - len(record), [1, c["cusage"]]]


def observe(ctx, c):
    from lib import exn_code, observe_call
    if c.get("bad"):
        return observe_bad(ctx, c)
    tree, env, counters, paths, record = build_case(c)
    schema_obs, top_obs, _lrecl, _p, extras = observe_layout(tree, record, [], False)
    head = [tree_sx(tree), record, [[k, v] for k, v in sorted(env.items())], [[cid, p] for cid, p, _, _ in counters], atoms_sx(tree),
            schema_obs, top_obs]
    if extras is None:
        return head + [[[p, [1, schema_obs[1] if schema_obs[0] == 1 else top_obs[1]]] for p in paths], [[], top_obs], [],
                       total_extent(tree, env) - len(record)]
    from stingray.schema_instance import BytesInstance
    from stingray.workbook import Sheet, Row
    names, unp, schema = extras["names"], extras["unpacker"], extras["schema"]
    rev = {v: k for k, v in names.items()}
    log = []

    class LogInstance(BytesInstance):
        def __getitem__(self, key):
            if isinstance(key, slice):
                log.append((key.start, key.stop))
            return super().__getitem__(key)

    inst = LogInstance(bytes(record))
    nav0 = unp.nav(schema, inst)

    # Navigators are created breadth-first from SHARED parent navigators and ALL of them are kept alive; nothing is
    # read until every navigator exists.  So every index() of a table is taken from one held table navigator before
    # any occurrence is looked into (the way an application loops over a table, or compares two occurrences), and a
    # navigator obtained earlier must still report its own occurrence after its siblings have been visited.
    navs, errs = {(): nav0}, {}

    def step(par, kind, x):
        return par.index(x) if kind == 1 else par.name(names[x] if kind == 0 else "REDEFINES-" + names[x])

    wanted = list(paths)
    if c["neg"]:
        wanted = [p[:-1] for p in paths if p and p[-1][0] == 1]
    for p in sorted(wanted, key=len):
        tp = tuple(map(tuple, p))
        for j in range(1, len(tp) + 1):
            pre = tp[:j]
            if pre in navs or pre in errs:
                continue
            if pre[:-1] in errs:
                errs[pre] = errs[pre[:-1]]
                continue
            try:
                navs[pre] = step(navs[pre[:-1]], *pre[-1])
            except BaseException as ex:
                if isinstance(ex, (KeyboardInterrupt, SystemExit, MemoryError)):
                    raise
                errs[pre] = exn_code(ex)

    def go(p):
        return navs[tuple(map(tuple, p))]

    def guarded(f):
        try:
            return f()
        except BaseException as ex:
            if isinstance(ex, (KeyboardInterrupt, SystemExit, MemoryError)):
                raise
            return [1, exn_code(ex)]

    def one(p):
        tp = tuple(map(tuple, p))
        if tp in errs:
            return [1, errs[tp]]
        nav = navs[tp]
        start, end, raw = nav.location.start, nav.location.end, list(nav.raw())
        del log[:]
        val = observe_call(nav.value, lambda v: canon_pv(v, rev))
        return [0, start, end, raw, val, [list(ab) for ab in sorted(set(log))]]

    path_obs = [] if c["neg"] else [[p, guarded(lambda: one(p))] for p in paths]
    tops = []
    for name in schema.properties:
        k = key_of(name, rev)
        tops.append([[2 if k[0] == 1 else 0, k[1]], observe_call(lambda: nav0.name(name).value(), lambda v: canon_pv(v, rev))])
    wb = _WB(unp)
    sheet = Sheet(wb, "").set_schema(schema)
    rowvals = observe_call(lambda: Row(sheet, LogInstance(bytes(record))).values(), lambda vs: [canon_pv(v, rev) for v in vs])
    negs = []
    if c["neg"]:
        tables = []
        for p in paths:
            if p and p[-1][0] == 1 and p[:-1] not in tables:
                tables.append(p[:-1])

        def neg(p, z):
            tp = tuple(map(tuple, p))
            if tp in errs:
                return [1, errs[tp]]
            nav = navs[tp].index(z)
            return [0, nav.location.start, nav.location.end]
        # every table is asked for a negative index: -1, and one drawn from the case's own seed (around minus the number
        # of occurrences, where a wrap-around implementation would find a valid occurrence, or far below)
        import random
        nrng = random.Random(c["seed"] ^ 0x5EED)
        negs = []
        for p in tables:
            for z in (-1, -nrng.choice([2, 3, 4, 5, 9, 10, 100, 32768])):
                negs.append([p, guarded(lambda: neg(p, z)), z])
    return head + [path_obs, [tops, rowvals], negs, total_extent(tree, env) - len(record)]


def total_extent(tree, env):
    return layout(tree, env)[0]


def describe(c):
    tree, env, counters, paths, record = build_case(c)
    return dict(c, copybook=print_copybook(tree), counts=env, record_hex=bytes(record).hex(), paths=len(paths))
