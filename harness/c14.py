"""C14 - workbooks are opened by suffix and always release their file.

The runner only performs the actions named by the input and serialises what it saw: descriptor
counts from /proc/self/fd, exception classes, type names, file_object.closed.  Every decision
(what the counts should be, which class a suffix should give) is taken by the Coq judge.
"""
import atexit
import csv
import gc
import itertools
import json
import os
import shutil
import sys
import tempfile
import warnings

import translate  # noqa: F401  (must be loaded before its plug-in t1_c14)
from lib import S, exn_code
from t1_c14 import CLASS_IDS

GEN = ["RegistryParams"]
RULE = ("lifecycle grid, exhaustive: 8 classes x raise points {before the first sheet, after sheet_iter, after row_iter is created, "
        "in the header phase (loader.header raises), after row k for every k, after exhaustion, no raise} x {path, caller's file object} "
        "+ explicit close() at every position of the full read sequence; the classes that open the file themselves (CSV, NDJSON, COBOL text, EBCDIC) also on the same content "
        "under nine other file NAMES (compressed-file, backup, upper-case endings, no ending); random well-formed bodies with closes and raises; "
        "registry histories (registrations and opens INTERLEAVED, every open observed in order) on a fresh WBFileRegistry: every sequence of "
        "<=4 (quick) / <=5 (thorough) operations over {register .a->1, .a->2, .b->1, open f.a, open f.b} + random multi-suffix histories; "
        "on the global registry: histories with a throw-away suffix and override/restore of a registered suffix, plus every registered suffix "
        "and a list of unknown/odd names; WHOLE PATHS handed to Path() as one string (Props/C14c.v): every string of <=5 (quick) / <=7 (thorough) "
        "characters over {a, A, dot, slash} on a fresh registry holding .a, .aa and .A, random paths built from leading slashes / dot and dot-dot "
        "components / directories with dots / stems with dots, leading dots, trailing dots / registered suffixes in both letter cases, doubled, "
        "with a trailing dot or a further suffix / trailing slashes and dot components, on fresh registries (runner-made classes, no file touched) "
        "and on the global registry (real files laid out below a scratch directory); name, suffix, class or exception and the constructors run are "
        "compared with the model. Every case is non-trivial (branch = kind/class/outcome); "
        "distinct = distinct case lines.")
TRIVIAL_BRANCHES = [0]
ASSUMPTIONS = [
    "PARTIAL: which classes hold a descriptor after open (CSV/NDJSON/COBOL text/EBCDIC: until close; XLS/XLSX/ODS: never; Numbers: until a "
    "garbage collection) is a table in coq/Model/Lifecycle.v, tied to the running code by the exhaustive grid of this run, not proved",
    "iterating sheets and rows neither opens nor closes a descriptor on the workbook's path (checked after every step of every trace)",
    "descriptors are observed through /proc/self/fd (entries whose link target is the workbook's path or lies below it); the cycle collector "
    "is disabled between the constructor and the measurement after the with-block, and run explicitly before the last measurement",
    "pathlib.PurePath.suffix (Python 3.12 rule) is modelled by hand for single path components and compared with pathlib in every registry case; "
    "the theorems of Props/C14.v are stated over the suffix string",
    "how Path(p) for ONE string p on a POSIX system yields name and suffix (pieces between slashes, empty and single-dot pieces dropped, dot-dot "
    "kept, last dot of the name unless first or last character) is modelled in coq/Model/RegistryPath.v, proved about in Props/C14c.v and compared "
    "with pathlib on every path of the path streams; paths joined from several arguments, Windows paths and str subclasses are not modelled",
    "XLS is exercised on the sample file sample/excel97_workbook.xls only (xlwt is not installed); a raise in the header phase does not exist "
    "for COBOL_EBCDIC_File (its row_iter uses no loader)",
    "constructor failures (missing or corrupt file) are outside the property and the model; so is openpyxl's refusal of a valid workbook whose "
    "name is dots only before .xlsx (..xlsx): the registry selects XLSX_Workbook for it, the third-party reader rejects the NAME - the path "
    "stream on the global registry leaves such names out (candidate finding reported to the integrator)",
]
TRUSTED = ["sys.addaudithook 'open' events as the observation of 'opens nothing' for refused suffixes"]

NROWS = {1: 5, 2: 5, 3: 2, 4: 5, 5: 5, 6: 5, 7: 5, 8: 5}    # data rows readable from the first sheet of each file
ACCEPTS_FILE = (1, 2, 7, 8)
CODE_NAMES = {1: "sheet_iter", 2: "row_iter", 3: "next", 4: "drain", 5: "raise", 6: "close", 7: "next(header raises)"}
ID_NAMES = {v: k for k, v in CLASS_IDS.items()}

_ST = {}
_AUDIT = {"target": None, "n": 0, "installed": False}


class Boom(Exception):
    pass


def _hook(event, args):
    if event == "open" and _AUDIT["target"] is not None:
        try:
            if os.fspath(args[0]) == _AUDIT["target"]:
                _AUDIT["n"] += 1
        except TypeError:
            pass


def _fds(path):
    n = 0
    for e in os.listdir("/proc/self/fd"):
        try:
            t = os.readlink("/proc/self/fd/" + e)
        except OSError:
            continue
        if t == path or t.startswith(path + "/"):
            n += 1
    return n


ROWS = [["alpha", "beta"]] + [[i, i * i] for i in range(1, 6)]


def _setup(ctx):
    if _ST:
        return _ST
    warnings.simplefilter("ignore")
    from pathlib import Path
    import stingray.workbook as W
    import stingray.implementations as I
    from stingray.schema_instance import SchemaMaker

    td = tempfile.TemporaryDirectory(prefix="c14_")
    atexit.register(td.cleanup)
    root = Path(os.path.realpath(td.name))
    paths = {}
    p = root / "wb.csv"
    with p.open("w", newline="") as f:
        csv.writer(f).writerows(ROWS)
    paths[1] = p
    p = root / "wb.json"
    p.write_text("".join(json.dumps({"alpha": r[0], "beta": r[1]}) + "\n" for r in ROWS[1:]))
    paths[2] = p
    p = root / "wb.xls"
    shutil.copy(os.path.join(ctx.repo, "sample", "excel97_workbook.xls"), p)
    paths[3] = p
    import openpyxl
    book = openpyxl.Workbook()
    for r in ROWS:
        book.active.append(r)
    p = root / "wb.xlsx"
    book.save(p)
    book.close()
    paths[4] = p
    import pyexcel_ods3
    p = root / "wb.ods"
    pyexcel_ods3.save_data(str(p), {"Sheet1": ROWS})
    paths[5] = p
    import numbers_parser
    doc = numbers_parser.Document(num_rows=len(ROWS), num_cols=2)
    table = doc.sheets[0].tables[0]
    for i, r in enumerate(ROWS):
        for j, v in enumerate(r):
            table.write(i, j, v)
    p = root / "wb.numbers"
    doc.save(p)
    del doc, table
    paths[6] = p
    p = root / "wb.txt"
    p.write_text("".join(f"AB{i:03d}\n" for i in range(5)))
    paths[7] = p
    p = root / "wb.ebc"
    p.write_bytes(b"".join(f"AB{i:03d}".encode("cp037") for i in range(5)))
    paths[8] = p
    cobol = lambda extra: {"title": "R", "$anchor": "R", "cobol": "01 R", "type": "object", "properties": {
        "W": dict({"type": "string", "$anchor": "W", "cobol": "05 W PIC XX", "minLength": 2, "maxLength": 2}, **extra),
        "N": dict({"type": "string", "$anchor": "N", "cobol": "05 N PIC 999", "minLength": 3, "maxLength": 3}, **extra)}}
    schemas = {
        2: SchemaMaker.from_json({"type": "object", "properties": {"alpha": {"type": "number", "$anchor": "alpha"},
                                                                      "beta": {"type": "number", "$anchor": "beta"}}}),
        7: SchemaMaker.from_json(cobol({})),
        8: SchemaMaker.from_json(cobol({"contentEncoding": "cp037"})),
    }

    class RaisingLoader(W.SchemaLoader):
        def header(self, source):
            next(source)
            raise Boom()

    # the same content under other NAMES, for the classes that open the file themselves (the name must not matter to a class that
    # is constructed directly: compressed-file, backup and upper-case endings, no ending at all)
    alts = {}
    for cid in ALT_CLASSES:
        alts[cid] = {}
        for k, nm in enumerate(ALT_NAMES, 1):
            q = root / f"alt{cid}" / nm
            q.parent.mkdir(exist_ok=True)
            shutil.copy(paths[cid], q)
            alts[cid][k] = q
    classes = {}
    for name, cid in CLASS_IDS.items():
        classes[cid] = getattr(W, name, None) or getattr(I, name)
    # An application's own workbook over the native-bytes unpacker (no class of the library uses Struct): it sets the unpacker up
    # and INHERITS Workbook.close().  It manages its file exactly as the library's COBOL text / EBCDIC workbooks do (opened by the
    # constructor, or the caller's file object taken over; released by close), so it is run as class 8's twin.
    from stingray.schema_instance import Struct

    class NativeBytesFile(W.Workbook):
        def __init__(self, name, file_object=None, **kwargs):
            super().__init__(name, lrecl=5)
            self.unpacker = Struct()
            self.unpacker.open(self.name, file_object)
    classes["struct"] = NativeBytesFile
    # files for the global registry: content chosen by the end of the name only
    reg = root / "reg"
    reg.mkdir()
    gc.collect()
    if not _AUDIT["installed"]:
        sys.addaudithook(_hook)
        _AUDIT["installed"] = True
    _ST.update(td=td, root=root, paths=paths, schemas=schemas, classes=classes, RaisingLoader=RaisingLoader,
               HeadingRowSchemaLoader=W.HeadingRowSchemaLoader, W=W, Path=Path, reg=reg, alts=alts)
    return _ST


ALT_CLASSES = (1, 2, 7, 8)
ALT_NAMES = ["data.gz", "data.ebc.gz", "data.bz2", "data.zip", "data.xz", "DATA.DAT", "data", "data.bak~", "data.csv.Z"]
CONTENT = [(".json", 2), (".ndjson", 2), (".jsonnl", 2), (".xlsx", 4), (".xls", 3), (".ods", 5), (".numbers", 6)]


def _reg_file(st, name):
    p = st["reg"] / name
    if not p.exists():
        src = st["paths"][1]
        for ext, cid in CONTENT:
            if name.endswith(ext):
                src = st["paths"][cid]
                break
        shutil.copy(src, p)
    return p


# ------------------------------------------------------------------ inputs

def _grid():
    for cid in range(1, 9):
        n = NROWS[cid]
        bodies = [[], [5], [1], [1, 5], [1, 2], [1, 2, 5]]
        if cid != 8:
            bodies.append([1, 2, 7])
        for k in range(1, n + 1):
            bodies.append([1, 2] + [3] * k + [5])
            bodies.append([1, 2] + [3] * k)
        bodies += [[1, 2, 4], [1, 2, 4, 5], [1, 2] + [3] * n + [4], [1, 2] + [3] * n + [4, 5]]
        # an explicit close() at every position of the full read sequence, with and without a raise at the end
        full = [1, 2] + [3] * n + [4]
        for i in range(len(full) + 1):
            bodies.append(full[:i] + [6])
            bodies.append(full[:i] + [6, 5])
            bodies.append(full[:i] + [6] + full[i:i + 1])
        bodies += [[6, 6], [1, 2, 3, 6, 6, 5]]
        for b in bodies:
            yield {"kind": 1, "cls": cid, "mode": 0, "body": b}
        # the caller's file object: everywhere the constructor takes one; elsewhere the constructor refuses it (two cases)
        for b in (bodies if cid in ACCEPTS_FILE else [[], [1, 2, 3, 5]]):
            yield {"kind": 1, "cls": cid, "mode": 1, "body": b}


def _random_body(rng, cid):
    n = NROWS[cid]
    body = [1, 2] + [3] * rng.randint(0, n) + ([4] if rng.random() < 0.4 else [])
    body = body[:rng.randint(0, len(body))]
    for _ in range(rng.choice([0, 1, 1, 2])):
        body.insert(rng.randint(0, len(body)), 6)
    if rng.random() < 0.6:
        body = body[:rng.randint(0, len(body))] + [5]
    return body


SUFFIX_POOL = [".a", ".b", ".csv", ".A", "", ".x.y", ".tar.gz", "a", "."]
LOOKUP_EXTRA = ["noext", ".a", "x.", "a.b.a", "x.A", "f.gz", "f.tar.gz", "f..a", "..a", "f.x.y", "f.é"]


# ---- whole paths (wire kinds 5 and 6) ----
P_LEAD = ["", "", "", "/", "//", "///", "./", "../", "/./", "./../"]
P_DIRS = ["d", "dir.d", "v1.2", ".git", "..", ".", "", "A.CSV", "x.csv", "a b", "tar.gz", "d.", "..d"]
P_STEM = ["report", "r", "a.b", "archive.tar", ".hidden", "", ".", "..", "x..", "R", "r\u00e9", "a b", "...", ".a.b"]
P_TRAIL = ["", "", "", "/", "//", "/.", "/./", "/./.", "//.//", "/..", "/../", "/../."]
P_SUFFIXES = [".csv", ".CSV", ".gz", ".tar.gz", ".json", ".Json", "", ".", "csv", ".\u00e9", ".x", ".a b", ".x/y"]
G_SUFFIXES = [".csv", ".json", ".ndjson", ".jsonnl", ".xlsx", ".ods", ".xls", ".tab", ".txt"]


def _ext_variants(rng, s):
    """spellings around a suffix: itself, other letter case, doubled dot, trailing dot, a further suffix, none"""
    return rng.choice([s, s, s, s.upper(), s.title(), s.swapcase(), "." + s, s + ".", s + ".bak", s + s, s + "/", "", ".",
                       s[1:], s + " ", s[:1] + " " + s[1:]])


def _gen_path(rng, suffixes, rooted_ok=True):
    lead = rng.choice(P_LEAD) if rooted_ok else rng.choice(["", "", "./", "././"])
    dirs = [rng.choice(P_DIRS) for _ in range(rng.choice([0, 0, 1, 1, 2, 3]))]
    if rng.random() < 0.35:         # the suffix as registered behind an ordinary stem: mostly opened
        name = rng.choice(["report", "r", "a.b", "archive.tar", "R", "a b", "x.."]) + rng.choice(suffixes)
        trail = rng.choice(["", "", "/", "/.", "//./"])
    else:
        name = rng.choice(P_STEM) + _ext_variants(rng, rng.choice(suffixes))
        trail = rng.choice(P_TRAIL)
    return lead + "/".join(dirs + [name]) + trail


def _inside(rel):
    """a relative path that never climbs above its starting directory and names something in it (a fixture can be laid out for it)"""
    depth, named = 0, False
    for x in rel.split("/"):
        if x in ("", "."):
            continue
        if x == "..":
            depth -= 1
            if depth < 0:
                return False
        else:
            depth += 1
            named = True
    return named and not rel.startswith("/")


def _dots_then_xlsx(rel):
    """Trigger of a candidate finding kept out of the clean stream: a final name made of dots only before '.xlsx' ('..xlsx',
    '...xlsx').  pathlib gives such a name the suffix '.xlsx', the registry picks XLSX_Workbook, and openpyxl's own check of
    os.path.splitext (which ignores leading dots and so sees no extension) raises InvalidFileException on a valid workbook."""
    pieces = [x for x in rel.split("/") if x not in ("", ".")]
    return bool(pieces) and pieces[-1].endswith(".xlsx") and set(pieces[-1][:-5]) <= {"."}


def _path_inputs(ctx):
    rng = ctx.rng
    n = 5 if ctx.tier == "quick" else 7
    ctx.exhaustive.append(f"paths_len<={n}_over_a_A_dot_slash_on_a_registry_with_.a_.aa_.A")
    regs = [["r", [".a"], 1], ["r", [".aa"], 2], ["r", [".A"], 3]]
    for k in range(n + 1):
        for chars in itertools.product("aA./", repeat=k):
            yield "path_exhaustive", {"kind": 5, "ops": regs + [["o", "".join(chars)]]}
    for _ in range(700 if ctx.tier == "quick" else 12000):
        pool = rng.sample(P_SUFFIXES, rng.randint(1, 4))
        ops = []
        for _ in range(rng.randint(1, 4)):
            ops.append(["r", [rng.choice(pool) for _ in range(rng.choice([1, 1, 2, 3]))], rng.randint(1, 6)])
        good = [x for x in pool if x] or [".csv"]
        ops.append(["o", _gen_path(rng, good)])
        if rng.random() < 0.3:      # a registration after an open, then the same path again
            ops.append(["r", [rng.choice(pool)], rng.randint(1, 6)])
            ops.append(["o", ops[-2][1]])
        yield "path_fresh", {"kind": 5, "ops": ops}
    count, done, tries = (70 if ctx.tier == "quick" else 700), 0, 0
    while done < count and tries < 50 * count:
        tries += 1
        rel = _gen_path(rng, G_SUFFIXES, rooted_ok=False)
        if not _inside(rel) or "\u00e9" in rel or _dots_then_xlsx(rel):
            continue
        done += 1
        yield "path_global", {"kind": 6, "ops": [["o", rel]]}


def inputs(ctx):
    rng = ctx.rng
    ctx.exhaustive.append("lifecycle_grid_8_classes_x_raise_points_x_close_positions_x_2_modes")
    for inp in _grid():
        yield "grid", inp
    ctx.exhaustive.append("lifecycle_other_file_names_4_classes_x_9_names_x_7_bodies_x_2_modes")
    for cid in ALT_CLASSES:
        n = NROWS[cid]
        for alt in range(1, len(ALT_NAMES) + 1):
            for body in ([], [1, 2, 3], [1, 2, 3, 5], [1, 2, 4], [1, 2, 3, 6], [1, 2] + [3] * n + [4, 5], [1, 2, 3, 3, 6, 6, 5]):
                for mode in (0, 1):
                    yield "other_names", {"kind": 1, "cls": cid, "mode": mode, "body": body, "alt": alt}
    # an application-made workbook over the Struct unpacker that inherits Workbook.close(): the whole grid of class 8
    ctx.exhaustive.append("lifecycle_grid_of_a_Struct_backed_workbook_inheriting_close")
    for inp in _grid():
        if inp["cls"] == 8:
            yield "struct_workbook", dict(inp, variant="struct")
    count = 100 if ctx.tier == "quick" else 4000
    for _ in range(count):
        cid = rng.randint(1, 8)
        mode = rng.choice([0, 0, 1]) if cid in ACCEPTS_FILE else rng.choice([0, 0, 0, 0, 1])
        yield "random_body", {"kind": 1, "cls": cid, "mode": mode, "body": _random_body(rng, cid)}
    # histories on a fresh registry: registrations and opens interleaved
    maxlen = 4 if ctx.tier == "quick" else 5
    ctx.exhaustive.append(f"registry_histories_len<={maxlen}_over_3_registrations_and_2_opens")
    alphabet = [["r", [".a"], 1], ["r", [".a"], 2], ["r", [".b"], 1], ["o", "f.a"], ["o", "f.b"]]
    for n in range(maxlen + 1):
        for seq in itertools.product(alphabet, repeat=n):
            yield "history_exhaustive", {"kind": 2, "ops": [list(o) for o in seq]}
    count = 400 if ctx.tier == "quick" else 8000
    for _ in range(count):
        pool = rng.sample(SUFFIX_POOL, rng.randint(1, 4))
        names = ["f" + s for s in pool] + rng.sample(LOOKUP_EXTRA, 2)
        ops = []
        for _ in range(rng.randint(1, 14)):
            if rng.random() < 0.5:
                ops.append(["r", [rng.choice(pool) for _ in range(rng.choice([0, 1, 1, 1, 2, 3]))], rng.randint(1, 6)])
            else:
                ops.append(["o", rng.choice(names)])
        yield "history_random", {"kind": 2, "ops": ops}
    # histories on the global registry: a throw-away suffix, and a registered suffix overridden and restored
    # (class ids 11.. are runner-made classes; every history ends in the state it started from)
    for suf, real, cid in [(".csv", "g.csv", 1), (".json", "g.json", 2), (".ndjson", "g.ndjson", 2), (".xlsx", "g.xlsx", 4)]:
        yield "global_history", {"kind": 4, "ops": [["o", real], ["r", [suf], 11], ["o", real], ["r", [suf], 12], ["o", real],
                                                     ["r", [suf], cid], ["o", real]], "drop": []}
    for i in range(6 if ctx.tier == "quick" else 60):
        suf = rng.choice([".zzq", ".c14tmp", ".Zq"])
        name = "g" + suf
        ops = [["o", name]]
        for _ in range(rng.randint(2, 8)):
            ops.append(["r", [suf] + ([".zzq2"] if rng.random() < 0.3 else []), rng.randint(11, 14)] if rng.random() < 0.5
                       else ["o", rng.choice([name, name, "g.zzq2", "g.csv"])])
        ops.append(["o", name])
        yield "global_history", {"kind": 4, "ops": ops, "drop": [".zzq", ".c14tmp", ".Zq", ".zzq2"]}
    # the global registry
    names = ["g.csv", "g.json", "g.ndjson", "g.jsonnl", "g.xls", "g.xlsx", "g.ods", "g.numbers",
             "g.tab", "g.txt", "g", "g.", ".csv", "g.CSV", "g.csv.bak", "a.b.csv", "g.xlsx.csv", "g.Json", "g.xlsm",
             "g.data", "..csv", "g.cs", "g.csvv", "g csv", "g.xls.", ".numbers", "g.ods.json"]
    try:
        from stingray.workbook import file_registry
        import stingray.implementations  # noqa: F401
        for suf in file_registry.suffix_map:
            if isinstance(suf, str) and "/" not in suf and "\0" not in suf and ("g" + suf) not in names and len(suf) < 40:
                names.append("g" + suf)
    except Exception:
        pass
    for nm in names:
        yield "global", {"kind": 3, "name": nm}
    yield from _path_inputs(ctx)


# ------------------------------------------------------------------ observation

def _do(st, code, cid, wb, env):
    if code == 1:
        env["sheets"] = wb.sheet_iter()
        env["sheet"] = next(env["sheets"])
    elif code == 2:
        sheet = env["sheet"]
        if cid in st["schemas"]:
            sheet.set_schema(st["schemas"][cid])
        else:
            sheet.set_schema_loader(st["HeadingRowSchemaLoader"]())
        env["rows"] = sheet.row_iter()
    elif code == 3:
        next(env["rows"])
    elif code == 4:
        for _ in env["rows"]:
            pass
    elif code == 5:
        raise Boom()
    elif code == 6:
        wb.close()
    elif code == 7:
        env["sheet"].set_schema_loader(st["RaisingLoader"]())
        next(env["rows"])
    else:
        raise RuntimeError(f"unknown body code {code}")


def _lifecycle(st, inp):
    cid, mode, body = inp["cls"], inp["mode"], list(inp["body"])
    path = st["alts"][cid][inp["alt"]] if inp.get("alt") else st["paths"][cid]
    cls = st["classes"]["struct"] if inp.get("variant") == "struct" else st["classes"][cid]
    p = str(path)
    fobj = None
    was = gc.isenabled()          # every case ends with gc.collect(), so the baseline is clean here
    gc.disable()
    try:
        if mode == 1:
            fobj = path.open("rb") if cid == 8 else path.open("r", newline="")
        a = _fds(p)
        counts, escaped, cres, wb, env = [], 0, 0, None, {}
        try:
            try:
                wb = cls(path, fobj) if mode == 1 else cls(path)
            except BaseException as ex:
                cres = exn_code(ex)
                raise
            with wb:
                counts.append(_fds(p))
                for code in body:
                    _do(st, code, cid, wb, env)
                    counts.append(_fds(p))
        except (KeyboardInterrupt, SystemExit, MemoryError):
            raise
        except BaseException as ex:
            escaped = exn_code(ex)
        c = _fds(p)
        closed = 2 if fobj is None else int(bool(fobj.closed))
        sc = 0
        if wb is not None:
            try:
                wb.close()
            except (KeyboardInterrupt, SystemExit, MemoryError):
                raise
            except BaseException as ex:
                sc = exn_code(ex)
        c2 = _fds(p)
        env.clear()
        wb = None
        gc.collect()
        d = _fds(p)
    finally:
        if was:
            gc.enable()
        if fobj is not None and not fobj.closed:
            fobj.close()
    return [1, cid, mode, body, [a, cres, counts, escaped, c, closed, sc, c2, d]]


def _history(st, inp):
    """Registrations and opens in the order given, on a fresh WBFileRegistry (kind 2) or on the global one (kind 4)."""
    on_global = inp["kind"] == 4
    reg = st["W"].file_registry if on_global else st["W"].WBFileRegistry()
    log, classes = [], {}

    def mk(cid):
        if on_global and cid in ID_NAMES:
            return st["classes"][cid]          # restoring a real class

        class K:
            def __init__(self, source, *a, **kw):
                log.append(cid)
        K.cid = cid
        return K

    out = []
    try:
        for op in inp["ops"]:
            if op[0] == "r":
                _, suffixes, cid = op
                if cid not in classes:
                    classes[cid] = mk(cid)
                reg.file_suffix(*suffixes)(classes[cid])
                out.append([0, [S(s) for s in suffixes], cid])
            else:
                name = op[1]
                p = _reg_file(st, name) if on_global else st["root"] / name
                del log[:]
                wb = None
                try:
                    wb = reg.open_workbook(p)
                    t = type(wb)
                    res = [0, getattr(t, "cid", None) or CLASS_IDS.get(t.__name__, 0)]
                except (KeyboardInterrupt, SystemExit, MemoryError):
                    raise
                except BaseException as ex:
                    res = [1, exn_code(ex)]
                ctor = list(log)
                if wb is not None and not hasattr(type(wb), "cid"):
                    ctor = [res[1]]            # a real workbook class: its constructor is what returned wb
                    try:
                        wb.close()
                    except Exception:
                        pass
                wb = None
                out.append([1, S(name), S(p.suffix), res, ctor])
    finally:
        if on_global:
            for suf in inp.get("drop", []):
                try:
                    reg.suffix_map.pop(suf, None)
                except Exception:
                    pass
            gc.collect()
    return [inp["kind"], out]


def _lay_out(st, rel):
    """fixture for a relative path: the directories it walks through and a workbook file where it ends; returns the directory it starts from"""
    st["trees"] = st.get("trees", 0) + 1
    base = st["reg"] / f"t{st['trees']}"
    base.mkdir()
    pieces = [x for x in rel.split("/") if x not in ("", ".")]
    cur = base
    for i, x in enumerate(pieces):
        if x == "..":
            cur = cur.parent
        elif i == len(pieces) - 1:
            src = st["paths"][1]
            for ext, cid in CONTENT:
                if x.endswith(ext):
                    src = st["paths"][cid]
                    break
            if not (cur / x).exists():
                shutil.copy(src, cur / x)
        else:
            cur = cur / x
            cur.mkdir(exist_ok=True)
    return base


def _paths(st, inp):
    """Whole path strings: Path(p) for kind 5 (fresh registry, runner-made classes, nothing on disk),
    Path(scratch/p) on laid-out files for kind 6 (global registry)."""
    on_global = inp["kind"] == 6
    reg = st["W"].file_registry if on_global else st["W"].WBFileRegistry()
    log, classes = [], {}

    def mk(cid):
        class K:
            def __init__(self, source, *a, **kw):
                log.append(cid)
        K.cid = cid
        return K

    out = []
    for op in inp["ops"]:
        if op[0] == "r":
            if on_global:
                raise RuntimeError("path histories on the global registry hold opens only")
            _, suffixes, cid = op
            if cid not in classes:
                classes[cid] = mk(cid)
            reg.file_suffix(*suffixes)(classes[cid])
            out.append([0, [S(s) for s in suffixes], cid])
            continue
        text = op[1]
        p = st["Path"](str(_lay_out(st, text)) + "/" + text) if on_global else st["Path"](text)
        del log[:]
        wb = None
        try:
            wb = reg.open_workbook(p)
            t = type(wb)
            res = [0, getattr(t, "cid", None) or CLASS_IDS.get(t.__name__, 0)]
        except (KeyboardInterrupt, SystemExit, MemoryError):
            raise
        except BaseException as ex:
            res = [1, exn_code(ex)]
        ctor = list(log)
        if wb is not None and not hasattr(type(wb), "cid"):
            ctor = [res[1]]                # a real workbook class: its constructor is what returned wb
            try:
                wb.close()
            except Exception:
                pass
        wb = None
        out.append([1, S(text), S(p.suffix), res, ctor, S(p.name)])
    if on_global:
        gc.collect()
    return [inp["kind"], out]


def _global(st, inp):
    name = inp["name"]
    p = _reg_file(st, name)
    ps = str(p)
    wb = None
    _AUDIT["n"], _AUDIT["target"] = 0, ps
    try:
        try:
            wb = st["W"].open_workbook(p)
            res = [0, CLASS_IDS.get(type(wb).__name__, 0)]
        except (KeyboardInterrupt, SystemExit, MemoryError):
            raise
        except BaseException as ex:
            res = [1, exn_code(ex)]
    finally:
        _AUDIT["target"] = None
    opens = _AUDIT["n"]
    if wb is not None:
        try:
            wb.close()
        except Exception:
            pass
        wb = None
        gc.collect()
    fd_after = _fds(ps)
    return [3, S(name), S(p.suffix), res, opens, fd_after]


def observe(ctx, inp):
    st = _setup(ctx)
    kind = inp["kind"]
    if kind == 1:
        return _lifecycle(st, inp)
    if kind in (2, 4):
        return _history(st, inp)
    if kind in (5, 6):
        return _paths(st, inp)
    return _global(st, inp)


def describe(inp):
    if inp["kind"] == 1:
        return (("application workbook over Struct() inheriting Workbook.close(), run as the twin of: " if inp.get("variant") else "")
                + (f"file named {ALT_NAMES[inp['alt'] - 1]!r}: " if inp.get("alt") else "")
                + f"with {ID_NAMES.get(inp['cls'], inp['cls'])}({'path, file_object' if inp['mode'] else 'path'}) as wb: "
                + "; ".join(CODE_NAMES.get(c, str(c)) for c in inp["body"]))
    if inp["kind"] in (2, 4):
        return ("fresh WBFileRegistry: " if inp["kind"] == 2 else "global file_registry: ") + "; ".join(
            (f"file_suffix({', '.join(map(repr, o[1]))})(K{o[2]})" if o[0] == "r" else f"open_workbook({o[1]!r})") for o in inp["ops"])
    if inp["kind"] in (5, 6):
        return ("fresh WBFileRegistry: " if inp["kind"] == 5 else "global file_registry, below a scratch directory: ") + "; ".join(
            (f"file_suffix({', '.join(map(repr, o[1]))})(K{o[2]})" if o[0] == "r" else f"open_workbook(Path({o[1]!r}))") for o in inp["ops"])
    return f"open_workbook({inp['name']!r}) on the global registry"
