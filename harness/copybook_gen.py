"""Random COBOL copybooks: abstract forest -> reference-format text.

    forest = gen_forest(rng, **opts)          # list of root nodes (dicts)
    text   = print_copybook(forest, **spelling_opts)
    flat   = entries(forest)                   # the data description entries in source order

A node is a dict
    level      int (1..49, 66, 77, 88)
    name       str | None         None = unnamed; see filler
    filler     bool               True: the word FILLER is written, False: the name is omitted (only when name is None)
    pic        str | None         picture string, e.g. "S9(5)V99"
    usage      str | None         e.g. "COMP-3"
    occurs     int | None
    odo        (min|None, max, depending_on) | None
    indexed_by list[str]          INDEXED BY names (needs occurs/odo)
    redefines  str | None
    value      str | None         literal as written, e.g. "'AB'" or "ZERO"
    renames    (from, thru|None) | None   level 66
    extra      list[str]          further clause tokens written verbatim (SYNC, BLANK WHEN ZERO ...)
    children   list[node]         88-levels of an elementary item are its children with level 88
    is88       bool               level == 88 (set by node())

Nothing here looks at the code under test.  The clean defaults avoid every known parser trap:
names come from a pool without reserved-word prefixes (reserved words inside and at the end of a name are in it), code stays inside columns 8-71, every
entry ends in a period followed by a newline.
"""

STEMS = ["CUST", "ACCT", "ADDR", "NAME", "ZIP", "PHONE", "AMT", "BAL", "DATE", "YEAR", "MONTH", "DAY", "CODE",
         "TYPE", "FLAG", "ITEM", "QTY", "PRICE", "TOTAL", "REC", "TEXT", "LINE", "NUM", "STAT", "AREA",
         "WS", "TBL", "ENTRY", "ROW", "FLD", "A", "B1", "X9", "Q", "N-1", "KEY-FLD", "LAST", "1ST",
         # a USAGE word, PIC / PICTURE or USAGE / IS in the MIDDLE or at the END of a name (a number or another stem follows):
         # the decoder's second parse of the entry text (estruct.clause_pattern) must not take them for clauses.  Names that
         # START with such a word stay in KEYWORD_PREFIX_NAMES (the FIRST parse cuts them: finding C07-K3)
         "EMP-COMPANY", "WS-COMP", "TOT-BINARY", "USE-DISPLAY", "ELEM-PIC", "N-PACKED-DECIMAL", "OLD-COMPUTATIONAL", "X-PICTURE",
         "NON-USAGE", "THIS-IS", "Q-COMP-3"]

# reserved words that the clause pattern matches at the start of a longer name
KEYWORD_PREFIX_NAMES = ["COMPANY", "COMPUTATIONALLY", "BINARYX", "DISPLAYED", "SYNC-POINT", "SYNCHRONIZED-AT",
                        "EXTERNAL-ID", "GLOBAL-X", "FILLERS", "FILLER-X", "COMP3", "GLOBALS", "SYNCPT"]

PICS = [("X", None), ("X(10)", None), ("XX", None), ("9", None), ("9(5)", None), ("S9(5)V99", None),
        ("S9(7)V99", "COMP-3"), ("9(4)", "COMP"), ("S9(9)", "BINARY"), ("A(5)", None), ("Z(3)9", None),
        ("ZZ9.99", None), ("99V9", None), ("S9(3)", "PACKED-DECIMAL"), ("S9(5)", "COMPUTATIONAL-3"),
        ("9(3)", "DISPLAY"), ("S999", None), ("S9(8)", "COMP-4"), ("S9(4)", "COMPUTATIONAL"), ("X(120)", None)]

EXTRAS = [[], [], [], [], ["SYNC"], ["BLANK", "WHEN", "ZERO"], ["JUSTIFIED", "RIGHT"], ["SYNCHRONIZED", "LEFT"]]
# literals: apostrophe- and quotation-mark-delimited, each kind of quote inside the other, a doubled apostrophe, a period that is
# not followed by white space, separators inside a literal (a period FOLLOWED by a blank inside a literal ends the sentence early:
# finding, not generated here)
VALUES = ["'A'", "'AB'", "ZERO", "SPACES", "12", "'X Y'", '"Q"', "'YES'", '"IT\'S"', "'SAY \"HI\"'", "'O''M'", '"A.B"', "'N.A.'",
          "'1,5'", "'X;Y'", '"O\'NEIL"',
          # what other dialects and tools read as the start of a comment or as an operator is plain text inside a literal
          "'*>'", "'<*>'", "'A*>B'", "'*'", "'/'", "'#'", "'--'", "'$%&'", "'+1'", "'A-B'", '"*>"']


def node(level, name=None, **kw):
    n = dict(level=level, name=name, filler=False, pic=None, usage=None, occurs=None, odo=None, indexed_by=[],
             redefines=None, value=None, renames=None, extra=[], children=[])
    n.update(kw)
    n["is88"] = n["level"] == 88
    return n


class _Names:
    def __init__(self, rng, pool=None, unique=True):
        self.rng, self.n, self.pool, self.unique = rng, 0, pool or STEMS, unique

    def fresh(self):
        self.n += 1
        rng = self.rng
        base = rng.choice(self.pool)
        if rng.random() < 0.4:
            base += "-" + rng.choice(STEMS)
        return f"{base}-{self.n}" if self.unique else base


def gen_forest(rng, records=None, max_depth=4, max_children=5, p_filler=0.15, p_occurs=0.2, p_redefines=0.15,
               p_88=0.15, p_66=0.15, p_77=0.15, ragged=True, contiguous=False, name_pool=None,
               redefines_in_occurs=False, indexed_by=False, budget=40):
    """A well-formed forest: several 01 records (optionally followed by 66 and separated by 77 items),
    groups, elementary items, OCCURS / OCCURS DEPENDING ON on both, REDEFINES of an earlier sibling,
    FILLER and unnamed items, 88 levels under elementary items.

    ragged: later siblings may carry a smaller level number than earlier ones (still above the parent).
    redefines_in_occurs: allow REDEFINES among the children of an OCCURS group (a known defect trigger);
    indexed_by: allow INDEXED BY phrases (a known defect trigger)."""
    names = _Names(rng, name_pool)
    left = [budget]

    def elementary(level, counters):
        pic, usage = rng.choice(PICS)
        n = node(level, pic=pic, usage=usage, extra=list(rng.choice(EXTRAS)))
        if rng.random() < 0.2:
            n["value"] = rng.choice(VALUES)
        if rng.random() < p_88:
            for _ in range(rng.randint(1, 3)):
                n["children"].append(node(88, names.fresh(), value=rng.choice(VALUES)))
        return n

    def fill(n, depth, in_occurs, counters):
        """decide name / occurs / children of n (level already set)"""
        left[0] -= 1
        if rng.random() < p_filler:
            n["name"], n["filler"] = None, rng.random() < 0.6
        else:
            n["name"] = names.fresh()
        if rng.random() < p_occurs and n["level"] != 1:
            if rng.random() < 0.4 and counters:
                mx = rng.randint(1, 12)
                n["odo"] = (rng.choice([None, 0, 1]), mx, rng.choice(counters))
            else:
                n["occurs"] = rng.randint(1, 12)
            if indexed_by and rng.random() < 0.5:
                n["indexed_by"] = [names.fresh() for _ in range(rng.randint(1, 2))]
        return n

    def group_children(parent, depth, counters):
        plevel = parent["level"]
        in_occ = parent["occurs"] is not None or parent["odo"] is not None
        if contiguous:
            step = 1
        else:
            step = rng.choice([1, 2, 4, 5, 5, 5])
        level = min(plevel + step, 49)
        k = rng.randint(1, max_children)
        kids = []
        for i in range(k):
            if left[0] <= 0 and kids:
                break
            if ragged and kids and level > plevel + 1 and rng.random() < 0.1:
                level = rng.randint(plevel + 1, level)
            make_group = depth < max_depth and level < 49 and rng.random() < 0.35 and left[0] > 2
            if make_group:
                c = fill(node(level), depth, in_occ, counters)
                group_children(c, depth + 1, counters)
            else:
                c = fill(elementary(level, counters), depth, in_occ, counters)
            if kids and rng.random() < p_redefines and (redefines_in_occurs or not in_occ):
                cands = [s for s in kids if s["name"] is not None]
                if cands:
                    c["redefines"] = rng.choice(cands)["name"]
            kids.append(c)
            if c["pic"] and c["pic"][0] in "9" and c["name"] and c["occurs"] is None and c["odo"] is None:
                counters.append(c["name"])
        parent["children"] = kids

    forest = []
    nrec = records if records is not None else rng.choice([1, 1, 1, 2, 2, 3])
    for r in range(nrec):
        left[0] = max(left[0], 6)
        if r and rng.random() < p_77:
            pic, usage = rng.choice(PICS)
            forest.append(node(77, names.fresh(), pic=pic, usage=usage))
        root = node(1, names.fresh())
        counters = []
        if rng.random() < 0.08:
            pic, usage = rng.choice(PICS)
            root["pic"], root["usage"] = pic, usage         # an elementary 01
        else:
            group_children(root, 1, counters)
        forest.append(root)
        if root["children"] and rng.random() < p_66:
            named = [c["name"] for c in root["children"] if c["name"]]
            if named:
                a = rng.choice(named)
                forest.append(node(66, names.fresh(), renames=(a, rng.choice([None, named[-1]]))))
    return forest


def repeat_names(rng, forest, p=0.3, allow_related=False):
    """Rename some named items (level 01-49, not the roots) to a name already used earlier in the same
    record, in place.  With allow_related False the donor name is never that of an ancestor, a
    descendant or a sibling of the item (legal COBOL: the same name under different parents, to be
    qualified with OF); with True any earlier name may be taken.  REDEFINES clauses of siblings that
    named the item follow the renaming.  Returns the number of renamings."""
    count = 0
    for root in forest:
        if root["level"] in (66, 77, 88):
            continue
        seen = []                     # names earlier in this record, in order

        def sub_names(n):
            out = set()
            for c in n["children"]:
                if c["name"]:
                    out.add(c["name"])
                out |= sub_names(c)
            return out

        def walk(n, ancestors, siblings):
            nonlocal count
            if n["level"] in (66, 77, 88):
                return
            if n is not root and n["name"] and seen and rng.random() < p:
                banned = set()
                if not allow_related:
                    banned = set(ancestors) | {x["name"] for x in siblings if x is not n and x["name"]} | sub_names(n)
                cands = [x for x in seen if x not in banned and x != n["name"]]
                if cands:
                    old, new = n["name"], rng.choice(cands)
                    for x in siblings:
                        if x is not n and x["redefines"] == old:
                            x["redefines"] = new
                    n["name"] = new
                    count += 1
            if n["name"]:
                seen.append(n["name"])
            for c in n["children"]:
                walk(c, ancestors + ([n["name"]] if n["name"] else []), n["children"])
        walk(root, [], [root])
    return count


def entries(forest):
    """the nodes in source order (preorder; 88s follow their item)"""
    out = []

    def walk(n):
        out.append(n)
        for c in n["children"]:
            walk(c)
    for t in forest:
        walk(t)
    return out


def entry_tokens(n, rng=None, pic_word=None, times=None, usage_word=None, is_words=None):
    """the words of one entry, without level and period; spelling choices random when rng is given"""
    def pick(v, choices):
        if v is not None:
            return v
        return rng.choice(choices) if rng else choices[0]
    toks = []
    if n["name"] is not None:
        toks.append(n["name"])
    elif n["filler"]:
        toks.append("FILLER")
    if n.get("renames"):
        a, b = n["renames"]
        toks += ["RENAMES", a] + (["THRU", b] if b else [])
    if n["redefines"]:
        toks += ["REDEFINES", n["redefines"]]
    isw = pick(is_words, [False, True])
    if n["pic"]:
        toks += [pick(pic_word, ["PIC", "PICTURE"])] + (["IS"] if isw else []) + [n["pic"]]
    if n["usage"]:
        toks += {0: [], 1: ["USAGE"], 2: ["USAGE", "IS"]}[pick(usage_word, [0, 1, 2])] + [n["usage"]]
    if n["occurs"] is not None:
        toks += ["OCCURS", str(n["occurs"])] + (["TIMES"] if pick(times, [False, True]) else [])
    if n["odo"]:
        mn, mx, dep = n["odo"]
        toks += ["OCCURS"] + ([str(mn), "TO"] if mn is not None else []) + [str(mx)]
        toks += (["TIMES"] if pick(times, [False, True]) else []) + ["DEPENDING"] + (["ON"] if isw else []) + [dep]
    if n["indexed_by"]:
        toks += ["INDEXED", "BY"] + list(n["indexed_by"])
    toks += list(n["extra"])
    if n["value"] is not None:
        toks += ["VALUE"] + (["IS"] if isw and n["level"] != 88 else []) + [n["value"]]
    return toks


def print_copybook(forest, rng=None, seq_numbers=False, final_newline=True, indent=2, width=71, one_line=False,
                   comments=False, blank_lines=False, tokens=None, last_line_pad_to=None, margin_a=7, one_digit=None):
    """Reference-format text: columns 1-6 sequence area (blank or numbered), column 7 blank,
    code from column 8, never beyond column `width` (71 keeps the line break inside the [7:72] slice).
    Long entries are continued on following lines (a new line, not a continuation indicator).
    `tokens(n)` may override the words of an entry.  With `last_line_pad_to` = k the last line is padded
    with blanks to k columns before its period (to place the period at or beyond column 72).
    `one_digit(n)` true: the level number of n, when below 10, is written with one digit (5 for 05); default: never."""
    lines = []
    ents = entries(forest)
    depth = {}

    def set_depth(n, d):
        depth[id(n)] = d
        for c in n["children"]:
            set_depth(c, d + 1)
    for t in forest:
        set_depth(t, 0)
    for idx, n in enumerate(ents):
        toks = tokens(n) if tokens else entry_tokens(n, rng)
        words = [str(n["level"]) if one_digit is not None and n["level"] < 10 and one_digit(n) else f"{n['level']:02d}"] + toks
        words[-1] = words[-1] + "."
        ind = margin_a + min(depth[id(n)] * indent, 24)
        cur = " " * ind + words[0]
        first = True
        for w in words[1:]:
            brk = (not one_line) and rng is not None and rng.random() < 0.08
            if len(cur) + 1 + len(w) > width or brk:
                lines.append(cur)
                cur = " " * min(ind + 4, 30) + w
            else:
                cur += " " + w
        lines.append(cur)
        if comments and rng is not None and rng.random() < 0.1:
            lines.append("      * " + rng.choice(["COMMENT LINE.", "05 NOT-AN-ENTRY PIC X.", "", "NOTE 01 X."]))
        if blank_lines and rng is not None and rng.random() < 0.1:
            lines.append(rng.choice(["", "   ", "       "]))
    # drop trailing comment/blank lines so that the last line is the last entry's
    while lines and (not lines[-1].strip() or lines[-1][6:7] == "*"):
        lines.pop()
    if last_line_pad_to is not None and lines:
        body = lines[-1][:-1]
        lines[-1] = body + " " * max(0, last_line_pad_to - 1 - len(body)) + "."
    if seq_numbers:
        out = []
        for i, ln in enumerate(lines):
            out.append(f"{(i + 1) * 10:06d}" + ln[6:] if len(ln) >= 6 else f"{(i + 1) * 10:06d}")
        lines = out
    text = "\n".join(lines)
    return text + "\n" if final_newline else text
