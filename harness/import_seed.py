#!/venv/bin/python
"""import_seed.py Cxx N : copy /tmp/mut_Cxx_out/{mutN.diff,demoN.py,metaN.json} + /tmp/seedres/Cxx_N.json into /verif/seeded/Cxx-N/"""
import json, os, shutil, sys, re
prop, n = sys.argv[1], sys.argv[2]
src = f"/tmp/mut_{prop}_out"
dst = f"/verif/seeded/{prop}-{n}"
os.makedirs(dst, exist_ok=True)
shutil.copy(f"{src}/mut{n}.diff", f"{dst}/patch.diff")
shutil.copy(f"{src}/demo{n}.py", f"{dst}/demo.py")
try:
    m = json.load(open(f"{src}/meta{n}.json"))
except Exception:
    m = {}
txt = open(f"/tmp/seedres/{prop}_{n}.json").read()
def grab(key):
    mm = re.search(rf'"{key}": ([^,\n]+)', txt)
    return mm.group(1).strip() if mm else None
lines = re.findall(r'"((?:VIOLATION|C\d\d (?:quick|thorough))[^"]*)"', txt)
meta = dict(
    property=prop, summary=m.get("summary"), needs_to_manifest=m.get("needs_to_manifest"), files_changed=m.get("files_changed"),
    author="independent sub-agent given only the property text and a scratch worktree of /repo",
    confirmed=dict(
        how="harness/seedtest.py: scratch worktree of /repo HEAD, git apply patch.diff, harness/baseline.py (179 stable tests), demo.py on clean and changed tree, VERIF_REPO=<worktree> ./check %s" % prop,
        patch_applies=grab("applies"), stable_tests_pass=grab("baseline_ok"), demo_exit_clean_tree=grab("demo_clean_exit"),
        demo_exit_changed_tree=grab("demo_changed_exit"), check_exit=grab("check_exit"), check_output=lines[:5]),
    caught=(grab("check_exit") == "1"),
)
hist = sys.argv[3] if len(sys.argv) > 3 else None
try:
    old = json.load(open(f"{dst}/meta.json"))
except Exception:
    old = {}
for k in ("history", "caught_by"):
    if k in old:
        meta[k] = old[k]
if old and old.get("caught") is False and meta["caught"]:
    first = [l for l in old.get("confirmed", {}).get("check_output", []) if re.match(r"C\d\d", l)]
    meta["history"] = (hist or old.get("history") or "missed at first; the check was strengthened and now reports it") + \
        (" [first run: %s]" % first[-1] if first and "first run" not in (old.get("history") or "") else "")
elif hist:
    meta["history"] = hist
json.dump(meta, open(f"{dst}/meta.json", "w"), indent=1)
print(dst, "caught" if meta["caught"] else "MISSED", lines[-1:] )
