"""C17 - cleaned names are always legal JSON Schema anchors (workbook.name_cleaner)."""
import itertools
from lib import S, observe_call

GEN = ["NameCleanerParams", "HeaderRowParams"]
RULE = ("exhaustive over the 12-symbol alphabet {a Z 7 _ - . space tab LF CR e-acute !} up to length 4 (quick) / 5 (thorough); "
        "random Unicode strings up to length 40; every code point below U+0300, of General Punctuation, Letterlike Symbols, Number Forms, the full-width forms and two digits of every decimal-digit block, alone / after / before / between ASCII letters; headings pool incl. blank-only and line-break-only headings. For every string also the $anchor that "
        "HeadingRowSchemaLoader.header gives a sheet with that single heading, and whether Draft202012Validator.check_schema accepts that schema. Non-trivial = the model's loop ran at least once (branch = iteration count > 0); "
        "distinct = distinct case lines.")
TRIVIAL_BRANCHES = [0]
ASSUMPTIONS = ["Python re semantics of the one pattern used by name_cleaner (modelled by hand in coq/Model/NameCleaner.v, tied by this run)",
               "str.replace is non-overlapping left-to-right"]

ALPHABET = "aZ7_-. \t\n\ré!"


def inputs(ctx):
    maxlen = 4 if ctx.tier == "quick" else 5
    ctx.exhaustive.append(f"alphabet12_len<={maxlen}")
    for n in range(maxlen + 1):
        for t in itertools.product(ALPHABET, repeat=n):
            yield "exhaustive", "".join(t)
    rng = ctx.rng
    pools = [ALPHABET, "abcXYZ019_-. ", "\n\r\t\v\f\x1c\x85 ", "".join(chr(c) for c in range(32, 127)),
             "éß中\U0001f600٠́"]
    count = 3000 if ctx.tier == "quick" else 60000
    for _ in range(count):
        k = rng.randint(1, 40)
        pool = rng.choice(pools) + rng.choice(pools)
        yield "random", "".join(rng.choice(pool) for _ in range(k))
    # every code point of the ranges where Python's `re` classes, case-insensitive matching and str methods have their special
    # cases (U+0130 U+0131 U+017F U+212A fold to ASCII letters; full-width letters and digits; the decimal digits of other
    # scripts; the C1 controls and line separators), each alone, after, before and between ASCII letters
    import unicodedata
    special = list(range(0, 0x300)) + list(range(0x2000, 0x2070)) + list(range(0x2100, 0x2190)) + list(range(0xFF00, 0xFFF0))
    special += [c for c in range(0x300, 0x20000) if unicodedata.category(chr(c)) == "Nd" and c % 10 in (0, 7)]
    special += [0x1E9E, 0x3000, 0xFB01, 0xFEFF, 0xFFFD, 0x1D7CE, 0x1F600, 0xE0001]
    ctx.exhaustive.append("code_points_of_the_special_ranges_in_4_contexts")
    for c in special:
        if 0xD800 <= c <= 0xDFFF:
            continue
        ch = chr(c)
        for t in (ch, "a" + ch, ch + "a", "a" + ch + "B"):
            yield "code-points", t
    for h in ["Customer Name", "ZIP\nCode", "Amount ($)", "1st", "-x", ".y", "a__b", "a___b", "__", "_", "x\n", "\n", "a\nb",
              "col\r\n2", "Total %", "é", "", "A" * 60 + "\n" * 3]:
        yield "headings", h


def observe(ctx, text):
    from stingray.workbook import name_cleaner
    o1 = observe_call(lambda: name_cleaner(text), S)
    if o1[0] == 0:
        o2 = observe_call(lambda: name_cleaner("".join(chr(c) for c in o1[1])), S)
    else:
        o2 = [1, 0]
    # the property's second half: the heading becomes a column of a heading-row schema that passes validation.
    # o3 = the $anchor HeadingRowSchemaLoader gives a sheet whose only heading is `text`; o4 = does that schema validate
    # (0 yes, 1 no, 2 the loader raised)
    from stingray.workbook import HeadingRowSchemaLoader
    from jsonschema import Draft202012Validator

    def anchor():
        sch = HeadingRowSchemaLoader().header(iter([[text]]))
        ctx_schema.append(sch)
        return sch["properties"][text]["$anchor"]
    ctx_schema = []
    o3 = observe_call(anchor, S)
    if ctx_schema:
        try:
            Draft202012Validator.check_schema(ctx_schema[0])
            o4 = 0
        except Exception:
            o4 = 1
    else:
        o4 = 2
    return [S(text), o1, o2, o3, o4]


def describe(text):
    return repr(text)
