#!/venv/bin/python
"""Fold known_findings.d/<Cxx>.json fragments (written by builders) into known_findings.json. Usage: fold_findings.py C07 C15 ..."""
import json, os, sys
HERE = os.path.dirname(os.path.dirname(os.path.abspath(__file__)))
main = os.path.join(HERE, "known_findings.json")
d = json.load(open(main))
for prop in sys.argv[1:]:
    frag = os.path.join(HERE, "known_findings.d", prop + ".json")
    if not os.path.exists(frag):
        continue
    for f in json.load(open(frag)).get("findings", []):
        d["findings"] = [g for g in d["findings"] if not (g["property"] == f["property"] and g["code"] == f["code"])]
        d["findings"].append(f)
    os.remove(frag)
d["findings"].sort(key=lambda f: (f["property"], f["code"]))
json.dump(d, open(main, "w"), indent=1)
print(len(d["findings"]), "findings")
