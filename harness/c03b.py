"""C03b - the text layer under format transparency: csv.writer / csv.reader and json.dumps / json.loads line by line,
as the C03 harness and the library's CSV and NDJSON unpackers call them.  Second engine of property C03.

Every case runs the real code and serialises what it did; nothing is decided here.  The judge extracted from
coq/Judge/JC03b.v compares
  (a) the BYTES csv.writer / json.dumps wrote for a generated table with the UTF-8 of the model writers' characters
      (coq/Model/Csv.v csv_write, coq/Model/Ndjson.v ndjson_write);
  (b) what the library's unpackers (and csv.reader over newline='' files and over lists of str) deliver for a TEXT - a
      written table, or any text over a small alphabet - with the model readers (csv_reader, csv_reader_raw,
      read_records, ndjson_reader);
and checks the round trip on the observation wherever the theorems of coq/Props/C03.v promise it.
"""
import csv
import itertools
import json
import logging
import os
import tempfile

import c03
from lib import S, B, exn_code, CaseTimeout

GEN = c03.GEN        # coq/Model/Csv.v and Ndjson.v take the text layer of a mode-r file from coq/Model/Workbook.v (C03's model)
RULE = ("csv-shapes = EVERY table of 0-2 rows x 0-2 cells, each cell empty or one of: a letter, the delimiter, the quote character, LF "
        "(993 tables, comma; exhaustive) and every 1x1, 1x2, 2x1 table over (empty, a, CR, LF, CR LF, a CR b); csv-clean = random tables (0-5 rows x 0-4 cells, ragged) over 8 delimiters (comma, TAB, semicolon, "
        "blank, bar, a letter, a non-ASCII letter, a non-BMP character), cells drawn from a pool (quotes, doubled quotes, the delimiter, LF, "
        "leading/trailing blanks, empty, NUL, VT FF FS GS RS, U+0085 U+2028 U+2029, non-ASCII, non-BMP, long words) and random strings over "
        "(delimiter, quote, LF, letters, blank); a fifth of the tables also draws on a carriage-return pool (CR, CR LF, LF CR, CR at either "
        "end of a cell, beside quotes and delimiters) - no exemption: the library's reader and the newline='' reader must both return the "
        "table; csv-limit = one cell of exactly field_size_limit() characters and one "
        "of one more; csv-text = EVERY text of length <= 5 (thorough 7) over (comma, quote, CR, LF, a) and random texts to length 14 over "
        "(delimiter, quote, CR, LF, two letters, blank, a non-ASCII and a non-BMP character, U+2028), written as the content of a file and "
        "read through the library's unpacker and through csv.reader over a newline='' file; csv-lines = random lists of str handed to "
        "csv.reader directly (a CR or LF in mid-line raises); ndjson-write = tables of 1-4 distinct column names x 0-5 rows from a pool "
        "(quote, backslash, slash, every two-character escape, C0 controls, DEL, U+0080, U+0085, U+2028, U+2029, non-ASCII, U+FFFF, non-BMP, "
        "lone surrogates under ensure_ascii, empty), both values of ensure_ascii; ndjson-text = written lines with one character edited, "
        "deleted or inserted, random soups over the JSON alphabet (braces, quote, colon, comma, backslash, u, hex digits, white space, "
        "escapes of surrogates, a control character, BOM), blank lines, several documents per file.  Non-trivial = a table with rows / a "
        "non-empty text; distinct = distinct case lines.")
TRIVIAL_BRANCHES = [0, 10, 20, 30, 40]
ASSUMPTIONS = [
    "Python 3.12 _csv (excel dialect, only the delimiter varies) and _json (C scanner and encoder) are modelled by hand in "
    "coq/Model/Csv.v and coq/Model/Ndjson.v; this run ties the models to the interpreter that runs the library on the generated cases",
    "a text file is its decoded characters: the bytes of a written file are compared with the UTF-8 encoding (coq/Model/Utf8.v) of the "
    "model writer's characters, and decoded by the model decoder before the model readers run; the io text layer's newline handling is "
    "modelled (Workbook.text_lines for mode r, Csv.raw_lines for newline=''), its buffering and the locale's default encoding "
    "(UTF-8 here) are trusted",
    "the NDJSON model parses objects whose values are strings; on a text that leaves that grammar where json may accept another value "
    "the model answers Beyond and the judge compares only the documents delivered before that point",
    "csv.field_size_limit() is 131072 (read from the csv module at run time would be T1; it is pinned in the model and tied by the "
    "csv-limit stream)",
]
TRUSTED = ["the harness encodes the texts of the reader-only streams with str.encode('utf-8') before writing them"]

DELIMS = [",", ",", ",", "\t", "\t", ";", " ", "|", "a", "\xe9", "\U0001f600"]
CSV_CELLS = ["", "", "a", "abc", "x y", " lead", "trail ", "  ", "\"", "\"\"", "\"q\"", "a\"b", "it's", ",", "a,b", "\t", "a\tb", ";", "|",
             "\n", "a\nb", "\n\n", "line\nbreak\n", "\x00", "\x0b", "\x0c", "\x1c", "\x1d", "\x1e", "a\x85b", "line\u2028sep", "par\u2029sep",
             "\xe9", "\xdf", "\xa0", "\u540d", "\U0001f600", "\U0010ffff", "=1+1", "00123", "long cell with several words, a comma and a \"quoted\" part",
             "'", "\\", "\\n", "#", " \" ", "\",\"", ",\"", "\",", "\"\n\"", "a" * 300]
CR_CELLS = ["\r", "a\rb", "\r\n", "a\r\nb", "\n\r", "\r\r", "x\r", "\rx", "\"\r\"", ",\r\n,"]
JSON_CELLS = ["", "a", "abc", "x y", "\"", "\\", "/", "\"\\\"", "\\n", "\\u0041", "\b", "\f", "\n", "\r", "\t", "\r\n", "\x00", "\x01", "\x0b",
              "\x1f", " ", "\x7e", "\x7f", "\x80", "a\x85b", "\xa0", "\xe9", "\u540d", "line\u2028sep", "par\u2029sep", "\ud7ff", "\ue000", "\ufeff",
              "\uffff", "\U00010000", "\U0001f600", "\U0010ffff", "{", "}", "{\"a\": \"b\"}", ":", ",", ", ", "null", "1", "[]", "\xe9\U0001f600\n\"",
              "long cell with several words, a comma and a \"quoted\" part"]
SURROGATE_CELLS = ["\ud800", "\udbff", "\udc00", "\udfff", "a\ud800b", "\udc00\ud800", "\ud800a\udc00", "\ud83d", "x\ude00"]
JSON_NAMES = ["a", "b", "name", "", " ", "A B", "\xe9", "\u540d", "q\"uote", "back\\slash", "tab\there", "nl\nx", "\U0001f600", "k\u2028", "1", "{}"]


def _rand_cell(rng, alpha, hi):
    return "".join(rng.choice(alpha) for _ in range(rng.randint(0, hi)))


def _csv_table(rng, d, extra):
    pool = CSV_CELLS + [d, d + d, "a" + d, d + "\"", "\"" + d + "\""] + extra * 4
    alpha = [d, "\"", "\n", "a", "b", " "] + (["\r"] if extra else [])
    rows = []
    for _ in range(rng.randint(0, 5)):
        n = rng.choice([0, 1, 1, 2, 2, 3, 4])
        rows.append([rng.choice(pool) if rng.random() < 0.6 else _rand_cell(rng, alpha, 5) for _ in range(n)])
    return rows


def _json_table(rng, ea):
    pool = JSON_CELLS + (SURROGATE_CELLS if ea else [])
    names = rng.sample(JSON_NAMES, rng.randint(1, 4))
    rows = [[rng.choice(pool) for _ in names] for _ in range(rng.randint(0, 5))]
    return names, rows


def _json_line(rng):
    names, rows = _json_table(rng, False)
    row = rows[0] if rows else ["v"] * len(names)
    return json.dumps(dict(zip(names, row)), ensure_ascii=rng.random() < 0.5)


JSON_SOUP = list("{}\":, \\u/bn\t\r") + ["\n", "\n", "d8", "dc", "00", "3d", "D8", "DC", "a", "x", "\x01", "1", "[", "n", "t", "-", "\u2028", "\ufeff",
                                              "ull", "\\u", "\", \"", "\": \"", "{\"", "\"}", "\\ud83d", "\\ude00", "\\ud800", "\\udc00", "\\u00e9", "\xe9",
                                              "\U0001f600", "{}", "{\"a\": \"b\"}", "\\\"", "\\\\"]


def _mutate(rng, line):
    i = rng.randrange(len(line) + 1)
    k = rng.randrange(3)
    piece = rng.choice(JSON_SOUP)
    if k == 0 or i == len(line):
        return line[:i] + piece + line[i:]
    if k == 1:
        return line[:i] + line[i + 1:]
    return line[:i] + piece + line[i + 1:]


def inputs(ctx):
    rng = ctx.rng
    quick = ctx.tier == "quick"
    # ---- csv: exhaustive small tables (no CR: clean for both readers)
    ctx.exhaustive.append("csv_tables_rows<=2_cells<=2_cell_in(empty,a,delim,quote,LF)")
    cells = ["", "a", ",", "\"", "\n"]
    row_shapes = [[]] + [[c] for c in cells] + [[c, e] for c in cells for e in cells]
    tables = [[]] + [[r] for r in row_shapes] + [[r, s] for r in row_shapes for s in row_shapes]
    for t in tables:
        yield "csv-shapes", {"kind": "csv", "d": ",", "rows": t}
    # every table whose cells are empty, a letter, CR, LF or CR LF (one row of 1-2 cells, or two rows of one cell)
    ctx.exhaustive.append("csv_tables_cells_in(empty,a,CR,LF,CRLF,aCRb)_shapes(1x1,1x2,2x1)")
    crs = ["", "a", "\r", "\n", "\r\n", "a\rb"]
    for t in [[[c]] for c in crs] + [[[c, e]] for c in crs for e in crs] + [[[c], [e]] for c in crs for e in crs]:
        yield "csv-shapes", {"kind": "csv", "d": ",", "rows": t}
    for i in range(310 if quick else 4800):
        d = rng.choice(DELIMS)
        # a fifth of the tables draws on the carriage-return pool (CR, CR LF, LF CR, CR at either end, beside quotes and delimiters)
        rows = _csv_table(rng, d, CR_CELLS if i % 5 == 0 else [])
        if i % 5 == 0 and not any("\r" in c for r in rows for c in r):
            rows.append([rng.choice(CR_CELLS)])
        yield "csv-clean", {"kind": "csv", "d": d, "rows": rows}
    limit = csv.field_size_limit()
    yield "csv-limit", {"kind": "csv", "d": ",", "rows": [["k", "a" * limit], ["after"]]}
    yield "csv-limit", {"kind": "csv", "d": ",", "rows": [["k", "a" * (limit + 1)], ["after"]]}
    yield "csv-limit", {"kind": "csv", "d": ",", "rows": [["k", "\"" * limit], ["after"]]}
    # ---- csv: the readers on any text
    n = 5 if quick else 7
    ctx.exhaustive.append(f"csv_texts_len<={n}_over(comma,quote,CR,LF,a)")
    for k in range(n + 1):
        for t in itertools.product(",\"\r\na", repeat=k):
            yield "csv-text", {"kind": "csvtext", "d": ",", "text": "".join(t)}
    for i in range(1500 if quick else 20000):
        d = rng.choice(DELIMS)
        alpha = [d, d, "\"", "\"", "\r", "\n", "\n", "a", "b", " ", "\xe9", "\U0001f600", "\u2028"]
        yield "csv-text", {"kind": "csvtext", "d": d, "text": _rand_cell(rng, alpha, 14)}
    for i in range(1000 if quick else 20000):
        d = rng.choice(DELIMS)
        alpha = [d, d, "\"", "\"", "\r", "\n", "a", "b", " "]
        yield "csv-lines", {"kind": "csvlines", "d": d, "lines": [_rand_cell(rng, alpha, 7) for _ in range(rng.randint(0, 4))]}
    # ---- ndjson
    for i in range(300 if quick else 4000):
        ea = i % 2 == 0
        names, rows = _json_table(rng, ea)
        yield "ndjson-write", {"kind": "ndjson", "ea": ea, "names": names, "rows": rows}
    for i in range(1500 if quick else 25000):
        k = rng.randrange(4)
        if k == 0:
            text = "".join(_mutate(rng, _json_line(rng)) + rng.choice(["\n", "\n", "\r\n", "\r", "", " \n", "\n\n"]) for _ in range(rng.randint(1, 3)))
        elif k == 1:
            text = "{\"" + "".join(rng.choice(JSON_SOUP) for _ in range(rng.randint(0, 12))) + rng.choice(["\"}", "\"}\n", "", "}"])
        elif k == 2:
            text = "".join(rng.choice(JSON_SOUP) for _ in range(rng.randint(0, 14)))
        else:
            text = "".join(_json_line(rng) + rng.choice(["\n", "\n", "\r\n", "\r", " \n", "\t\n"]) for _ in range(rng.randint(1, 3)))
            if rng.random() < 0.3:
                text = text[:-1]
        yield "ndjson-text", {"kind": "ndjsontext", "text": text}


# ---------------------------------------------------------------- observing


def _drain(make_iter, conv):
    """the items an iteration delivers and how it ended"""
    out = []
    try:
        for inst in make_iter():
            out.append(conv(inst))
    except BaseException as ex:
        if isinstance(ex, (KeyboardInterrupt, SystemExit, MemoryError, CaseTimeout)):
            raise
        return [out, [1, exn_code(ex)]]
    return [out, [0]]


def _row(inst):
    return [S(c) if isinstance(c, str) else [-1] for c in inst]


def _instance(inst):
    if isinstance(inst, dict) and all(isinstance(k, str) and isinstance(v, str) for k, v in inst.items()):
        return [0, [[S(k), S(v)] for k, v in inst.items()]]
    return [1]


def _lib_csv(path, d):
    from stingray import open_workbook, CSV_Workbook
    wb = open_workbook(path) if d == "," else CSV_Workbook(path, delimiter=d)
    try:
        return _drain(lambda: wb.unpacker.instance_iter("", **wb.kwargs), _row)
    finally:
        wb.close()


def _raw_csv(path, d):
    with open(path, "r", newline="", encoding="utf-8") as f:
        return _drain(lambda: csv.reader(f, delimiter=d), _row)


def _lib_ndjson(path):
    from stingray import open_workbook
    wb = open_workbook(path)
    try:
        return _drain(lambda: wb.unpacker.instance_iter("", **wb.kwargs), _instance)
    finally:
        wb.close()


def _bytes_of(path):
    with open(path, "rb") as f:
        return B(f.read())


def observe(ctx, inp):
    logging.disable(logging.CRITICAL)
    from pathlib import Path
    kind = inp["kind"]
    with tempfile.TemporaryDirectory(prefix="c03b_") as folder:
        if kind == "csv":
            path = Path(folder) / "t.csv"
            with open(path, "w", newline="", encoding="utf-8") as f:
                w = csv.writer(f, delimiter=inp["d"])
                for r in inp["rows"]:
                    w.writerow(r)
            return [0, ord(inp["d"]), [[S(c) for c in r] for r in inp["rows"]], _bytes_of(path),
                    _lib_csv(path, inp["d"]), _raw_csv(path, inp["d"])]
        if kind == "ndjson":
            path = Path(folder) / "t.ndjson"
            with open(path, "w", newline="", encoding="utf-8") as f:
                for r in inp["rows"]:
                    f.write(json.dumps(dict(zip(inp["names"], r)), ensure_ascii=inp["ea"]) + "\n")
            return [1, 1 if inp["ea"] else 0, [S(n) for n in inp["names"]], [[S(c) for c in r] for r in inp["rows"]],
                    _bytes_of(path), _lib_ndjson(path)]
        if kind == "csvtext":
            path = Path(folder) / "t.csv"
            with open(path, "wb") as f:
                f.write(inp["text"].encode("utf-8"))
            return [2, ord(inp["d"]), S(inp["text"]), _lib_csv(path, inp["d"]), _raw_csv(path, inp["d"])]
        if kind == "csvlines":
            return [3, ord(inp["d"]), [S(l) for l in inp["lines"]],
                    _drain(lambda: csv.reader(list(inp["lines"]), delimiter=inp["d"]), _row)]
        if kind == "ndjsontext":
            path = Path(folder) / "t.ndjson"
            with open(path, "wb") as f:
                f.write(inp["text"].encode("utf-8"))
            return [4, S(inp["text"]), _lib_ndjson(path)]
    return None


def describe(inp):
    k = inp["kind"]
    if k == "csv":
        rows = inp["rows"]
        if rows and any(len(c) > 200 for r in rows for c in r):
            rows = [[c if len(c) <= 200 else f"<{len(c)} x {c[0]!r}>" for c in r] for r in rows]
        return f"csv.writer(delimiter={inp['d']!r}) rows={rows!r}, read back by the library's unpacker and by csv.reader over open(newline='')"
    if k == "ndjson":
        return f"json.dumps lines ensure_ascii={inp['ea']} names={inp['names']!r} rows={inp['rows']!r}, read back by the library"
    if k == "csvtext":
        return f"file content {inp['text']!r} read as CSV with delimiter {inp['d']!r}"
    if k == "csvlines":
        return f"csv.reader({inp['lines']!r}, delimiter={inp['d']!r})"
    return f"file content {inp['text']!r} read as NDJSON"
