"""T1 plug-in for the text layer and the structure builder of src/stingray/cobol_parser.py.

Gen/RefFormatParams.v   (model: coq/Model/RefFormat.v, property C12, first engine)
  reference_format()
    pipeline         the stages between `source` and the iterator the join loop consumes, in data-flow
                     order (not in statement order): which expression is tested for emptiness, which
                     expression is looked up in which set of directive words, the length test, the
                     indicator column and the expression that yields the code area (both slice bounds),
                     the set of comment indicators, and WHERE the REPLACING stage sits (ReplaceTexts after
                     the split = slice-then-replace, ReplaceLines before it = replace-then-slice,
                     ReplacePerPair = the shape before commit c9108cc)
    replace_pairs    which pairs replace_all applies (0 all, in list order; 1 the first only; 2 all, reversed)
    cont_indicator   the indicator that continues a line, cont_join how the two texts are joined
    copy_subject / copy_word   the COPY test
  dde_sentences()
    sent_level_digits, sent_lazy, sent_term_char, sent_dotall   read off the pattern string and the flags of the
                     re.compile call (in the function or hoisted to module level)

Gen/StructureParams.v   (model: coq/Model/Structure.v, property C07; also imported by C11's model)
  DDE.__init__   default_name, filler_name, gen_prefix / gen_suffix, filler_step, reset_levels
  structure()    reset_at_start, skipped_levels, pop_cmp

How a function is read.  The function is normalised (docstring, annotations, typing.cast, logger calls and
iter() around a generator dropped; `x += e` written `x = x + e`; `filter(lambda v: p, s)` written
`(v for v in s if p)`) and then UNIFIED with a template written in Python below: same statements, same
operators, same attribute and global names; local names may be renamed (one-to-one); the `H_...` names of
a template are holes whose content is translated by a small, closed translator (string expressions over
strip/lstrip/rstrip/slices/+, sets of string constants, comparison operators).  reference_format's
assignments before the join loop are read by an abstract interpreter over the same normal form, so that
the ORDER of the stages is whatever the data flow says.  Anything that does not fit raises
translate.Unrecognised: the pinned text is used and the run relies on the correspondence check.
"""
import ast
import copy
import re

from translate import Unrecognised, _parse, _func

# ------------------------------------------------------------------------------------------------
# normal form
# ------------------------------------------------------------------------------------------------


def _is_doc(s):
    return isinstance(s, ast.Expr) and isinstance(s.value, ast.Constant) and isinstance(s.value.value, str)


class _Norm(ast.NodeTransformer):
    def _fn(self, node):
        self.generic_visit(node)
        node.returns = None
        if node.body and _is_doc(node.body[0]):
            node.body = node.body[1:]
        return node

    visit_FunctionDef = _fn

    def visit_arg(self, node):
        node.annotation = None
        node.type_comment = None
        return node

    def visit_AnnAssign(self, node):
        self.generic_visit(node)
        if node.value is None:
            return None
        return ast.Assign(targets=[node.target], value=node.value)

    def visit_AugAssign(self, node):
        self.generic_visit(node)
        load = copy.deepcopy(node.target)
        load.ctx = ast.Load()
        return ast.Assign(targets=[node.target], value=ast.BinOp(left=load, op=node.op, right=node.value))

    def visit_Expr(self, node):
        v = node.value
        if (isinstance(v, ast.Call) and isinstance(v.func, ast.Attribute) and isinstance(v.func.value, ast.Name)
                and v.func.value.id == "logger" and v.func.attr in ("debug", "info")):
            return None
        self.generic_visit(node)
        return node

    def visit_Call(self, node):
        self.generic_visit(node)
        f = node.func
        if isinstance(f, ast.Name) and not node.keywords:
            if f.id == "cast" and len(node.args) == 2:
                return node.args[1]
            if f.id == "iter" and len(node.args) == 1 and isinstance(node.args[0], (ast.GeneratorExp, ast.Name)):
                return node.args[0]
            if f.id == "filter" and len(node.args) == 2 and isinstance(node.args[0], ast.Lambda):
                a = node.args[0].args
                if (len(a.args) == 1 and not a.posonlyargs and not a.kwonlyargs and not a.defaults
                        and a.vararg is None and a.kwarg is None):
                    v = a.args[0].arg
                    return ast.GeneratorExp(
                        elt=ast.Name(id=v, ctx=ast.Load()),
                        generators=[ast.comprehension(target=ast.Name(id=v, ctx=ast.Store()), iter=node.args[1],
                                                      ifs=[node.args[0].body], is_async=0)])
        return node


def _normal(fn):
    return _Norm().visit(copy.deepcopy(fn))


def _template(text):
    return _normal(ast.parse(text).body[0])


# ------------------------------------------------------------------------------------------------
# unification with a template
# ------------------------------------------------------------------------------------------------

_SKIP_FIELDS = {"ctx", "type_comment", "kind", "type_params", "decorator_list"}


def _template_locals(t):
    out = set()
    for n in ast.walk(t):
        if isinstance(n, ast.Name) and isinstance(n.ctx, ast.Store):
            out.add(n.id)
        elif isinstance(n, ast.arg):
            out.add(n.arg)
    return {x for x in out if not x.startswith("H_")}


class _Unify:
    def __init__(self, template, extra_locals=(), bound=None):
        self.tl = _template_locals(template) | set(extra_locals)
        self.fwd, self.bwd, self.holes = {}, {}, {}
        for k, v in (bound or {}).items():
            self.tl.add(k)
            self.fwd[k] = v
            self.bwd[v] = k
        self.template = template

    def _name(self, t, a, where):
        if t in self.tl:
            if self.fwd.setdefault(t, a) != a or self.bwd.setdefault(a, t) != t:
                raise Unrecognised(f"{where}: local name {a!r} does not play one role")
        elif t != a:
            raise Unrecognised(f"{where}: name {a!r} where {t!r} expected")

    def go(self, t, a, where):
        if isinstance(t, ast.Name) and t.id.startswith("H_"):
            if not isinstance(a, ast.AST):
                raise Unrecognised(f"{where}: nothing where an expression is expected")
            key = t.id[2:]
            if key in self.holes and ast.dump(self.holes[key]) != ast.dump(a):
                raise Unrecognised(f"{where}: two different expressions for {key}")
            self.holes[key] = a
            return
        if isinstance(t, ast.AST):
            if type(t) is not type(a):
                raise Unrecognised(f"{where}: {type(a).__name__} where {type(t).__name__} expected")
            if isinstance(t, ast.Name):
                self._name(t.id, a.id, where)
                return
            if isinstance(t, ast.arg):
                self._name(t.arg, a.arg, where)
                return
            for f in t._fields:
                if f == "name" and isinstance(t, ast.FunctionDef):
                    continue                  # the function was looked up by its name
                if f not in _SKIP_FIELDS:
                    self.go(getattr(t, f, None), getattr(a, f, None), f"{where}.{f}")
        elif isinstance(t, list):
            if not isinstance(a, list) or len(a) != len(t):
                raise Unrecognised(f"{where}: {len(a) if isinstance(a, list) else '?'} items where {len(t)} expected")
            for i, (x, y) in enumerate(zip(t, a)):
                self.go(x, y, f"{where}[{i}]")
        elif type(t) is not type(a) or t != a:
            raise Unrecognised(f"{where}: {a!r} where {t!r} expected")

    def run(self, actual, where):
        self.go(self.template, actual, where)
        return self


def _first_match(templates, actual, where, **kw):
    """templates: [(tag, template AST)]; the first that unifies wins"""
    why = []
    for tag, t in templates:
        try:
            return tag, _Unify(t, **kw).run(actual, where)
        except Unrecognised as ex:
            why.append(f"{tag}: {ex}")
    raise Unrecognised("; ".join(why))


# ------------------------------------------------------------------------------------------------
# translators of hole contents
# ------------------------------------------------------------------------------------------------


def _str_const(n, what, length=None):
    if not (isinstance(n, ast.Constant) and isinstance(n.value, str)):
        raise Unrecognised(f"{what}: not a string literal")
    if length is not None and len(n.value) != length:
        raise Unrecognised(f"{what}: {n.value!r} does not have {length} characters")
    return n.value


def _str_set(n, what, length=None):
    """a set / tuple / list / frozenset display of string literals -> sorted list of distinct strings"""
    if not isinstance(n, (ast.Set, ast.Tuple, ast.List)):
        raise Unrecognised(f"{what}: not a set, tuple or list display")
    return sorted({_str_const(e, what, length) for e in n.elts})


def _nat(n, what):
    if n is None:
        return None
    if not (isinstance(n, ast.Constant) and type(n.value) is int and 0 <= n.value < 5000):
        raise Unrecognised(f"{what}: not a small non-negative integer literal")
    return n.value


def _sexp(n, v0, v1=None, what="string expression"):
    """expression over the names v0 (V0) and v1 (V1) -> Coq term of type sexp"""
    if isinstance(n, ast.Name):
        if n.id == v0:
            return "V0"
        if v1 is not None and n.id == v1:
            return "V1"
        raise Unrecognised(f"{what}: name {n.id!r}")
    if (isinstance(n, ast.Call) and isinstance(n.func, ast.Attribute) and n.func.attr in ("strip", "lstrip", "rstrip")
            and not n.args and not n.keywords):
        return f"({n.func.attr.capitalize()} {_sexp(n.func.value, v0, v1, what)})"
    if isinstance(n, ast.Subscript) and isinstance(n.slice, ast.Slice) and n.slice.step is None:
        lo = _nat(n.slice.lower, what) or 0
        hi = _nat(n.slice.upper, what)
        his = "None" if hi is None else f"(Some {hi}%nat)"
        return f"(Slice {lo}%nat {his} {_sexp(n.value, v0, v1, what)})"
    if isinstance(n, ast.BinOp) and isinstance(n.op, ast.Add):
        return f"(Cat {_sexp(n.left, v0, v1, what)} {_sexp(n.right, v0, v1, what)})"
    raise Unrecognised(f"{what}: {ast.unparse(n)}")


def _pts(s):
    return "[" + "; ".join(str(ord(c)) for c in s) + "]"


def _words(ws):
    return "[" + "; ".join(_pts(w) for w in ws) + "]"


# ------------------------------------------------------------------------------------------------
# reference_format
# ------------------------------------------------------------------------------------------------

REPLACE_FN = [
    (0, "def f(line):\n for old, new in replacing:\n  line = line.replace(old, new)\n return line\n"),
    (2, "def f(line):\n for old, new in reversed(replacing):\n  line = line.replace(old, new)\n return line\n"),
    (1, "def f(line):\n for old, new in replacing:\n  line = line.replace(old, new)\n  break\n return line\n"),
    (1, "def f(line):\n for old, new in replacing:\n  return line.replace(old, new)\n return line\n"),
]

JOIN_LOOP = [
    ("one-name", """
def f():
    indicator, line = next(it)
    for indicator, next_line in it:
        if indicator == H_cont:
            line = H_join
        else:
            if H_copy.startswith(H_word):
                raise ValueError(H_msg)
            yield line
            line = next_line
    yield line
"""),
    ("two-names", """
def f():
    first_indicator, line = next(it)
    for indicator, next_line in it:
        if indicator == H_cont:
            line = H_join
        else:
            if H_copy.startswith(H_word):
                raise ValueError(H_msg)
            yield line
            line = next_line
    yield line
"""),
]


class _Flow:
    """what a name of reference_format stands for: a stream of lines or of (indicator, text) pairs and the
    stages that made it from `source`"""

    def __init__(self, kind, stages):
        self.kind, self.stages = kind, tuple(stages)


def _is_replace(stage):
    return stage.startswith("Replace")


class _Front:
    def __init__(self, src_name, repl_name):
        self.repl = repl_name
        self.env = {src_name: _Flow("lines", [])}
        self.fn = None            # name of the local replace function (inside `if replacing:`)
        self.mode = None          # replace_pairs

    # -- predicates of a stream of lines
    def _line_filter(self, p, x):
        if isinstance(p, ast.Compare) and len(p.ops) == 1:
            op, left, right = p.ops[0], p.left, p.comparators[0]
            if (isinstance(left, ast.Call) and isinstance(left.func, ast.Name) and left.func.id == "len" and len(left.args) == 1
                    and not left.keywords and isinstance(left.args[0], ast.Name) and left.args[0].id == x):
                n = _nat(right, "length test")
                if isinstance(op, ast.GtE):
                    return f"KeepLong {n}%nat"
                if isinstance(op, ast.Gt):
                    return f"KeepLong {n + 1}%nat"
                raise Unrecognised("length test: operator")
            if isinstance(op, ast.NotIn):
                return f"DropWords {_sexp(left, x, what='directive test')} {_words(_str_set(right, 'directive words'))}"
            raise Unrecognised(f"line filter: {ast.unparse(p)}")
        return f"KeepNonEmpty {_sexp(p, x, what='emptiness test')}"

    def _genexp(self, g, in_if):
        if len(g.generators) == 2 and in_if == "if":
            return self._per_pair(g)
        if len(g.generators) != 1 or g.generators[0].is_async:
            raise Unrecognised("generator expression with several for clauses")
        c = g.generators[0]
        if not (isinstance(c.iter, ast.Name) and c.iter.id in self.env):
            raise Unrecognised(f"generator expression over {ast.unparse(c.iter)}")
        src = self.env[c.iter.id]
        stages = list(src.stages)
        if src.kind == "lines":
            if not isinstance(c.target, ast.Name):
                raise Unrecognised("line stream: loop target")
            x = c.target.id
            for p in c.ifs:
                stages.append(self._line_filter(p, x))
            e = g.elt
            if isinstance(e, ast.Name) and e.id == x:
                return _Flow("lines", stages)
            if isinstance(e, ast.Tuple) and len(e.elts) == 2:
                ind, text = e.elts
                if not (isinstance(ind, ast.Subscript) and isinstance(ind.value, ast.Name) and ind.value.id == x
                        and not isinstance(ind.slice, ast.Slice)):
                    raise Unrecognised(f"indicator: {ast.unparse(ind)}")
                i = _nat(ind.slice, "indicator column")
                longs = [int(re.fullmatch(r"KeepLong (\d+)%nat", s).group(1)) for s in stages if s.startswith("KeepLong")]
                if not longs or max(longs) <= i:
                    raise Unrecognised("indicator column not protected by a length test")
                stages.append(f"Split {i}%nat {_sexp(text, x, what='code area')}")
                return _Flow("cards", stages)
            if (in_if == "if" and self.fn and isinstance(e, ast.Call) and isinstance(e.func, ast.Name) and e.func.id == self.fn
                    and len(e.args) == 1 and not e.keywords and isinstance(e.args[0], ast.Name) and e.args[0].id == x
                    and not c.ifs):
                stages.append("ReplaceLines")
                return _Flow("lines", stages)
            raise Unrecognised(f"line stream: element {ast.unparse(e)}")
        # a stream of (indicator, text) pairs
        t = c.target
        if isinstance(t, ast.Name):
            is_ind = lambda n: (isinstance(n, ast.Subscript) and isinstance(n.value, ast.Name) and n.value.id == t.id
                                and isinstance(n.slice, ast.Constant) and n.slice.value == 0 and type(n.slice.value) is int)
            is_text = lambda n: (isinstance(n, ast.Subscript) and isinstance(n.value, ast.Name) and n.value.id == t.id
                                 and isinstance(n.slice, ast.Constant) and n.slice.value == 1 and type(n.slice.value) is int)
            is_same = lambda n: isinstance(n, ast.Name) and n.id == t.id
        elif (isinstance(t, ast.Tuple) and len(t.elts) == 2 and all(isinstance(z, ast.Name) for z in t.elts)
              and t.elts[0].id != t.elts[1].id):
            is_ind = lambda n: isinstance(n, ast.Name) and n.id == t.elts[0].id
            is_text = lambda n: isinstance(n, ast.Name) and n.id == t.elts[1].id
            is_same = lambda n: isinstance(n, ast.Tuple) and len(n.elts) == 2 and is_ind(n.elts[0]) and is_text(n.elts[1])
        else:
            raise Unrecognised("pair stream: loop target")
        for p in c.ifs:
            if not (isinstance(p, ast.Compare) and len(p.ops) == 1 and isinstance(p.ops[0], ast.NotIn) and is_ind(p.left)):
                raise Unrecognised(f"pair filter: {ast.unparse(p)}")
            cs = _str_set(p.comparators[0], "comment indicators", 1)
            stages.append("DropIndicators [" + "; ".join(str(ord(ch)) for ch in cs) + "]")
        e = g.elt
        if is_same(e):
            return _Flow("cards", stages)
        if (in_if == "if" and self.fn and not c.ifs and isinstance(e, ast.Tuple) and len(e.elts) == 2 and is_ind(e.elts[0])
                and isinstance(e.elts[1], ast.Call) and isinstance(e.elts[1].func, ast.Name) and e.elts[1].func.id == self.fn
                and len(e.elts[1].args) == 1 and not e.elts[1].keywords and is_text(e.elts[1].args[0])):
            stages.append("ReplaceTexts")
            return _Flow("cards", stages)
        raise Unrecognised(f"pair stream: element {ast.unparse(e)}")

    def _per_pair(self, g):
        """((indic, line.replace(old, new)) for indic, line in <pairs> for old, new in replacing)"""
        t = _template("def f():\n return ((indic, line.replace(old, new)) for indic, line in H_src for old, new in replacing)\n")
        u = _Unify(t.body[0].value, extra_locals=["indic", "line", "old", "new"], bound={"replacing": self.repl})
        u.run(g, "REPLACING")
        s = u.holes["src"]
        if not (isinstance(s, ast.Name) and s.id in self.env and self.env[s.id].kind == "cards"):
            raise Unrecognised("REPLACING: source of the per-pair generator")
        return _Flow("cards", list(self.env[s.id].stages) + ["ReplacePerPair"])

    def _value(self, v, in_if):
        if isinstance(v, ast.Name) and v.id in self.env:
            return self.env[v.id]
        if isinstance(v, ast.GeneratorExp):
            return self._genexp(v, in_if)
        raise Unrecognised(f"stream expression {ast.unparse(v)}")

    def _block(self, body, in_if):
        for s in body:
            if isinstance(s, ast.Assign) and len(s.targets) == 1 and isinstance(s.targets[0], ast.Name):
                if s.targets[0].id == self.repl:
                    raise Unrecognised("the REPLACING argument is reassigned")
                self.env[s.targets[0].id] = self._value(s.value, in_if)
            elif isinstance(s, ast.FunctionDef) and in_if == "if" and self.fn is None:
                tag, _ = _first_match([(m, _template(t)) for m, t in REPLACE_FN], s, "replace function",
                                      bound={"replacing": self.repl, "f": s.name})
                self.fn, self.mode = s.name, tag
            elif isinstance(s, ast.If) and not in_if and isinstance(s.test, ast.Name) and s.test.id == self.repl:
                self._branch(s)
            else:
                raise Unrecognised(f"statement before the join loop: {ast.unparse(s).splitlines()[0]}")

    def _branch(self, s):
        before = dict(self.env)
        self._block(s.body, "if")
        env_if = self.env
        self.env = dict(before)
        fn = self.fn
        self._block(s.orelse, "else")
        if self.fn is not fn:
            raise Unrecognised("replace function defined in the else branch")
        env_else = self.env
        merged = dict(before)
        for name in set(env_if) | set(env_else):
            a, b = env_if.get(name), env_else.get(name)
            if a is before.get(name) and b is before.get(name):
                continue
            if a is None or b is None:
                continue                      # bound in one branch only: not usable afterwards
            if a.kind != b.kind or tuple(x for x in a.stages if not _is_replace(x)) != b.stages:
                raise Unrecognised(f"{name}: the two branches of `if {self.repl}` differ in more than the REPLACING stage")
            merged[name] = a
        self.env = merged


def _reference_format(tree):
    fn = _normal(_func(tree, "reference_format"))
    a = fn.args
    if len(a.args) != 2 or a.posonlyargs or a.kwonlyargs or a.vararg or a.kwarg or len(a.defaults) != 1 \
            or not (isinstance(a.defaults[0], ast.Constant) and a.defaults[0].value is None):
        raise Unrecognised("reference_format: signature")
    src_name, repl_name = a.args[0].arg, a.args[1].arg
    cut = None
    for i, s in enumerate(fn.body):
        if (isinstance(s, ast.Assign) and isinstance(s.value, ast.Call) and isinstance(s.value.func, ast.Name)
                and s.value.func.id == "next"):
            cut = i
            break
    if cut is None:
        raise Unrecognised("reference_format: no next() call")
    front = _Front(src_name, repl_name)
    front._block(fn.body[:cut], False)
    it = fn.body[cut].value
    if not (len(it.args) == 1 and not it.keywords and isinstance(it.args[0], ast.Name) and it.args[0].id in front.env):
        raise Unrecognised("reference_format: argument of next()")
    flow = front.env[it.args[0].id]
    if flow.kind != "cards":
        raise Unrecognised("reference_format: the join loop does not consume (indicator, text) pairs")
    n_repl = sum(1 for s in flow.stages if _is_replace(s))
    if n_repl > 1:
        raise Unrecognised("reference_format: more than one REPLACING stage")
    loop = ast.FunctionDef(name="f", args=ast.arguments(posonlyargs=[], args=[], kwonlyargs=[], kw_defaults=[], defaults=[]),
                           body=fn.body[cut:], decorator_list=[])
    tag, u = _first_match([(t, _template(text)) for t, text in JOIN_LOOP], loop, "join loop",
                          bound={"it": it.args[0].id})
    line, nxt = u.fwd["line"], u.fwd["next_line"]
    cont = _str_const(u.holes["cont"], "continuation indicator", 1)
    join = _sexp(u.holes["join"], line, nxt, "continuation join")
    copy_subject = _sexp(u.holes["copy"], line, None, "COPY test")
    copy_word = _str_const(u.holes["word"], "COPY word")
    if not copy_word:
        raise Unrecognised("COPY word is empty")
    mode = front.mode if n_repl and "ReplacePerPair" not in flow.stages else 0
    return dict(pipeline=list(flow.stages), replace_pairs=mode, cont=ord(cont), join=join, copy_subject=copy_subject,
                copy_word=copy_word)


# ------------------------------------------------------------------------------------------------
# dde_sentences
# ------------------------------------------------------------------------------------------------

SENTENCES = [
    ("local", """
def dde_sentences(source):
    pattern = H_compile
    text = "".join(source)
    for s in pattern.finditer(text):
        yield s.groups()
"""),
    ("global", """
def dde_sentences(source):
    text = "".join(source)
    for s in H_pattern.finditer(text):
        yield s.groups()
"""),
]

FLAG_NAMES = {"M": "MULTILINE", "MULTILINE": "MULTILINE", "S": "DOTALL", "DOTALL": "DOTALL"}

PATTERN_SHAPE = re.compile(
    r"\\s\*"
    r"\(\?P<level>(?P<digits>(?:\\d)+|\\d\{(?P<count>\d{1,2})\})\)"
    r"\\s\*"
    r"\(\?P<clauses>\.\*(?P<lazy>\??)\)"
    r"\\(?P<term>[^\w\s])"
    r"\\s")


def _module_assignments(tree, name):
    out = []
    for n in ast.walk(tree):
        targets = []
        if isinstance(n, ast.Assign):
            targets = n.targets
        elif isinstance(n, (ast.AnnAssign, ast.AugAssign)):
            targets = [n.target]
        for t in targets:
            for x in ast.walk(t):
                if isinstance(x, ast.Name) and x.id == name:
                    out.append(n)
    return out


def _module_constant(tree, name, what):
    """the value expression of the ONE assignment `name = ...` of the module, which must be at module level"""
    found = _module_assignments(tree, name)
    if len(found) != 1 or found[0] not in tree.body or not isinstance(found[0], (ast.Assign, ast.AnnAssign)) \
            or found[0].value is None:
        raise Unrecognised(f"{what}: {name} is not assigned exactly once, at module level")
    n = found[0]
    if isinstance(n, ast.Assign) and not (len(n.targets) == 1 and isinstance(n.targets[0], ast.Name)):
        raise Unrecognised(f"{what}: assignment shape of {name}")
    return n.value


def _compile_call(tree, c):
    if not (isinstance(c, ast.Call) and isinstance(c.func, ast.Attribute) and c.func.attr == "compile"
            and isinstance(c.func.value, ast.Name) and c.func.value.id == "re" and 1 <= len(c.args) <= 2):
        raise Unrecognised("sentence pattern: not a re.compile call")
    p = c.args[0]
    if isinstance(p, ast.Name):
        p = _module_constant(tree, p.id, "sentence pattern")
    pat = _str_const(p, "sentence pattern")
    extra = list(c.args[1:])
    for k in c.keywords:
        if k.arg != "flags":
            raise Unrecognised("sentence pattern: keyword argument")
        extra.append(k.value)
    if len(extra) > 1:
        raise Unrecognised("sentence pattern: flags given twice")
    flags = set()

    def walk(e):
        if isinstance(e, ast.BinOp) and isinstance(e.op, ast.BitOr):
            walk(e.left)
            walk(e.right)
        elif (isinstance(e, ast.Attribute) and isinstance(e.value, ast.Name) and e.value.id == "re"
              and e.attr in FLAG_NAMES):
            flags.add(FLAG_NAMES[e.attr])
        else:
            raise Unrecognised(f"sentence pattern: flag expression {ast.unparse(e)}")

    for e in extra:
        walk(e)
    return pat, flags


def _dde_sentences(tree):
    fn = _normal(_func(tree, "dde_sentences"))
    tag, u = _first_match([(t, _template(text)) for t, text in SENTENCES], fn, "dde_sentences")
    if tag == "local":
        call = u.holes["compile"]
    else:
        h = u.holes["pattern"]
        if not isinstance(h, ast.Name) or h.id in u.bwd:
            raise Unrecognised("dde_sentences: the pattern is not a module-level name")
        call = _module_constant(tree, h.id, "sentence pattern")
    pat, flags = _compile_call(tree, call)
    m = PATTERN_SHAPE.fullmatch(pat)
    if not m:
        raise Unrecognised(f"sentence pattern shape {pat!r}")
    digits = int(m.group("count")) if m.group("count") else m.group("digits").count("\\d")
    # MULTILINE only changes the anchors, and the shape above has none
    return dict(pattern=pat, flags=sorted(flags), level_digits=digits, lazy=m.group("lazy") == "?",
                term=ord(m.group("term")), dotall="DOTALL" in flags)


def _comment_safe(s):
    """Coq comments nest and read string literals: keep the text of a comment free of both"""
    return s.replace("(*", "( *").replace("*)", "* )").replace('"', "<dq>")


def gen_RefFormatParams(src):
    tree = _parse(src, "stingray/cobol_parser.py")
    rf = _reference_format(tree)
    ds = _dde_sentences(tree)
    b = lambda x: "true" if x else "false"
    return (
        "(* GENERATED by harness/t1_text.py from src/stingray/cobol_parser.py reference_format(), dde_sentences() -- do not edit *)\n"
        "From Coq Require Import NArith List.\nImport ListNotations.\nLocal Open Scope N_scope.\n"
        "(* string expressions: V0 = the line (in the join loop: the pending line), V1 = the text of the\n"
        "   continuation line; Slice lo hi e = e[lo:hi] (hi None = e[lo:]); Cat = + *)\n"
        "Inductive sexp :=\n"
        "| V0 | V1\n"
        "| Strip (e : sexp) | Lstrip (e : sexp) | Rstrip (e : sexp)\n"
        "| Slice (lo : nat) (hi : option nat) (e : sexp)\n"
        "| Cat (a b : sexp).\n"
        "(* the stages of reference_format between its source and the join loop:\n"
        "   KeepNonEmpty e      lines: keep the lines whose e is a non-empty string\n"
        "   DropWords e ws      lines: drop the lines whose e is one of the strings ws\n"
        "   KeepLong n          lines: keep the lines of at least n characters\n"
        "   Split i e           lines to (indicator, text) pairs: (line[i], e)\n"
        "   DropIndicators cs   pairs: drop the pairs whose indicator is one of cs\n"
        "   ReplaceLines        lines: REPLACING applied to the whole line, once per line\n"
        "   ReplaceTexts        pairs: REPLACING applied to the text, once per pair\n"
        "   ReplacePerPair      pairs: every pair emitted once per REPLACING pair, that one pair applied *)\n"
        "Inductive stage :=\n"
        "| KeepNonEmpty (e : sexp)\n"
        "| DropWords (e : sexp) (ws : list (list N))\n"
        "| KeepLong (n : nat)\n"
        "| Split (i : nat) (e : sexp)\n"
        "| DropIndicators (cs : list N)\n"
        "| ReplaceLines | ReplaceTexts | ReplacePerPair.\n"
        "Definition pipeline : list stage :=\n  [" + ";\n   ".join(rf["pipeline"]) + "].\n"
        "(* replace_all: 0 = every pair, in list order; 1 = the first pair only; 2 = every pair, last first *)\n"
        f"Definition replace_pairs : N := {rf['replace_pairs']}.\n"
        "(* the join loop *)\n"
        f"Definition cont_indicator : N := {rf['cont']}.\n"
        f"Definition cont_join : sexp := {rf['join']}.\n"
        f"Definition copy_subject : sexp := {rf['copy_subject']}.\n"
        f"Definition copy_word : list N := {_pts(rf['copy_word'])}.\n"
        f"(* dde_sentences: re.compile(r<dq>{_comment_safe(ds['pattern'])}<dq>, {' | '.join(ds['flags']) or '0'})\n"
        "   white space, sent_level_digits digits, white space, any characters (lazy or greedy; every character\n"
        "   when sent_dotall, every character but the line feed otherwise), sent_term_char, one white-space character *)\n"
        f"Definition sent_level_digits : nat := {ds['level_digits']}%nat.\n"
        f"Definition sent_lazy : bool := {b(ds['lazy'])}.\n"
        f"Definition sent_term_char : N := {ds['term']}.\n"
        f"Definition sent_dotall : bool := {b(ds['dotall'])}.\n"
    )


# ------------------------------------------------------------------------------------------------
# DDE.__init__ and structure()
# ------------------------------------------------------------------------------------------------

DDE_INIT = """
def __init__(self, *sentence, clauses=None):
    self.level, self.source = sentence
    self.clauses = clauses or clause_dict(self.source)
    self.name = self.clauses.get("name") or self.clauses.get("filler") or H_default
    %s
    if self.name == H_filler:
        DDE.filler_count = DDE.filler_count + H_step
        self.unique_name = H_format
    else:
        self.unique_name = str(self.name)
    self.children = []
    self.parent = None
    self.compact_source = " ".join(self.source.split())
"""
DDE_INITS = [("reset", DDE_INIT % "if H_reset:\n        DDE.filler_count = 0"), ("no-reset", DDE_INIT % "pass")]

STRUCTURE = """
def structure(sentences):
    %s
    node_iter = (DDE(*s) for s in sentences)
    bottom = next(node_iter)
    trees = [bottom]
    for node in node_iter:
        if node.level in H_skip:
            continue
        while bottom and H_cmp:
            bottom = bottom.parent() if bottom.parent else None
        if bottom is None:
            trees.append(node)
            bottom = node
        else:
            if "redefines" in node.clauses:
                (matches,) = [c for c in bottom.children if c.name == node.clauses["redefines"]]
                matches.clauses["redefines"] = node.clauses["redefines"]
            bottom.append(node)
            bottom = node
    return trees
"""
STRUCTURES = [("reset", STRUCTURE % "DDE.filler_count = 0"), ("no-reset", STRUCTURE % "pass")]

CMP = {ast.LtE: 0, ast.Lt: 1, ast.GtE: 2, ast.Gt: 3, ast.Eq: 4, ast.NotEq: 5}
FLIP = {0: 2, 1: 3, 2: 0, 3: 1, 4: 4, 5: 5}


def _drop_pass(fn):
    fn.body = [s for s in fn.body if not isinstance(s, ast.Pass)]
    return fn


def _lvl(s):
    return f"({ord(s[0])}, {ord(s[1])})"


def _dde_init(tree):
    fn = _normal(_func(tree, "__init__", "DDE"))
    tag, u = _first_match([(t, _drop_pass(_template(text))) for t, text in DDE_INITS], fn, "DDE.__init__")
    default = _str_const(u.holes["default"], "default name")
    filler = _str_const(u.holes["filler"], "FILLER literal")
    step = _nat(u.holes["step"], "counter increment")
    f = u.holes["format"]
    if not isinstance(f, ast.JoinedStr):
        raise Unrecognised("generated name: not an f-string")
    parts = list(f.values)
    prefix = suffix = ""
    if parts and isinstance(parts[0], ast.Constant):
        prefix = _str_const(parts.pop(0), "generated name")
    if parts and isinstance(parts[-1], ast.Constant):
        suffix = _str_const(parts.pop(), "generated name")
    if not (len(parts) == 1 and isinstance(parts[0], ast.FormattedValue) and parts[0].conversion == -1
            and parts[0].format_spec is None and ast.dump(parts[0].value) ==
            ast.dump(ast.parse("DDE.filler_count", mode="eval").body)):
        raise Unrecognised(f"generated name: {ast.unparse(f)}")
    resets = []
    if tag == "reset":
        r = u.holes["reset"]
        self_name = u.fwd["self"]
        ok = (isinstance(r, ast.Compare) and len(r.ops) == 1 and isinstance(r.left, ast.Attribute) and r.left.attr == "level"
              and isinstance(r.left.value, ast.Name) and r.left.value.id == self_name)
        if ok and isinstance(r.ops[0], ast.Eq):
            resets = [_str_const(r.comparators[0], "reset level", 2)]
        elif ok and isinstance(r.ops[0], ast.In):
            resets = _str_set(r.comparators[0], "reset levels", 2)
        else:
            raise Unrecognised(f"reset condition {ast.unparse(r)}")
    return dict(default=default, filler=filler, step=step, prefix=prefix, suffix=suffix, resets=resets)


def _structure(tree):
    fn = _normal(_func(tree, "structure"))
    tag, u = _first_match([(t, _drop_pass(_template(text))) for t, text in STRUCTURES], fn, "structure()")
    skip = _str_set(u.holes["skip"], "skipped levels", 2)
    c = u.holes["cmp"]
    node, bottom = u.fwd["node"], u.fwd["bottom"]
    lvl_of = lambda e: e.value.id if (isinstance(e, ast.Attribute) and e.attr == "level" and isinstance(e.value, ast.Name)) else None
    if not (isinstance(c, ast.Compare) and len(c.ops) == 1 and type(c.ops[0]) in CMP):
        raise Unrecognised(f"pop comparison {ast.unparse(c)}")
    op = CMP[type(c.ops[0])]
    sides = (lvl_of(c.left), lvl_of(c.comparators[0]))
    if sides == (bottom, node):
        op = FLIP[op]
    elif sides != (node, bottom):
        raise Unrecognised(f"pop comparison {ast.unparse(c)}")
    return dict(reset_at_start=tag == "reset", skip=skip, cmp=op)


def gen_StructureParams(src):
    tree = _parse(src, "stingray/cobol_parser.py")
    d = _dde_init(tree)
    s = _structure(tree)
    b = lambda x: "true" if x else "false"
    lv = lambda xs: "[" + "; ".join(_lvl(x) for x in xs) + "]"
    return (
        "(* GENERATED by harness/t1_text.py from src/stingray/cobol_parser.py DDE.__init__, structure() -- do not edit *)\n"
        "From Coq Require Import NArith List.\nImport ListNotations.\nLocal Open Scope N_scope.\n"
        "(* DDE.__init__: name = clauses.get(name) or clauses.get(filler) or default_name *)\n"
        f"Definition default_name : list N := {_pts(d['default'])}.\n"
        "(* an entry whose name equals filler_name gets the counter advanced by filler_step and the\n"
        "   unique name gen_prefix ++ str(counter) ++ gen_suffix *)\n"
        f"Definition filler_name : list N := {_pts(d['filler'])}.\n"
        f"Definition filler_step : N := {d['step']}.\n"
        f"Definition gen_prefix : list N := {_pts(d['prefix'])}.\n"
        f"Definition gen_suffix : list N := {_pts(d['suffix'])}.\n"
        "(* the levels (two characters) whose entries set the counter to zero first *)\n"
        f"Definition reset_levels : list (N * N) := {lv(d['resets'])}.\n"
        "(* structure() begins with DDE.filler_count = 0 *)\n"
        f"Definition reset_at_start : bool := {b(s['reset_at_start'])}.\n"
        "(* the levels skipped by the loop of structure() (never the first sentence) *)\n"
        f"Definition skipped_levels : list (N * N) := {lv(s['skip'])}.\n"
        "(* while bottom and node.level OP bottom.level, on the two-character strings:\n"
        "   0 <=   1 <   2 >=   3 >   4 ==   5 != *)\n"
        f"Definition pop_cmp : N := {s['cmp']}.\n"
    )


GENERATORS = {"RefFormatParams": gen_RefFormatParams, "StructureParams": gen_StructureParams}
