"""C03 - format transparency: the same table reads the same from every file format.

The runner writes one abstract workbook (sheets of header + text rows) into a temporary directory in every
physical format the environment can write (csv, tab-delimited csv, openpyxl .xlsx, pyexcel_ods3 .ods,
numbers_parser .numbers, JSON lines .ndjson, fixed-width text and EBCDIC bytes with a generated copybook),
reads every file back through the facade only (open_workbook(path) where a suffix is registered, else the
class; sheet_iter(); set_schema_loader(HeadingRowSchemaLoader()) or set_schema(...); rows();
row.name(c).value()) and serialises what came out.  It decides nothing: the judge extracted from
coq/Judge/JC03.v computes the expectation (Spec/Transparency.v), the model (Model/Workbook.v) and the verdict.
"""
import csv
import gc
import io
import itertools
import json
import logging
import os
import tempfile
from pathlib import Path

from lib import S, B, unS, observe_call

ALSO = ["C03b"]   # second engine for this property: the text layer (csv / json / UTF-8 models; harness/c03b.py, coq/Judge/JC03b.v, coq/Props/C03b.v)
GEN = ["NameCleanerParams", "HeaderRowParams", "RegistryParams", "RecfmParams", "EstructParams", "Cp037", "TextCodec", "CsvOpenParams", "ImplParams"]
RULE = ("streams: long = one table of 1650 (thorough: up to 4000) rows whose fixed-width / EBCDIC images exceed the 32 KiB read buffer, as CSV, fixed text and EBCDIC (RECFM N and F); shapes = every table shape 1..3 columns x 0..2 rows (exhaustive over shapes, distinct cell labels) in CSV, TAB, XLSX, "
        "ODS, NDJSON, fixed text, EBCDIC (RECFM N, F with and without lrecl; fixed text, RECFM N and RECFM F also with a layout of another length bound to the sheet before the table's own); plain = workbooks of 1-3 sheets, tables 1-6 columns with "
        "distinct header names sampled from a pool (blanks, punctuation, quotes, commas, tabs, non-ASCII) x 0-8 rows of non-empty "
        "text cells from a pool (quotes, commas, tabs, leading zeros, leading/trailing blanks, Latin-1 and non-Latin-1 letters, a line "
        "feed, a carriage return, CR LF, LF CR, the str.splitlines-only line ends U+0085 U+2028 U+2029 in mid-cell, =1+1, TRUE, 1.50, None, dates), written to CSV, TAB, XLSX, ODS, "
        "NDJSON twice (json.dumps with ensure_ascii True and False) (one file per sheet for single-sheet formats) "
        "and, for a sample, Numbers (consecutive sheets sometimes stored as tables of one Numbers sheet); cobol = the same with "
        "COBOL data names as headers, column widths 1-12, cells of the CP037 repertoire no longer than their column (a third of the "
        "tables with cells filling their columns exactly), additionally written as fixed-width text and EBCDIC and read with the "
        "schema of a generated copybook (all PIC X(w)); ctl = plain and cobol workbooks whose cells also draw on the C0 controls VT FF FS GS RS "
        "(str.splitlines line ends, legal in CSV, JSON, Numbers, fixed text and CP037), written to every format except XLSX and ODS, "
        "whose writers refuse them; numsep = Numbers sheet names containing the sheet::table separator "
        "(known finding); anchors = tables whose column names include a name and another name equal to its cleaned ($anchor) form, "
        "both orders, with and without a column in between (all header-row formats and NDJSON); xls = the read-only XLS sample against the XLSX sample; "
        "typed = workbooks of 1-3 sheets whose data cells are ints, floats, bools, empty cells and strs that look like them, stored as XLSX, ODS and "
        "(a sample) Numbers: the case carries the document as the third-party parser holds it (dumped by the runner through the library directly) "
        "and what the facade delivers; the judge demands every stored sheet once, in order, every row, every cell unconverted; "
        "passes = SEVERAL passes over the rows of ONE Sheet object: one table of 0-4 rows (1-3 columns; also tables in which a data row "
        "repeats the heading row) stored in ONE format per case (CSV, TAB, XLSX, ODS, Numbers, NDJSON, fixed text, EBCDIC RECFM N and F), "
        "pass patterns full+full, take 1 + full, take 2 + full, full + take 1 + full and a single abandoned take 2 (thorough: also random patterns with take 0 and take 3), "
        "every pass's rows read by name before the next pass starts, the abandoned iterator kept alive or dropped; the judge demands "
        "the whole table of every later pass - with no exemption for the in-memory formats - and classifies the continuation of the "
        "formats read from an open file as K-second-pass-differs only when it is exactly the model's; the same passes over every sheet of "
        "the repository's sample workbooks (XLS included) and of generated workbooks of typed cells with 1-3 sheets (XLSX, ODS, Numbers), each "
        "pass compared with the first rows of the stored sheet as the third-party parser holds it; "
        "padded = in the shapes and cobol streams the EBCDIC file is additionally written with pad 1, 3 or 80 filler bytes after "
        "every record and read with RECFM_F / RECFM_FB and an explicit lrecl = layout + pad, also with a layout of another length "
        "bound first. "
        "Non-trivial = at least one data row (branch not 0); distinct = distinct case lines.")
TRIVIAL_BRANCHES = [0]
ASSUMPTIONS = [
    "H_ext (ASSUMED, not proved) for the office formats: each third-party writer/parser pair (openpyxl, pyexcel/pyexcel_ods3, numbers_parser, xlrd) "
    "returns the stored table: parser(writer(W)) = the header row followed by the data rows, every cell the written str; tied by this run "
    "for the generated tables only",
    "the glue between those parsers and the facade (sheet_iter / instance_iter of XLSUnpacker, XLSXUnpacker, ODSUnpacker, NumbersUnpacker) is "
    "NOT assumed: its rules are read from src/stingray/implementations.py on every run (harness/t1_impl.py -> coq/Gen/ImplParams.v), "
    "interpreted by coq/Model/Workbook.v and proved to be the identity on the parsed document (Props/C03d.v); assumed about the libraries: "
    "sheet_names() / sheetnames / sheets() give the stored names in order, a lookup by a missing name raises KeyError, get_rows() / "
    "iter_rows() / iteration give every stored row in order, cell.value is the stored value (pyexcel rows hold the values themselves)",
    "for CSV, tab-delimited text and NDJSON the premise is PROVED (C03_text_premise, C03_facade_text) over executable models of csv.writer / "
    "csv.reader and of json.dumps / json.loads line by line (coq/Model/Csv.v, coq/Model/Ndjson.v); those models are tied to CPython and to "
    "the library's unpackers by the second engine C03b (harness/c03b.py) on every run",
    "domain of H_ext per writer: openpyxl raises IllegalCharacterError and the ODS writer ValueError for C0 control characters "
    "(VT, FF, FS, GS, RS, ...) in a cell, so tables containing them are not stored as XLSX/ODS; U+0085, U+2028, U+2029 round-trip in "
    "every third-party format; the ODS pair rewrites quote characters and outer blanks in SHEET names",
    "domain: non-empty text cells written as explicit string cells (a carriage return, CR LF or LF inside a cell is a character like any "
    "other in every third-party format: CSVUnpacker opens its file with newline='' since commit aa3b8fc, and openpyxl, the ODS pair and "
    "numbers_parser give it back unchanged), "
    "no line break in a cell of a fixed-width text file, distinct non-empty column names, distinct sheet names, rectangular tables",
    "a text file is its decoded characters: the UTF-8 codec round trip and the io text layer (universal newlines, line iteration as modelled "
    "by text_lines) are trusted; an EBCDIC file is its bytes; file.read(n) on a regular file returns n bytes unless at end of file",
    "the copybook scanner and schema loader (C13, C15, C01) turn '05 NAME PIC X(w).' into an atomic string property NAME of size w in "
    "source order: the layout is handed to the model as (name, width) pairs; tied by this run",
    "bytes.decode('cp037') is the table Gen/Cp037.v printed from the CPython codec; the codec the source names is Gen/TextCodec.v (EstructP.codec_is_cp037)",
    "name_cleaner = C17 model (header() cannot raise)",
    "several passes over one Sheet (stream passes, Props/C03e.v): for XLSX, ODS, XLS and Numbers the theorem C03e_second_pass_in_memory rests on the "
    "same premise H_ext / H_num as C03_facade; what CSV, TAB, NDJSON, fixed text and EBCDIC deliver on later passes is proved from the model "
    "alone (C03e_second_pass_file_backed) and is known finding K-second-pass-differs; a pass abandoned after k rows is "
    "list(itertools.islice(sheet.rows(), k)) with the iterator kept referenced or dropped at once (islice(it, 0) never starts the generator); "
    "modelled, not proved: csv.reader / iteration over an open text file / file.read consume exactly the records delivered, so that a new "
    "reader over the same open file goes on at the next record; RECFM_N reads 32768 bytes ahead when it is created",
    "EBCDIC records longer than the layout (C03e_fixed_ebcdic_padded): no premise; the filler bytes are arbitrary (the runner derives them "
    "from a number drawn with the input), the judge recomputes the padded writer's image from the fillers found in the file",
]
TRUSTED = [
    "the runner's writers for fixed text and EBCDIC are checked by the judge against the Coq writers write_fixed_text / write_ebcdic / write_ebcdic_padded "
    "(the case carries the file image; a mismatch is reported as a malformed case)",
    "XLS cannot be written offline (no xlwt): covered by one read-only comparison of the sample files, typed cells not compared",
]

HEADINGS = ["sep\u2028h", "Customer Name", "ZIP Code", "Amount ($)", "1st", "-x", ".y", "a__b", "a b", "a_b", "é", "名前", "Total %", "x", "y1",
            "X", "None", "name", "position", "a,b", "q\"uote", " lead", "trail ", "tab\there", "#", "2", "Ünï", "it's", "=1+1", "TRUE"]
# (heading, another heading equal to name_cleaner(heading))
ANCHOR_PAIRS = [("a b", "a_b"), ("Total %", "Total_"), ("-x", "_x"), (".y", "_y"), ("1st", "_st"), ("é", "_"), ("名前", "_"),
                ("a,b", "a_b"), ("x y z", "x_y_z")]
COBOL_NAMES = ["COL-A", "B2", "CUST-NM", "ZIP", "AMT", "X", "FLD-1", "FLD-2", "REC-KEY", "Q9", "CITY", "W-99", "LAST-ONE"]
CELLS = ["1", "00123", "abc", "x y", " lead", "trail ", "é", "ß", "Ñandú", "a,b", "\"q\"", "it's", "tab\there", "=1+1", "TRUE", "FALSE",
         "1.50", "None", "null", "-7", "0", "1e5", "2024-01-01", "12:30", "50%", "$5", "#N/A", "1/2", " ", "  ", "\xa0", "a;b", "a|b",
         "名", "\U0001f600", "line\nbreak", "car\rret", "cr\r\nlf", "\r", "x\n\ry", "long cell with several words, a comma and a \"quoted\" part",
         # characters str.splitlines() treats as line ends but files, csv and JSON do not: legal unescaped inside a JSON string
         "a\x85b", "line\u2028sep", "par\u2029sep"]
# C0 controls that str.splitlines() also splits on.  openpyxl (IllegalCharacterError) and the ODS writer (not XML compatible)
# refuse them, so tables drawing on this pool are not written to XLSX/ODS (stream ctl).
CTL_CELLS = ["v\x0bt", "f\x0cf", "fs\x1cx", "gs\x1dx", "rs\x1ey", "\x1c"]
LATIN = [c for c in CELLS if all(ord(ch) < 256 for ch in c) and "\n" not in c and "\r" not in c]
# no quote characters, no leading/trailing blanks: the ODS writer/reader pair rewrites them (a'b comes back as 'a b')
SHEET_NAMES = ["Sheet1", "Data", "Second sheet", "Ünï", "a.b", "x-y", "S 3", "Q&A", "2024", "(x)", "50%", "名前", "a,b"]
TABLE_NAMES = ["Table 1", "T", "Tab::2", "Päge"]


# data cells of the typed stream: what a spreadsheet holds besides text (None = an empty cell)
TYPED_CELLS = [1, 0, -7, 42, 123456789, 2.5, 0.125, -1.5, True, False, None, None, "x", "42", "None", "1.0", "TRUE", " ", "é", "a,b"]


def _typed_workbook(rng, fmt):
    k = rng.choice([1, 2, 3])
    tables = []
    for nm in rng.sample(SHEET_NAMES, k):
        n = rng.randint(1, 5)
        rows = [[rng.choice(TYPED_CELLS) for _ in range(n)] for _ in range(rng.randint(0, 6))]
        tables.append({"name": nm, "header": rng.sample(HEADINGS, n), "rows": rows, "widths": []})
    numbers = []
    if fmt == "numbers":
        i = 0
        while i < k:
            share = 2 if (i + 1 < k and rng.random() < 0.5) else 1
            tnames = rng.sample(["Table 1", "T", "Päge", "T 2"], share)
            for j in range(share):
                numbers.append([tables[i]["name"], tnames[j]])
            i += share
    return {"kind": "typed", "fmt": fmt, "tables": tables, "numbers": numbers}


def _cobol_cell(rng, w, exact, pool):
    c = rng.choice(pool)
    while len(c) > w:
        c = rng.choice(pool) if rng.random() < 0.7 else c[:w]
    if exact:
        c = c + rng.choice(["x", "0", "é", "-", " "]) * (w - len(c))
    return c


def _table(rng, kind, name, ctl=False):
    n = rng.randint(1, 6)
    m = rng.randint(1 if ctl else 0, 8)
    extra = CTL_CELLS * 3 if ctl else []
    if kind == "cobol":
        header = rng.sample(COBOL_NAMES, n)
        widths = [rng.randint(1, 12) for _ in range(n)]
        exact = rng.random() < 0.34
        rows = [[_cobol_cell(rng, w, exact, LATIN + extra) for w in widths] for _ in range(m)]
        return {"name": name, "header": header, "rows": rows, "widths": widths}
    header = rng.sample(HEADINGS, n)
    rows = [[rng.choice(CELLS + extra) for _ in range(n)] for _ in range(m)]
    return {"name": name, "header": header, "rows": rows, "widths": []}


def _workbook(rng, kind, with_numbers, ctl=False):
    k = rng.choice([1, 1, 2, 3])
    names = rng.sample(SHEET_NAMES, k)
    tables = [_table(rng, kind, nm, ctl) for nm in names]
    numbers = []
    if with_numbers:
        # consecutive abstract sheets may share one Numbers sheet, as differently named tables
        i = 0
        while i < k:
            share = 2 if (i + 1 < k and rng.random() < 0.5) else 1
            tnames = rng.sample(TABLE_NAMES, share)
            for j in range(share):
                numbers.append([names[i], tnames[j]])
            i += share
    wb = {"kind": kind, "tables": tables, "numbers": numbers}
    if ctl:
        wb["skip"] = ["xlsx", "ods"]
    return wb


PADS = [1, 3, 80]
PASS_FORMATS = ["csv", "tab", "xlsx", "ods", "numbers", "ndjson", "fixed", "ebcdic-n", "ebcdic-f"]
# -1 = a complete pass, k = the first k rows, then abandoned; the last pattern is ONE abandoned pass and nothing after it: no second
# pass, so no format has an exemption there
PASS_PATTERNS = [[-1, -1], [1, -1], [2, -1], [-1, 1, -1], [2]]


def _passes_table(n, m, echo=None):
    """n columns, m rows of distinct labels; echo = index of a data row that repeats the heading row"""
    header = COBOL_NAMES[:n]
    rows = [[f"r{i}c{j}" for j in range(n)] for i in range(m)]
    if echo is not None and echo < m:
        rows[echo] = list(header)
    widths = [max([len(h)] + [len(r[j]) for r in rows]) + (j % 2) for j, h in enumerate(header)]
    return {"name": "Sheet1", "header": header, "rows": rows, "widths": widths}


def _passes_inputs(ctx):
    rng = ctx.rng
    quick = ctx.tier == "quick"
    ctx.exhaustive.append("passes_rows<=4_x_5_patterns_x_9_formats")
    count = 0
    for m in range(5):
        for pat in PASS_PATTERNS:
            for fmt in PASS_FORMATS:
                count += 1
                yield "passes", {"kind": "passes", "fmt": fmt, "table": _passes_table(1 + (m + len(pat)) % 3, m), "pat": pat,
                                 "hold": count % 2 == 0, "numbers": ["S", "T"]}
    # a data row that repeats the heading row: when it is the row a later pass takes for its heading row, the names asked for
    # are found again
    for m, echo, pat in ((3, 1, [1, -1]), (4, 2, [2, -1]), (4, 1, [1, 1, -1])):
        for fmt in PASS_FORMATS:
            count += 1
            yield "passes", {"kind": "passes", "fmt": fmt, "table": _passes_table(2, m, echo), "pat": pat,
                             "hold": count % 2 == 0, "numbers": ["S", "T"]}
    # every sheet of the repository's sample workbooks (the only XLS file there is; typed cells, empty cells) and of generated
    # workbooks of typed cells with 1-3 sheets, read twice / abandoned and read again
    for name, fmt in (("excel97_workbook.xls", "xls"), ("excel_workbook.xlsx", "xlsx"), ("ooo_workbook.ods", "ods"),
                      ("numbers_workbook_13.numbers", "numbers"), ("numbers_workbook_09.numbers", "numbers")):
        for pat in ([-1, -1], [1, -1]) if fmt != "xls" else PASS_PATTERNS:
            count += 1
            yield "passes", {"kind": "typed", "fmt": fmt, "sample": name, "tables": [], "numbers": [], "pat": pat, "hold": count % 2 == 0}
    for i in range(6 if quick else 60):
        wb = _typed_workbook(rng, ("xlsx", "ods", "xlsx", "ods", "xlsx", "numbers")[i % 6])
        count += 1
        wb["pat"], wb["hold"] = PASS_PATTERNS[i % len(PASS_PATTERNS)], count % 2 == 0
        yield "passes", wb
    if not quick:
        for i in range(150):
            n, m = rng.randint(1, 4), rng.randint(0, 4)
            header = rng.sample(COBOL_NAMES, n)
            widths = [rng.randint(1, 9) for _ in range(n)]
            rows = [[_cobol_cell(rng, w, False, [c for c in LATIN if c.strip() == c and c] + header) for w in widths] for _ in range(m)]
            pat = [rng.choice([-1, -1, 0, 1, 2, 3]) for _ in range(rng.randint(2, 4))]
            for fmt in rng.sample(PASS_FORMATS, 3):
                count += 1
                yield "passes", {"kind": "passes", "fmt": fmt, "pat": pat, "hold": count % 2 == 0, "numbers": ["S 1", "Täble"],
                                 "table": {"name": rng.choice(SHEET_NAMES), "header": header, "rows": rows, "widths": widths}}


def inputs(ctx):
    rng = ctx.rng
    quick = ctx.tier == "quick"
    yield "xls", {"kind": "xls"}
    ctx.exhaustive.append("shapes_cols<=3_rows<=2")
    for n in range(1, 4):
        for m in range(3):
            header = COBOL_NAMES[:n]
            widths = [3 + j for j in range(n)]
            rows = [[f"r{i}{j}" for j in range(n)] for i in range(m)]
            yield "shapes", {"kind": "cobol", "numbers": [], "pads": [1, 3, 80], "fill": 17 * n + m,
                             "tables": [{"name": "Sheet1", "header": header, "rows": rows, "widths": widths}]}
    # column names whose cleaned form (the $anchor the heading-row loader computes) equals ANOTHER column's name:
    # by-name access must go by the name asked for, in either column order
    ctx.exhaustive.append("anchor_collisions_both_orders")
    for i, (a, b) in enumerate(ANCHOR_PAIRS):
        for header in ([a, b], [b, a], [a, "mid", b], [b, "mid", a]):
            rows = [[f"r{r}-{j}" for j in range(len(header))] for r in range(2)]
            yield "anchors", {"kind": "plain", "numbers": [["S", "T"]] if i < 2 and len(header) == 2 else [],
                              "tables": [{"name": "Sheet1", "header": header, "rows": rows, "widths": []}]}
    # a table long enough for the fixed-format files to exceed the readers' 32 KiB buffer, with a record length that does not
    # divide it: rows numbered in every cell, so a lost, repeated or misaligned record is visible
    for widths, m in (((7, 9, 5), 1650), ((4600, 60, 40), 12)) if quick else (((7, 9, 5), 1650), ((4600, 60, 40), 12), ((11, 2, 4), 4000),
                                                                              ((1, 30, 2), 1200), ((9000, 3, 3), 9), ((300, 300, 301), 80)):
        rows = [[(f"a{i}" + "=" * 12000)[:widths[0]], f"row-{i}"[:widths[1]], f"{i % 100000}"[:widths[2]]] for i in range(m)]
        yield "long", {"kind": "cobol", "numbers": [], "only": ["csv", "fixed"],
                       "tables": [{"name": "Sheet1", "header": ["REC-KEY", "CUST-NM", "AMT"], "rows": rows, "widths": list(widths)}]}
    # rows in which EVERY cell is the empty string (and empty cells scattered elsewhere), in the formats that store an empty
    # string as such (CSV, TAB, NDJSON; the office formats turn an empty cell into no cell): a blank row is a row
    for i in range(6 if quick else 60):
        n = rng.randint(1, 4)
        header = rng.sample(HEADINGS, n)
        rows = []
        for r in range(rng.randint(2, 7)):
            kind = rng.randrange(3)
            rows.append([""] * n if kind == 0 else [rng.choice(CELLS + ["", ""]) for _ in range(n)])
        if not any(all(c == "" for c in r) for r in rows):
            rows.insert(rng.randrange(len(rows) + 1), [""] * n)
        yield "blank-rows", {"kind": "plain", "numbers": [], "only": ["csv", "tab", "ndjson"],
                             "tables": [{"name": "Sheet1", "header": header, "rows": rows, "widths": []}]}
    n_plain, n_cobol, n_num = (40, 40, 16) if quick else (300, 300, 100)
    for i in range(n_plain):
        yield "plain", _workbook(rng, "plain", i < n_num // 2)
    for i in range(n_cobol):
        wb = _workbook(rng, "cobol", i < n_num // 2)
        # records longer than the layout: one of the pads per workbook, the filler bytes a function of the number drawn here
        wb["pads"] = [PADS[i % len(PADS)]]
        wb["fill"] = rng.randrange(256)
        yield "cobol", wb
    yield from _passes_inputs(ctx)
    n_ctl, n_ctl_num = (10, 3) if quick else (60, 15)
    for kind in ("plain", "cobol"):
        for i in range(n_ctl):
            yield "ctl", _workbook(rng, kind, i < n_ctl_num, ctl=True)
    for i in range(12 if quick else 120):
        for fmt in ("xlsx", "ods") + (("numbers",) if i % 3 == 0 else ()):
            yield "typed", _typed_workbook(rng, fmt)
    # the repository's own sample workbooks (typed cells, dates, empty cells; the only XLS file there is), read only
    for name, fmt in (("excel97_workbook.xls", "xls"), ("excel_workbook.xlsx", "xlsx"), ("ooo_workbook.ods", "ods"),
                      ("numbers_workbook_13.numbers", "numbers"), ("numbers_workbook_09.numbers", "numbers")):
        yield "typed", {"kind": "typed", "fmt": fmt, "sample": name, "tables": [], "numbers": []}
    for i in range(3 if quick else 12):
        wb = _workbook(rng, "plain", False)
        wb["numbers"] = [[t["name"], "T"] for t in wb["tables"]]
        j = rng.randrange(len(wb["numbers"]))
        wb["numbers"][j][0] = str(i) + ["a::b", "x:", "::lead"][i % 3]
        wb["only"] = ["numbers"]
        yield "numsep", wb


# ---------------------------------------------------------------- writing


def _all_rows(t):
    return [t["header"]] + t["rows"]


def _write_csv(path, t, **kw):
    with open(path, "w", newline="", encoding="utf-8") as f:
        w = csv.writer(f, **kw)
        for r in _all_rows(t):
            w.writerow(r)


def _write_ndjson(path, t, ensure_ascii):
    with open(path, "w", newline="", encoding="utf-8") as f:
        for r in t["rows"]:
            f.write(json.dumps(dict(zip(t["header"], r)), ensure_ascii=ensure_ascii) + "\n")


def _write_xlsx(path, tables):
    from openpyxl import Workbook
    from openpyxl.cell.cell import TYPE_STRING
    wb = Workbook()
    wb.remove(wb.active)
    for t in tables:
        ws = wb.create_sheet(title=t["name"])
        for i, r in enumerate(_all_rows(t)):
            for j, c in enumerate(r):
                cell = ws.cell(row=i + 1, column=j + 1)
                cell.value = c
                cell.data_type = TYPE_STRING          # every cell an explicit string cell ('=1+1' is text, not a formula)
    wb.save(path)


def _write_ods(path, tables):
    from collections import OrderedDict
    from pyexcel_ods3 import save_data
    data = OrderedDict()
    for t in tables:
        data[t["name"]] = [list(r) for r in _all_rows(t)]
    save_data(str(path), data)


def _write_numbers(path, tables, names):
    import numbers_parser
    doc = None
    last_sheet = None
    for t, (sname, tname) in zip(tables, names):
        rows = _all_rows(t)
        dims = dict(num_rows=len(rows), num_cols=len(t["header"]))
        if doc is None:
            doc = numbers_parser.Document(sheet_name=sname, table_name=tname, num_header_rows=0, num_header_cols=0, **dims)
            table = doc.sheets[0].tables[0]
        elif sname == last_sheet:
            table = doc.sheets[-1].add_table(tname, num_header_rows=0, num_header_cols=0, **dims)
        else:
            doc.add_sheet(sname, tname, **dims)
            table = doc.sheets[-1].tables[0]
            table.num_header_rows = 0
            table.num_header_cols = 0
        last_sheet = sname
        for i, r in enumerate(rows):
            for j, c in enumerate(r):
                table.write(i, j, c)
    doc.save(path)


def _fixed_text(t):
    return "".join("".join(c.ljust(w) for c, w in zip(r, t["widths"])) + "\n" for r in t["rows"])


def _ebcdic_image(t, pad=0, fill=0):
    """the records back to back, each followed by pad filler bytes (any bytes: here a function of record, position and fill)"""
    out = bytearray()
    for i, r in enumerate(t["rows"]):
        out += "".join(c.ljust(w) for c, w in zip(r, t["widths"])).encode("cp037")
        out += bytes((fill + 31 * i + 7 * j) % 256 for j in range(pad))
    return bytes(out)


def _copybook(t):
    lines = ["       01  REC-1."]
    for n, w in zip(t["header"], t["widths"]):
        lines.append(f"           05  {n} PIC X({w}).")
    return "\n".join(lines) + "\n"


# ---------------------------------------------------------------- reading, through the facade only


def _val(v):
    if isinstance(v, str):
        return [0, S(v)]
    if isinstance(v, list) and len(v) == 1 and v[0] is None:
        return [2]
    if v is None:
        return [1, 0, S("None")]
    tag = 1 if isinstance(v, bool) else 2 if isinstance(v, int) else 3 if isinstance(v, float) else 9
    return [1, tag, S(str(v))]


def _rows(sheet, probes):
    got = observe_call(lambda: list(sheet.rows()), lambda rows: rows)
    if got[0] != 0:
        return got
    return [0, [[observe_call(lambda k=k: row.name(k).value(), _val) for k in probes] for row in got[1]]]


def _read(make_wb, bind, headers):
    """open -> sheet_iter -> bind the schema -> rows -> name(c).value(); a file that cannot be opened shows no sheets"""
    opened = observe_call(make_wb, lambda wb: wb)
    if opened[0] != 0:
        return []
    wb = opened[1]
    try:
        sheets = observe_call(lambda: list(wb.sheet_iter()), lambda s: s)
        if sheets[0] != 0:
            return []
        out = []
        for i, sh in enumerate(sheets[1]):
            probes = headers[i] if i < len(headers) else []
            bound = observe_call(lambda: bind(sh, i), lambda x: x)
            out.append([S(str(sh.name)), bound if bound[0] != 0 else _rows(sh, probes)])
        # the same call sequence written as one chained expression on a workbook opened afresh: the Sheet is a temporary
        # that is gone (and collected) before any cell of its rows is looked at.  When that reads differently, it is this
        # reading that is reported.
        del sheets
        sh = None
        observe_call(wb.close, lambda x: 0)
        opened2 = observe_call(make_wb, lambda w: w)
        if opened2[0] == 0:
            wb = opened2[1]
            for i in range(len(out)):
                probes = headers[i] if i < len(headers) else []

                def chained():
                    fresh = list(wb.sheet_iter())[i]
                    bind(fresh, i)
                    return list(fresh.rows())
                got = observe_call(chained, lambda rows: rows)
                gc.collect()
                if got[0] == 0:
                    again = [0, [[observe_call(lambda k=k: row.name(k).value(), _val) for k in probes] for row in got[1]]]
                else:
                    again = got
                if out[i][1][0] == 0 and again != out[i][1]:
                    out[i][1] = again
        return out
    finally:
        observe_call(wb.close, lambda x: 0)


def _bind_header(sh, i):
    from stingray import HeadingRowSchemaLoader
    sh.set_schema_loader(HeadingRowSchemaLoader())


def _bind_names(headers):
    def bind(sh, i):
        from stingray import SchemaMaker
        names = headers[i] if i < len(headers) else []
        sh.set_schema(SchemaMaker().from_json({"type": "object", "properties": {n: {"type": "string"} for n in names}}))
    return bind


def _bind_copybook(t, rebind=False):
    def bind(sh, i):
        from stingray import SchemaMaker, schema_iter
        if rebind:
            # the same calls with one more in front: a layout of another length is bound first (an application that tries the
            # header layout of a multi-record file before the detail layout), then the table's own; what is read must not change
            decoy = _copybook(t) + "           05  DECOY-TAIL PIC X(7).\n"
            sh.set_schema(SchemaMaker().from_json(next(iter(schema_iter(io.StringIO(decoy))))))
        js = next(iter(schema_iter(io.StringIO(_copybook(t)))))
        sh.set_schema(SchemaMaker().from_json(js))
    return bind


def _observe_tables(inp, folder):
    import stingray
    from stingray import open_workbook, CSV_Workbook, COBOL_Text_File, COBOL_EBCDIC_File
    import stingray.estruct
    tables = inp["tables"]
    only = inp.get("only")
    headers = [t["header"] for t in tables]
    cobol = inp["kind"] == "cobol"
    formats = []

    skip = inp.get("skip", [])

    def want(name):
        return (only is None or name in only) and name not in skip

    def per_table(fmt, suffix, write, make_wb, bind_for):
        files = []
        for i, t in enumerate(tables):
            path = Path(folder) / f"t{fmt}_{len(formats)}_{i}{suffix}"
            image = write(path, t)
            files.append([[] if image is None else image, _read(lambda: make_wb(path), bind_for(t), [t["header"]])])
        formats.append([fmt, files])

    if want("csv"):
        per_table(0, ".csv", lambda p, t: _write_csv(p, t), open_workbook, lambda t: _bind_header)
    if want("tab"):
        per_table(1, ".tab", lambda p, t: _write_csv(p, t, delimiter="\t"),
                  lambda p: CSV_Workbook(p, delimiter="\t"), lambda t: _bind_header)
    if want("xlsx"):
        path = Path(folder) / "w.xlsx"
        _write_xlsx(path, tables)
        formats.append([2, [[[], _read(lambda: open_workbook(path), _bind_header, headers)]]])
    if want("ods"):
        path = Path(folder) / "w.ods"
        _write_ods(path, tables)
        formats.append([3, [[[], _read(lambda: open_workbook(path), _bind_header, headers)]]])
    if inp["numbers"] and want("numbers"):
        path = Path(folder) / "w.numbers"
        _write_numbers(path, tables, inp["numbers"])
        formats.append([4, [[[], _read(lambda: open_workbook(path), _bind_header, headers)]]])
        gc.collect()                                      # numbers_parser keeps the file open until collected
    if want("ndjson"):
        # both spellings of non-ASCII text: escaped (ensure_ascii, the json default) and as the characters themselves
        for ensure_ascii in (True, False):
            per_table(6, ".ndjson", lambda p, t: _write_ndjson(p, t, ensure_ascii), open_workbook,
                      lambda t: _bind_names([t["header"]]))
    if cobol and want("fixed"):
        def write_text(p, t):
            text = _fixed_text(t)
            with open(p, "w", newline="", encoding="utf-8") as f:
                f.write(text)
            return [S(text), 0, -1]
        per_table(7, ".txt", write_text, COBOL_Text_File, _bind_copybook)
        per_table(7, ".txt", write_text, COBOL_Text_File, lambda t: _bind_copybook(t, rebind=True))

        def ebcdic(recfm, code, lrecl_of, rebind=False, pad=0, fill=0):
            def write_bytes(p, t):
                data = _ebcdic_image(t, pad, fill)
                with open(p, "wb") as f:
                    f.write(data)
                lrecl = lrecl_of(t)
                return [B(data), code, -1 if lrecl is None else lrecl]
            def make(p):
                t = tables[int(p.stem.rsplit("_", 1)[1])]
                kw = {}
                if recfm is not None:
                    kw["recfm_class"] = recfm
                if lrecl_of(t) is not None:
                    kw["lrecl"] = lrecl_of(t)
                return COBOL_EBCDIC_File(p, **kw)
            per_table(8, ".ebc", write_bytes, make, lambda t: _bind_copybook(t, rebind=rebind))
        ebcdic(None, 0, lambda t: None)                                        # the default: RECFM_N
        ebcdic(stingray.estruct.RECFM_F, 1, lambda t: None)                    # lrecl from the layout
        ebcdic(stingray.estruct.RECFM_F, 1, lambda t: sum(t["widths"]))        # lrecl given
        ebcdic(stingray.estruct.RECFM_F, 1, lambda t: None, rebind=True)       # lrecl from the layout, another layout bound first
        ebcdic(None, 0, lambda t: None, rebind=True)
        # records longer than the layout (a reserved area the copybook does not name): RECFM_F and its alias RECFM_FB with the
        # explicit lrecl = layout + pad; the filler bytes are arbitrary (a function of the number the input carries)
        for pad in inp.get("pads", []):
            for cls, code in ((stingray.estruct.RECFM_F, 1), (stingray.estruct.RECFM_FB, 2)):
                ebcdic(cls, code, lambda t, pad=pad: sum(t["widths"]) + pad, pad=pad, fill=inp.get("fill", 0))
            ebcdic(stingray.estruct.RECFM_F, 1, lambda t, pad=pad: sum(t["widths"]) + pad, rebind=True, pad=pad, fill=inp.get("fill", 0))
    W = [[S(t["name"]), [S(h) for h in t["header"]], [[S(c) for c in r] for r in t["rows"]]] for t in tables]
    names = [[S(s), S(tn)] for s, tn in inp["numbers"]]
    widths = [t["widths"] for t in tables] if cobol else []
    return [0, W, names, widths, formats]


# ---------------------------------------------------------------- several passes over the rows of one Sheet object


def _read_passes(make_wb, bind, headers, pat, hold):
    """open -> sheet_iter -> bind the schema ONCE -> for every pass: rows() whole or its first k rows -> name(c).value()"""
    opened = observe_call(make_wb, lambda wb: wb)
    if opened[0] != 0:
        return []
    wb = opened[1]
    kept = []
    try:
        sheets = observe_call(lambda: list(wb.sheet_iter()), lambda s: s)
        if sheets[0] != 0:
            return []
        out = []
        for i, sh in enumerate(sheets[1]):
            probes = headers[i] if i < len(headers) else []
            bound = observe_call(lambda: bind(sh, i), lambda x: x)
            per = []
            for k in pat:
                if bound[0] != 0:
                    per.append(bound)
                    continue

                def one_pass():
                    it = sh.rows()
                    if k < 0:
                        return list(it)
                    rows = list(itertools.islice(it, k))
                    if hold:
                        kept.append(it)          # the abandoned iterator stays alive until the workbook is closed
                    return rows                  # ... or is dropped (and closed by the interpreter) here
                got = observe_call(one_pass, lambda rows: rows)
                if got[0] == 0:
                    got = [0, [[observe_call(lambda c=c: row.name(c).value(), _val) for c in probes] for row in got[1]]]
                per.append(got)
            out.append([S(str(sh.name)), per])
        return out
    finally:
        del kept[:]
        observe_call(wb.close, lambda x: 0)


def _observe_passes(inp, folder):
    import stingray
    from stingray import open_workbook, CSV_Workbook, COBOL_Text_File, COBOL_EBCDIC_File
    import stingray.estruct
    t, pat, hold, fmt = inp["table"], inp["pat"], inp["hold"], inp["fmt"]
    headers = [t["header"]]
    folder = Path(folder)
    extra, widths = [], []
    code = {"csv": 0, "tab": 1, "xlsx": 2, "ods": 3, "numbers": 4, "ndjson": 6, "fixed": 7, "ebcdic-n": 8, "ebcdic-f": 8}[fmt]
    if fmt == "csv":
        path = folder / "p.csv"
        _write_csv(path, t)
        got = _read_passes(lambda: open_workbook(path), _bind_header, headers, pat, hold)
    elif fmt == "tab":
        path = folder / "p.tab"
        _write_csv(path, t, delimiter="\t")
        got = _read_passes(lambda: CSV_Workbook(path, delimiter="\t"), _bind_header, headers, pat, hold)
    elif fmt == "xlsx":
        path = folder / "p.xlsx"
        _write_xlsx(path, [t])
        got = _read_passes(lambda: open_workbook(path), _bind_header, headers, pat, hold)
    elif fmt == "ods":
        path = folder / "p.ods"
        _write_ods(path, [t])
        got = _read_passes(lambda: open_workbook(path), _bind_header, headers, pat, hold)
    elif fmt == "numbers":
        path = folder / "p.numbers"
        _write_numbers(path, [t], [inp["numbers"]])
        got = _read_passes(lambda: open_workbook(path), _bind_header, headers, pat, hold)
        gc.collect()
    elif fmt == "ndjson":
        path = folder / "p.ndjson"
        _write_ndjson(path, t, True)
        got = _read_passes(lambda: open_workbook(path), _bind_names(headers), headers, pat, hold)
    elif fmt == "fixed":
        path = folder / "p.txt"
        text = _fixed_text(t)
        with open(path, "w", newline="", encoding="utf-8") as f:
            f.write(text)
        extra, widths = [S(text), 0, -1], t["widths"]
        got = _read_passes(lambda: COBOL_Text_File(path), _bind_copybook(t), headers, pat, hold)
    else:
        path = folder / "p.ebc"
        data = _ebcdic_image(t)
        with open(path, "wb") as f:
            f.write(data)
        widths = t["widths"]
        if fmt == "ebcdic-f":
            extra = [B(data), 1, -1]
            got = _read_passes(lambda: COBOL_EBCDIC_File(path, recfm_class=stingray.estruct.RECFM_F), _bind_copybook(t), headers, pat, hold)
        else:
            extra = [B(data), 0, -1]
            got = _read_passes(lambda: COBOL_EBCDIC_File(path), _bind_copybook(t), headers, pat, hold)
    table = [S(t["name"]), [S(h) for h in t["header"]], [[S(c) for c in r] for r in t["rows"]]]
    return [3, code, table, [S(inp["numbers"][0]), S(inp["numbers"][1])], widths, pat, [extra, got]]


# ---------------------------------------------------------------- typed cells: the parser's document and the facade's reading


def _write_typed(path, fmt, tables, names):
    if fmt == "xlsx":
        from openpyxl import Workbook
        wb = Workbook()
        wb.remove(wb.active)
        for t in tables:
            ws = wb.create_sheet(title=t["name"])
            for r in _all_rows(t):
                ws.append(r)
        wb.save(path)
    elif fmt == "ods":
        from collections import OrderedDict
        from pyexcel_ods3 import save_data
        data = OrderedDict()
        for t in tables:
            data[t["name"]] = [["" if c is None else c for c in r] for r in _all_rows(t)]      # the writer has no empty cell
        save_data(str(path), data)
    else:
        import numbers_parser
        doc, last_sheet = None, None
        for t, (sname, tname) in zip(tables, names):
            rows = _all_rows(t)
            dims = dict(num_rows=len(rows), num_cols=len(t["header"]))
            if doc is None:
                doc = numbers_parser.Document(sheet_name=sname, table_name=tname, num_header_rows=0, num_header_cols=0, **dims)
                table = doc.sheets[0].tables[0]
            elif sname == last_sheet:
                table = doc.sheets[-1].add_table(tname, num_header_rows=0, num_header_cols=0, **dims)
            else:
                doc.add_sheet(sname, tname, **dims)
                table = doc.sheets[-1].tables[0]
                table.num_header_rows = 0
                table.num_header_cols = 0
            last_sheet = sname
            for i, r in enumerate(rows):
                for j, c in enumerate(r):
                    if c is not None:
                        table.write(i, j, c)
        doc.save(path)


def _parser_document(path, fmt):
    """the document as the third-party library holds it, through the library alone (no stingray code runs here)"""
    if fmt == "xlsx":
        from openpyxl import load_workbook
        wb = load_workbook(filename=path)
        try:
            return [[S(ws.title), [[_val(c) for c in r] for r in ws.values]] for ws in wb.worksheets]
        finally:
            wb.close()
    if fmt == "ods":
        import pyexcel
        book = pyexcel.get_book(file_name=str(path))
        return [[S(n), [[_val(c) for c in r] for r in rows]] for n, rows in book.to_dict().items()]
    if fmt == "xls":
        import xlrd
        book = xlrd.open_workbook(path)
        return [[S(sh.name), [[_val(c) for c in sh.row_values(i)] for i in range(sh.nrows)]] for sh in book.sheets()]
    import numbers_parser
    doc = numbers_parser.Document(path)
    return [[S(s.name), [[S(t.name), [[_val(c) for c in r] for r in t.rows(values_only=True)]] for t in s.tables]] for s in doc.sheets]


def _sample_path(ctx, name):
    folder = Path(ctx.repo) / "sample"
    if not (folder / name).exists():
        folder = Path("/repo/sample")
    return folder / name


def _observe_typed(ctx, inp, folder):
    import warnings
    from stingray import open_workbook
    fmt = inp["fmt"]
    code = {"xlsx": 2, "ods": 3, "numbers": 4, "xls": 5}[fmt]
    if "sample" in inp:
        path = _sample_path(ctx, inp["sample"])
        if not path.exists():
            return None
        try:
            content = _parser_document(path, fmt)
        except Exception:                  # a sample the installed library itself cannot parse is no case
            return None
        stored = content if fmt != "numbers" else [tb for sh in content for tb in sh[1]]
        # the probe names: str() of the cells of each sheet's first row, as the parser holds them
        headers = [[unS(c[-1]) for c in rows[0]] if rows else [] for _, rows in stored]
        if "pat" in inp:
            got = _read_passes(lambda: open_workbook(path), _bind_header, headers, inp["pat"], inp.get("hold", False))
            gc.collect()
            return [4, code, content, [[S(h) for h in hs] for hs in headers], inp["pat"], got]
        got = _read(lambda: open_workbook(path), _bind_header, headers)
        gc.collect()
        return [2, code, content, [[S(h) for h in hs] for hs in headers], got]
    path = Path(folder) / ("w." + fmt)
    with warnings.catch_warnings():       # numbers_parser resets the process's warning filters when a number or bool is written
        _write_typed(path, fmt, inp["tables"], inp["numbers"])
    headers = [t["header"] for t in inp["tables"]]
    content = _parser_document(path, fmt)
    if "pat" in inp:
        got = _read_passes(lambda: open_workbook(path), _bind_header, headers, inp["pat"], inp.get("hold", False))
        gc.collect()
        return [4, code, content, [[S(h) for h in hs] for hs in headers], inp["pat"], got]
    got = _read(lambda: open_workbook(path), _bind_header, headers)
    gc.collect()
    return [2, code, content, [[S(h) for h in hs] for hs in headers], got]


def _observe_sample(ctx):
    from stingray import open_workbook
    folder = Path(ctx.repo) / "sample"
    if not (folder / "excel97_workbook.xls").exists():
        folder = Path("/repo/sample")
    out = []
    for name in ("excel97_workbook.xls", "excel_workbook.xlsx"):
        path = folder / name
        if not path.exists():
            return None
        wb = open_workbook(path)
        try:
            sheets = []
            for sh in wb.sheet_iter():
                _bind_header(sh, 0)
                got = observe_call(lambda: list(sh.rows()), lambda rows: rows)
                keys = list(sh.schema.properties) if hasattr(sh, "schema") else []
                if got[0] == 0:
                    got = [0, [[observe_call(lambda k=k: row.name(k).value(), _val) for k in keys] for row in got[1]]]
                sheets.append([S(str(sh.name)), [S(str(k)) for k in keys], got])
            out.append(sheets)
        finally:
            wb.close()
    return [1] + out


def observe(ctx, inp):
    logging.disable(logging.CRITICAL)
    if inp["kind"] == "xls":
        return _observe_sample(ctx)
    with tempfile.TemporaryDirectory(prefix="c03_") as folder:
        if inp["kind"] == "typed":
            return _observe_typed(ctx, inp, folder)
        if inp["kind"] == "passes":
            return _observe_passes(inp, folder)
        return _observe_tables(inp, folder)


def describe(inp):
    if inp["kind"] == "xls":
        return "read-only: sample/excel97_workbook.xls against sample/excel_workbook.xlsx"
    if inp["kind"] == "typed" and "pat" in inp:
        what = f"sample/{inp['sample']}" if "sample" in inp else (f"typed cells stored as {inp['fmt']}: " + "; ".join(
            f"{t['name']!r} header={t['header']!r} rows={t['rows']!r}" for t in inp["tables"]) + (f" numbers={inp['numbers']!r}" if inp["numbers"] else ""))
        return f"passes {inp['pat']!r} (-1 = complete, k = first k rows then abandoned) over every Sheet of {what}"
    if inp["kind"] == "typed" and "sample" in inp:
        return f"read-only: sample/{inp['sample']} through the facade against the document the parser holds"
    if inp["kind"] == "typed":
        return (f"typed cells stored as {inp['fmt']}: " + "; ".join(
            f"{t['name']!r} header={t['header']!r} rows={t['rows']!r}" for t in inp["tables"])
            + (f" numbers={inp['numbers']!r}" if inp["numbers"] else ""))
    if inp["kind"] == "passes":
        t = inp["table"]
        return (f"passes {inp['pat']!r} (-1 = complete, k = first k rows then abandoned; iterator {'kept' if inp['hold'] else 'dropped'}) over one Sheet "
                f"of a {inp['fmt']} file: {t['name']!r} header={t['header']!r} widths={t['widths']!r} rows={t['rows']!r}")
    return (f"{inp['kind']} workbook " + "; ".join(
        f"{t['name']!r} header={t['header']!r} widths={t['widths']!r} rows={t['rows']!r}" for t in inp["tables"])
        + (f" numbers={inp['numbers']!r}" if inp["numbers"] else ""))
