#!/venv/bin/python
"""Writes /verif/MANIFEST.json from the table below (one entry per claimed property)."""
import json, os
HERE = os.path.dirname(os.path.dirname(os.path.abspath(__file__)))
ALL = [f"C{i:02d}" for i in range(1, 19)]
COMMON_NOTE = ("Trusted: Coq 8.16.1 kernel (vm_compute, no native_compute); no axioms (Print Assumptions under every theorem, copied to the evidence); "
               "extraction via ExtrOcamlBasic only + coq/Extract/driver.ml, cross-checked by vm_compute on a sample every run; "
               "harness/translate.py (T1) and the per-property runner harness/cNN.py (T2 canonicalisation). ")
CLAIMED = {
 "C03": dict(
   text="PARTIAL. Coq theorems: (facade) for EVERY workbook with distinct header names, UNDER the explicit premise that a format's third-party parser returns what its writer was given (H_ext, visible in the statement, assumed not proved), the call sequence open -> sheets -> rows -> name(c).value() returns exactly the workbook's sheets, rows and cells by name, for the header-row binding (CSV, tab, XLSX, ODS, XLS, Numbers with its sheet::table names) and the explicit-schema binding (NDJSON); hence any two formats agree; (fixed formats, NO premise) reading the fixed-width text / EBCDIC image written by the Coq writer gives back the padded table, for RECFM N and F, using C05's reader theorems, C02's text theorem and a proved CP037 encode/decode inverse on the whole repertoire; single-sheet formats present one sheet named ''; the suffix alone selects the reader (tied to the regenerated registry). "
        "Correspondence writes every generated table with csv, csv-tab, openpyxl, pyexcel_ods3, numbers_parser, json lines, fixed text and EBCDIC, reads each back through the facade only, and compares with the table and the model.",
   note="Third-party parsers are outside the model (H_ext / H_num are premises). Tables go unpadded to every format; fixed formats are compared modulo the documented column padding. Known finding K-numbers-sheet-name-separator.",
   technique="Coq proof relative to an explicit parser round-trip premise + unconditional proof for the fixed formats (reusing C02/C05/C09 lemmas) + differential correspondence over 8 file formats",
   design="5/C03"),
 "C08": dict(
   text="Coq theorems: (truthful) for ALL 13 USAGE spellings and ALL pictures S?9(m)V9(n), 1<=m+n<=18, written out or in repeat notation (complete finite enumeration, lifted with forallb_forall and the completeness lemma) and all X(k)/A(k): the emitted type, contentEncoding, conversion and min/maxLength are what USAGE and PICTURE dictate, and on every VALID record the Python type of the delivered value (model decoder composed with CONVERSION, using C02's round-trip theorems) is the declared one - outside exactly characterised known-bad families, each refuted by a witness; same for the extended-vocabulary generator; (references, validity of structure, loadability) for ALL record trees with distinct names and well-formed REDEFINES: every $ref and maxItemsDependsOn of the emitted schema has a node bearing that $anchor, anchors are pairwise distinct, every oneOf is non-empty, property names are distinct (C08_valid_shape), and - with DEPENDING ON counters declared before their tables - the model of SchemaMaker.from_json loads the emitted schema without error and binds every $ref / maxItemsDependsOn site to the object bearing that $anchor (C08_loadable). "
        "Validity under the real 2020-12 meta-schema and loadability are decided by correspondence: Draft202012Validator.check_schema and SchemaMaker.from_json on every generated schema, plus a single-keyword-mutation stream tying the Coq validity predicate to the real validator.",
   note="Reuses Model/Estruct.v, Model/Layout.v build, C16's conversion model. json_type tables regenerated from the source. The loader is a hand model of from_json tied by correspondence (bound class and $anchor of every site compared on every run); validity under the real meta-schema stays correspondence-only. Known findings: K-repeat-not-decimal (+ext; pinned by test_7/test_issue_1), the C04 size findings seen through the schema, K-redef-in-occurs-schema, K-ref-bound-by-title.",
   technique="Coq proof by complete finite enumeration + mutual induction over record trees + regenerated parameters + differential correspondence incl. the real JSON Schema validator",
   design="5/C08"),
 "C10": dict(
   text="Coq theorems over ALL schema trees, ALL records over any element type, ANY per-field decoder: value(name k) = the k entry of value(whole) whenever the whole decodes; Row.values = the values of the top-level properties in schema order; an index at or beyond the count is IndexError; a child's raw bytes are the corresponding slice of its parent's; LAZINESS as non-interference: two records that agree on the byte range of the location reached (and produce the same tree) give the same value INCLUDING error status, and a field's value is the decoder applied to its own bytes and nothing else; the location tree depends on the record only through the ODO counters. The value-level model is proved to erase to C01's layout model. DNav and WBNav families restate C15 / C09. "
        "Index commutation (value(index i) = i-th element of value(whole)), raw containment incl. $ref children, and unconditional laziness are proved for every schema satisfying the decidable predicate cobol_like (a $ref only as a property naming an earlier oneOf alternative of the same object; distinct anchors) and, with no schema condition left, for every COBOL-built schema of a C01-well-formed tree (C10_commute_index_cobol, C10_raw_name_cobol, C10_lazy_cobol). Correspondence on records with 0-3 corrupted numeric fields, every path, with a log of the byte slices each value() call read.",
   note="Per-field decoder in the judge = C02's model. Known findings K-index-odo-value and K-negative-index (NDNav.index accepts negative ints), both with refutation theorems.",
   technique="Coq proof by mutual induction over location trees (frame lemma for non-interference, fuel-stable $ref resolution) + sampled differential correspondence with a decode-slice log",
   design="5/C10"),
 "C11": dict(
   text="PARTIAL. Coq theorem over ALL operation histories (parse copybooks, construct standard/extended makers, load schemas, read records, keep or drop navigators) and ALL probes: the probe's output after any history equals its output in a fresh state - proved over a state machine of the process-wide mutable state the code really has (DDE.filler_count, SchemaMaker.ATOMIC), whose two behaviours (counter reset at the start of structure(), extended maker not mutating the shared ATOMIC) are read from the source; the history-independent modes are characterised exactly and the two pre-fix behaviours are refuted. "
        "NO theorem is claimed for 'the JSON document and the loaded schema are unchanged' (a Gallina value cannot be mutated): that half, and all per-object state, rest on the differential run: random histories in one interpreter versus the same probe in a fresh interpreter, with fingerprints of every document and loaded Schema before and after.",
   note="Per-object state (names, name_cache, anchors, default mutable arguments, file_registry) is not modelled; it is exercised by the histories. Read probes are purely differential (C01 ties the layout).",
   technique="Coq proof by induction over operation histories with a globals invariant + regenerated mode flags + differential fresh-interpreter correspondence",
   design="5/C11"),
 "C06": dict(
   text="Coq theorems for the flat family of OCCURS DEPENDING ON records (one 01 group; any number and order of fixed elementary items, counters among them, elementary ODO/OCCURS tables and one-level group tables, each counter an earlier child), ALL count vectors, ALL records whose counter bytes hold the vector: the number of elements is the counter's value, every child starts where the COBOL rules put it for THIS record's counts, an index at or beyond the count is IndexError, the record ends at its extent, and trailing bytes of the buffer do not change the layout (frame lemma). Composition with C05's buffer automaton: for EVERY buffer size and EVERY sequence of such records back to back (RECFM N) the row loop delivers record j starting exactly where record j-1 ended, with the layout of its own counts; likewise V and VB. "
        "GENERAL FORM (C06_layout, Proofs/LayoutOdoP.v, extending C01's development): ODO tables - elementary or group - anywhere a non-repeated item may stand (nested non-repeated groups, sibling groups, next to REDEFINES unions), counters elementary non-repeated items outside unions and tables that come earlier: for every such description, every count vector and every record carrying it, every navigation path lands on the specification's bytes and an index at or beyond the count is IndexError. ODO inside a REDEFINES member or inside a table is outside the theorems and decided by correspondence.",
   note="Builds on Model/Layout.v (walk, nav) and Model/Recfm.v (buffer automaton) unchanged. Counters are unsigned DISPLAY digit items. Known finding K-odo-lrecl-none (set_schema with lrecl=None raises for ODO layouts although documented); the pre-fix refill is refuted for the stream too.",
   technique="Coq proof by induction over the children list (closed form of the walk) and over the record sequence (composition with the RECFM_N invariant) + sampled differential correspondence on files in RECFM N/V/VB",
   design="5/C06"),
 "C01": dict(
   text="Coq theorem over ALL well-formed record descriptions (any nesting of groups, OCCURS n on groups and elementary items, REDEFINES of elementary or group items at any position among the children of a non-repeated group, any widths), ALL records over any element type, ALL navigation paths: the location reached by name/index navigation through the schema build_json_schema emits and LocationMaker.walk lays out starts exactly where the COBOL rules put the item, has exactly its length, raw() is that slice of the record, the record length is the end of the last item, and an index at or beyond the count is refused. "
        "Proved by mutual induction over the tree with an anchors-extension invariant; includes the flattening lemma for the REDEFINES side effect on the parent's ordered properties. Correspondence compares the EMITTED SCHEMA itself and every path of random trees (EBCDIC and text) with the model and the spec.",
   note="OCCURS DEPENDING ON is excluded from this theorem (C06) but included in the correspondence run. Element widths are inputs (C04); the loaded Schema mirrors the JSON document (C15). Known findings, excluded by the wf predicate: K-redef-in-occurs (KeyError), K-occurs-elem-in-union, K-index-odo.",
   technique="Coq proof by mutual induction over record trees (refinement of LocationMaker.walk / NDNav to the COBOL layout specification) + sampled differential correspondence incl. emitted-schema equality",
   design="5/C01"),
 "C14": dict(
   text="PARTIAL. Coq theorems over ALL registration sequences (lookup returns the class of the last registration mentioning the suffix; an unknown suffix is NotImplementedError with an empty constructor trace) and over ALL event traces of a with-block (any reads, any raise point, any exception, explicit closes): after __exit__ the handle set for the workbook's path is empty, a caller-supplied file object is closed, close never raises and is idempotent - for every class outside the Numbers finding, which is proved to leak until a garbage collection. "
        "What the OS and the third-party readers do with descriptors enters through a per-class table in the model, checked by an exhaustive grid (8 classes x every raise point x path/file object) counting /proc/self/fd entries, not proved.",
   note="Registrations, the later-wins rule and the shape of each close() are regenerated from the source. pathlib suffix extraction and the per-class descriptor table are tied by correspondence only. Known finding K-numbers-fd.",
   technique="Coq proof by induction over registration lists / event traces (handle-set invariant) + regenerated parameters + exhaustive-grid differential correspondence on /proc/self/fd",
   design="5/C14"),
 "C05": dict(
   text="Coq theorems over ALL record lists (no bound on count or length beyond the header limits): reading back the F/FB, V and VB images written by the specification yields exactly the records, the header-preserving iterators yield payloads with correct length words, and the stream is exhausted; for RECFM N, for EVERY buffer size B>0 and every announced-length sequence with 1<=len<=B, the buffer automaton delivers each record at the head of its buffer, in order, and ends empty (invariant buf = firstn B (buf ++ rest)); instantiated with the buffer size and refill expression read from the source. "
        "The original refill (B - used) is refuted by a vm_compute witness. Correspondence on boundary lengths straddling 32768 and random blockings.",
   note="file.read(n) on a regular file is modelled as firstn n (short reads on pipes are outside the property); struct '>H2x' semantics modelled and tied by correspondence and the T1 format check. The RECFM_N consumer is assumed to announce the true length once per buffer.",
   technique="Coq proof by induction on the record/block list with a buffer invariant for arbitrary B + regenerated parameters + sampled differential correspondence",
   design="5/C05"),
 "C12": dict(
   text="Two engines. (1) Text layer, Coq theorems over ALL source texts: reference_format ignores columns 1-6 and 73+, inserted comment/blank/bare-directive lines anywhere (also between a line and its continuation), joins continuations, applies every REPLACING pair to each line exactly once in order; the sentence splitter returns exactly the printed entries; re-breaking and re-spacing an entry gives the same compact clause text. (2) Clause layer (engine C12b), Coq theorems over ALL clause lists and ALL spellings the printer allows: a faithful model of the 15-alternative clause regular expression (re.finditer with IGNORECASE, the later-wins merge, DDE naming) recovers exactly the clauses of every printed entry (C12b_clause_dict_printer), and two printings of the same entry that differ in clause order, optional words (IS, TIMES, USAGE, ON, WHEN), synonyms, separators and letter case give the same clause record up to the as-written fields (C12b_respelling); every finding of the regexp is refuted by a witness. "
        "PARTIAL for what lies beyond clause_dict: level renumbering and the composition with structure(), schema emission and estruct's second parse are decided by metamorphic correspondence (original vs rewritten copybook: schema and layout equal), incl. per-group renumbering and composed rewrites.",
   note="Modelled by hand: reference_format, dde_sentences, compact_source, clause_pattern.finditer with Python's exact white-space, word and digit classes (regenerated from the interpreter) and the alternatives, synonym lists, usage words and flags read from the source (T1, fail closed). Known findings: numbered directives, '/' comments, lower-case words, separator after a picture, VALUE literal re-parsed by estruct, word continuation blanks, INDEXED BY naming (2 shapes), keyword-prefixed names, BLANK WHEN ZEROS/ZEROES, trailing JUSTIFIED, SIGN without SEPARATE.",
   technique="Coq proof by induction over line lists / joined text / clause lists (regex scanner vs printer) + regenerated parameters + metamorphic and direct differential correspondence",
   design="5/C12"),
 "C13": dict(
   text="Coq theorems over ALL strings (lists of code points, any length), outside eight exactly characterised known-bad families: the decoder-side scanner either raises ValueError or sizes the picture as the number of positions the grammar denotes and the string holds no foreign character (fuel sufficiency proved); both scanners accept the same strings with the same element lists; generator and decoder agree on the numeric-versus-text classification (C13_agree_class_full); expanding every c(n) to n copies is accepted, stays outside the known-bad families and leaves size, sign, integer and fraction digit counts and class unchanged (C13_repeat_full); the decoder's size, digit counts and class equal the grammar's (C13_decoder_summary). Each finding has a refutation witness. "
        "Correspondence exhaustive to length 3/4 over the picture alphabet, random, grammar-generated with injected foreign characters.",
   note="Regex finditer semantics of the two picture patterns modelled by hand as a left-to-right scanner; character classes, IGNORECASE and the Unicode Nd table regenerated from the source/interpreter. IGNORECASE folding = ASCII + U+017F (checked once over all code points, assumed per run). Eight known findings (skipped characters, zero repeat, lower case, repeat notation not numeric, IndexError on no match, non-ASCII digits, zero positions, last-sign-only).",
   technique="Coq proof by induction on the string (scanner vs grammar automaton) + regenerated parameters + exhaustive-to-length-4 differential correspondence",
   design="5/C13"),
 "C07": dict(
   text="PARTIAL. Coq theorems over ALL entry lists (any sequence of two-digit levels, no well-nesting assumed): the forest built by structure() has preorder = the kept entries (66/77/88 skipped), each exactly once in source order, every entry's parent is the nearest preceding kept entry with a strictly smaller level, roots are the entries without one (every 01); generated FILLER names are pairwise distinct. "
        "The sentence splitter and clause regular expression are proved in C12/C12b, not here; schema emission is not proved: the emitted schema shape is an executable model compared with the real code on generated copybooks, and what the text layer returned is observed in every case.",
   note="Proved: structure(), DDE naming. Modelled and checked by correspondence only: build_json_schema shape. Modelled elsewhere: reference_format/dde_sentences (C12's model) and the clause regular expression (engine C12b: C12b_naming/C12b_printer_* prove which level, name and clauses the scanner returns for every printed entry); C07 observes what that layer returned in every case and judges the forest built from it. The full REDEFINES-error statement is kept as a Definition with two proved partial theorems. Known findings: last entry lost without trailing white space / >=72-column line (pinned by test_20), REDEFINES in an OCCURS group (KeyError), keyword-prefixed names, INDEXED BY naming (pinned by test_7).",
   technique="Coq proof by induction over the entry list (stack-of-open-frames invariant) + sampled differential correspondence on generated copybooks",
   design="5/C07"),
 "C15": dict(
   text="Coq theorems over ALL schema documents (mutual induction, no depth/width bound): a loaded schema mirrors the document (same nesting, property order, node kind by keyword dispatch order), json() gives the document back; with unique anchors and no title shadowing every $ref, backward or forward, resolves to the node bearing the anchor and a dangling one is a ValueError; DNav navigation equals plain indexing for every instance and path, name on non-object / index on non-array is TypeError. "
        "The ATOMIC set is regenerated from the source; correspondence on grammar-generated documents incl. overlapping keywords, dangling and forward references.",
   note="Modelled by hand: SchemaMaker.walk_schema/resolve/from_json, Schema wrappers' dereferencing, DNav. Object identity of ref_to is modelled as the path of the target node. Known finding K-title-shadows-anchor (name_cache keyed by title when no $anchor), with refutation theorems.",
   technique="Coq proof by mutual induction over schema documents + regenerated parameters + sampled differential correspondence",
   design="5/C15"),
 "C16": dict(
   text="Coq theorems over ALL n>=1 (up to CPython's 4300-digit int-to-str limit) and ALL 0<=v<10^n in the three representations: digit_string gives exactly n digits of value v; over ALL d and ALL exact decimals within the 28-digit precision: decimal_places has exponent -d, is within half a unit in the last place, is idempotent, and outside the precision bound raises InvalidOperation; the CONVERSION table (regenerated from the source) yields the named types. "
        "Correspondence exhaustive for n<=3/4 in 3 representations, boundary and random to n=20, d in 0..12 with float/str/int/Decimal arguments incl. ties.",
   note="Modelled by hand: int(), str(int), negative slicing, Decimal.quantize under ROUND_HALF_EVEN with the default context. Decimal(x) and as_tuple() are trusted stdlib conversions used to serialise arguments.",
   technique="Coq proof by induction on the digit expansion / Euclidean division lemmas (lia, nia) + regenerated table + exhaustive-small and sampled differential correspondence",
   design="5/C16"),
 "C02": dict(
   text="Coq theorems over ALL digit strings (<=28 digits), ALL valid sign nibbles, ALL pictures and ALL values of the width: packed, zoned and big-endian binary encodings decode to exactly the stored value with the picture's scale; every byte string decodes to its CP037 text, injectively (256-entry table regenerated from the codec). "
        "The model's constants (usage tuples, sign nibbles, thresholds, digit validation, DOTALL) are regenerated from estruct.py each run; correspondence is exhaustive for 1-2 byte packed/zoned buffers, all halfwords, all text bytes, sampled beyond, also through the schema/nav path.",
   note="Modelled by hand: estruct.unpack for pictures S?9(m)V9(n) and X(k), Decimal multiplication under the default context, struct.unpack big-endian. Picture text -> (signed,m,n) is C13's concern. Known finding K-packed-prec (29-31 digit packed values rounded to 28 digits).",
   technique="Coq proof by induction on digit lists / byte width + regenerated parameters + exhaustive-small and sampled differential correspondence",
   design="5/C02"),
 "C04": dict(
   text="Coq theorem by complete enumeration of the finite space the property names (13 USAGE spellings x signed x (m,n), 4914 configurations, the list appears in the statement and is proved complete): size function = listed width, decoder accepts it, Struct and Text readers agree - outside three exactly characterised known-bad families, each proved to fail. "
        "Correspondence runs the real code on all 4914 configurations x 8 reports (calcsize, decoder, maxLength, minLength, Location size, record end, Struct, Text) every run.",
   note="Finite domain, so forallb by vm_compute lifted with forallb_forall is a proof. Known findings: K-signed-binary-size (pinned by the project's tests), K-float-no-decoder, K-struct-packed; a known verdict requires exactly the pinned wrong behaviour.",
   technique="Coq proof by complete finite enumeration (vm_compute + forallb_forall) + regenerated parameters + exhaustive differential correspondence",
   design="5/C04"),
 "C18": dict(
   text="Coq theorems over ALL byte strings of the field's width, all pictures up to 27/28 digits: packed and zoned decoding yields an error or a decimal with exactly the declared scale and fewer than 10^(m+n) in magnitude, outside the two residual families (pad nibble of even-digit packed items, sign-position byte of signed DISPLAY items) which are proved to violate the full statement. "
        "Correspondence: all 256 one-byte and all 65536 two-byte buffers per picture family, random/nibble-boundary patterns to 28 digits.",
   note="Same model as C02. Known findings K-pad-nibble and K-sign-position; a known verdict requires the pinned behaviour (right scale, exactly one digit too many).",
   technique="Coq proof by induction on the buffer (digit count bounds the value) + regenerated parameters + exhaustive-to-width-2 differential correspondence",
   design="5/C18"),
 "C09": dict(
   text="Coq theorems over ALL sheets (any row lengths), ALL column permutations, ALL ragged rows: rows delivered = physical rows after the header, once, in order; by-name access returns the cell under the header or the absent marker; permuting columns changes no by-name value; values() is the cells in header order padded with absent; external (name, description, type) schemas give positions 0..n-1 and read like the hand-written schema. "
        "Correspondence on generated tables as CSV and XLSX incl. permutation pairs and external-schema sheets.",
   note="Modelled by hand: Sheet.row_iter two-phase iteration, HeadingRowSchemaLoader, WBNav.name/value, Row.values, ExternalSchemaLoader under the documented META_SCHEMA protocol; name_cleaner is the C17 model. csv/openpyxl parsers are outside the model (the judge derives the physical sheet from the written table). Domain: distinct header names, text headers.",
   technique="Coq proof by induction over rows/columns (Permutation, NoDup) + sampled differential correspondence over two file formats",
   design="5/C09"),
 "C17": dict(
   text="Machine-checked proof (Coq) over all strings that the model of name_cleaner terminates within its fuel, never raises, returns '' or a legal anchor, fixes legal names and is idempotent; "
        "the model's character classes and regex flags are regenerated from the source on every run and the model is run against the implementation exhaustively (12-symbol alphabet, length<=4/5) plus random Unicode.",
   note="Python `re` semantics of the single pattern and str.replace are modelled by hand (coq/Model/NameCleaner.v) and tied by the exhaustive/random correspondence run.",
   technique="Coq proof by induction on a decreasing measure + regenerated parameters + exhaustive differential correspondence",
   design="5/C17"),
}
checks = []
for p in ALL:
    if p in CLAIMED:
        c = CLAIMED[p]
        checks.append(dict(property_id=p, quick_cmd=f"./check {p} --tier quick", thorough_cmd=f"./check {p} --tier thorough",
                           evidence_file=f"/verif/evidence/{p}.json", replay_cmd_template=f"./check {p} --replay {{path}}",
                           engine="coq-judge", level_claimed=dict(category="proof", text=c["text"], design_ref=c["design"]),
                           level_note=COMMON_NOTE + c["note"], technique=c["technique"]))
manifest = dict(
    version=1,
    setup_cmd="./check --setup",
    hooks=dict(guard="STINGRAY_READER_VERIF", enable="no source hooks exist; checks export STINGRAY_READER_VERIF=1 but /repo never reads it",
               baseline_off_cmd="/venv/bin/python /verif/harness/baseline.py", source_commits=[], add_only=True),
    engines=[dict(name="coq-judge-C12b", path="/verif/coq/Props/C12b.v", serves_properties=["C12"],
                  kind_free_text="second engine of C12 (./check C12 runs it after the first): model of cobol_parser's clause regular expression, theorems coq/Props/C12b.v, judge coq/Judge/JC12b.v, runner harness/c12b.py; its counts are merged into evidence/C12.json under coverage.engines"),
             dict(name="coq-judge", path="/verif/coq", serves_properties=sorted(CLAIMED),
                  kind_free_text="Coq 8.16 development (Model/Spec/Proofs/Props) + per-property judge extracted to OCaml, driven by harness/lib.py")],
    checks=checks,
    notes="See DESIGN.md. Fix commits in /repo are listed in known_findings.json ('fixed').",
    not_applicable=[dict(property_id=p, reason="check not built yet in this round (planned, see DESIGN.md section 5)") for p in ALL if p not in CLAIMED],
)
json.dump(manifest, open(os.path.join(HERE, "MANIFEST.json"), "w"), indent=1)
print("claimed:", sorted(CLAIMED))
