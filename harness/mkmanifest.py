#!/venv/bin/python
"""Writes /verif/MANIFEST.json from the table below (one entry per claimed property)."""
import json, os
HERE = os.path.dirname(os.path.dirname(os.path.abspath(__file__)))
ALL = [f"C{i:02d}" for i in range(1, 19)]
COMMON_NOTE = ("Trusted: Coq 8.16.1 kernel (vm_compute, no native_compute); no axioms (Print Assumptions under every theorem, copied to the evidence); "
               "extraction via ExtrOcamlBasic only + coq/Extract/driver.ml, cross-checked by vm_compute on a sample every run; "
               "harness/translate.py (T1) and the per-property runner harness/cNN.py (T2 canonicalisation). ")
CLAIMED = {
 "C17": dict(
   text="Machine-checked proof (Coq) over all strings that the model of name_cleaner terminates within its fuel, never raises, returns '' or a legal anchor, fixes legal names and is idempotent; "
        "the model's character classes and regex flags are regenerated from the source on every run and the model is run against the implementation exhaustively (12-symbol alphabet, length<=4/5) plus random Unicode.",
   note="Python `re` semantics of the single pattern and str.replace are modelled by hand (coq/Model/NameCleaner.v) and tied by the exhaustive/random correspondence run.",
   technique="Coq proof by induction on a decreasing measure + regenerated parameters + exhaustive differential correspondence",
   design="5/C17"),
}
checks = []
for p in ALL:
    if p in CLAIMED:
        c = CLAIMED[p]
        checks.append(dict(property_id=p, quick_cmd=f"./check {p} --tier quick", thorough_cmd=f"./check {p} --tier thorough",
                           evidence_file=f"/verif/evidence/{p}.json", replay_cmd_template=f"./check {p} --replay {{path}}",
                           engine="coq-judge", level_claimed=dict(category="proof", text=c["text"], design_ref=c["design"]),
                           level_note=COMMON_NOTE + c["note"], technique=c["technique"]))
manifest = dict(
    version=1,
    setup_cmd="./check --setup",
    hooks=dict(guard="STINGRAY_READER_VERIF", enable="no source hooks exist; checks export STINGRAY_READER_VERIF=1 but /repo never reads it",
               baseline_off_cmd="/venv/bin/python /verif/harness/baseline.py", source_commits=[], add_only=True),
    engines=[dict(name="coq-judge", path="/verif/coq", serves_properties=sorted(CLAIMED),
                  kind_free_text="Coq 8.16 development (Model/Spec/Proofs/Props) + per-property judge extracted to OCaml, driven by harness/lib.py")],
    checks=checks,
    notes="See DESIGN.md. Fix commits in /repo are listed in known_findings.json ('fixed').",
    not_applicable=[dict(property_id=p, reason="check not built yet in this round (planned, see DESIGN.md section 5)") for p in ALL if p not in CLAIMED],
)
json.dump(manifest, open(os.path.join(HERE, "MANIFEST.json"), "w"), indent=1)
print("claimed:", sorted(CLAIMED))
