#!/venv/bin/python
"""Writes /verif/MANIFEST.json from the table below (one entry per claimed property)."""
import json, os
HERE = os.path.dirname(os.path.dirname(os.path.abspath(__file__)))
ALL = [f"C{i:02d}" for i in range(1, 19)]
COMMON_NOTE = ("Trusted: Coq 8.16.1 kernel (vm_compute, no native_compute); no axioms (Print Assumptions under every theorem, copied to the evidence); "
               "extraction via ExtrOcamlBasic only + coq/Extract/driver.ml, cross-checked by vm_compute on a sample every run; "
               "harness/translate.py (T1) and the per-property runner harness/cNN.py (T2 canonicalisation). ")
CLAIMED = {
 "C02": dict(
   text="Coq theorems over ALL digit strings (<=28 digits), ALL valid sign nibbles, ALL pictures and ALL values of the width: packed, zoned and big-endian binary encodings decode to exactly the stored value with the picture's scale; every byte string decodes to its CP037 text, injectively (256-entry table regenerated from the codec). "
        "The model's constants (usage tuples, sign nibbles, thresholds, digit validation, DOTALL) are regenerated from estruct.py each run; correspondence is exhaustive for 1-2 byte packed/zoned buffers, all halfwords, all text bytes, sampled beyond, also through the schema/nav path.",
   note="Modelled by hand: estruct.unpack for pictures S?9(m)V9(n) and X(k), Decimal multiplication under the default context, struct.unpack big-endian. Picture text -> (signed,m,n) is C13's concern. Known finding K-packed-prec (29-31 digit packed values rounded to 28 digits).",
   technique="Coq proof by induction on digit lists / byte width + regenerated parameters + exhaustive-small and sampled differential correspondence",
   design="5/C02"),
 "C04": dict(
   text="Coq theorem by complete enumeration of the finite space the property names (13 USAGE spellings x signed x (m,n), 4914 configurations, the list appears in the statement and is proved complete): size function = listed width, decoder accepts it, Struct and Text readers agree - outside three exactly characterised known-bad families, each proved to fail. "
        "Correspondence runs the real code on all 4914 configurations x 8 reports (calcsize, decoder, maxLength, minLength, Location size, record end, Struct, Text) every run.",
   note="Finite domain, so forallb by vm_compute lifted with forallb_forall is a proof. Known findings: K-signed-binary-size (pinned by the project's tests), K-float-no-decoder, K-struct-packed; a known verdict requires exactly the pinned wrong behaviour.",
   technique="Coq proof by complete finite enumeration (vm_compute + forallb_forall) + regenerated parameters + exhaustive differential correspondence",
   design="5/C04"),
 "C18": dict(
   text="Coq theorems over ALL byte strings of the field's width, all pictures up to 27/28 digits: packed and zoned decoding yields an error or a decimal with exactly the declared scale and fewer than 10^(m+n) in magnitude, outside the two residual families (pad nibble of even-digit packed items, sign-position byte of signed DISPLAY items) which are proved to violate the full statement. "
        "Correspondence: all 256 one-byte and all 65536 two-byte buffers per picture family, random/nibble-boundary patterns to 28 digits.",
   note="Same model as C02. Known findings K-pad-nibble and K-sign-position; a known verdict requires the pinned behaviour (right scale, exactly one digit too many).",
   technique="Coq proof by induction on the buffer (digit count bounds the value) + regenerated parameters + exhaustive-to-width-2 differential correspondence",
   design="5/C18"),
 "C09": dict(
   text="Coq theorems over ALL sheets (any row lengths), ALL column permutations, ALL ragged rows: rows delivered = physical rows after the header, once, in order; by-name access returns the cell under the header or the absent marker; permuting columns changes no by-name value; values() is the cells in header order padded with absent; external (name, description, type) schemas give positions 0..n-1 and read like the hand-written schema. "
        "Correspondence on generated tables as CSV and XLSX incl. permutation pairs and external-schema sheets.",
   note="Modelled by hand: Sheet.row_iter two-phase iteration, HeadingRowSchemaLoader, WBNav.name/value, Row.values, ExternalSchemaLoader under the documented META_SCHEMA protocol; name_cleaner is the C17 model. csv/openpyxl parsers are outside the model (the judge derives the physical sheet from the written table). Domain: distinct header names, text headers.",
   technique="Coq proof by induction over rows/columns (Permutation, NoDup) + sampled differential correspondence over two file formats",
   design="5/C09"),
 "C17": dict(
   text="Machine-checked proof (Coq) over all strings that the model of name_cleaner terminates within its fuel, never raises, returns '' or a legal anchor, fixes legal names and is idempotent; "
        "the model's character classes and regex flags are regenerated from the source on every run and the model is run against the implementation exhaustively (12-symbol alphabet, length<=4/5) plus random Unicode.",
   note="Python `re` semantics of the single pattern and str.replace are modelled by hand (coq/Model/NameCleaner.v) and tied by the exhaustive/random correspondence run.",
   technique="Coq proof by induction on a decreasing measure + regenerated parameters + exhaustive differential correspondence",
   design="5/C17"),
}
checks = []
for p in ALL:
    if p in CLAIMED:
        c = CLAIMED[p]
        checks.append(dict(property_id=p, quick_cmd=f"./check {p} --tier quick", thorough_cmd=f"./check {p} --tier thorough",
                           evidence_file=f"/verif/evidence/{p}.json", replay_cmd_template=f"./check {p} --replay {{path}}",
                           engine="coq-judge", level_claimed=dict(category="proof", text=c["text"], design_ref=c["design"]),
                           level_note=COMMON_NOTE + c["note"], technique=c["technique"]))
manifest = dict(
    version=1,
    setup_cmd="./check --setup",
    hooks=dict(guard="STINGRAY_READER_VERIF", enable="no source hooks exist; checks export STINGRAY_READER_VERIF=1 but /repo never reads it",
               baseline_off_cmd="/venv/bin/python /verif/harness/baseline.py", source_commits=[], add_only=True),
    engines=[dict(name="coq-judge", path="/verif/coq", serves_properties=sorted(CLAIMED),
                  kind_free_text="Coq 8.16 development (Model/Spec/Proofs/Props) + per-property judge extracted to OCaml, driven by harness/lib.py")],
    checks=checks,
    notes="See DESIGN.md. Fix commits in /repo are listed in known_findings.json ('fixed').",
    not_applicable=[dict(property_id=p, reason="check not built yet in this round (planned, see DESIGN.md section 5)") for p in ALL if p not in CLAIMED],
)
json.dump(manifest, open(os.path.join(HERE, "MANIFEST.json"), "w"), indent=1)
print("claimed:", sorted(CLAIMED))
