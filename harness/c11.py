"""C11 - schemas are immutable and results do not depend on what was processed before.

Every case is a HISTORY of calls (parse copybooks through schema_iter / a long-lived JSONSchemaMaker / COBOLSchemaLoader /
the extended-vocabulary maker, construct makers, SchemaMaker.from_json of literal and of previously generated documents,
build navigators over OCCURS DEPENDING ON records and read through them, keep or drop them, index(), Schema.print,
NDNav.dump, a CSV sheet with a heading-row schema loader) followed by a PROBE.  harness/c11_probe.py runs history + probe in
ONE fresh interpreter and the probe alone in ANOTHER fresh interpreter; both observations, the before/after fingerprints of
every document and loaded Schema the history used, and the model-level description of the calls go to the judge.
This file only generates the cases and starts the processes (in parallel); it compares nothing."""
import concurrent.futures
import json
import os
import subprocess
import sys

import copybook_gen as G
import layout_common as LC

AMBIENT = False   # the histories of this check are the ambient use; the model accounts for every call that touches process-wide state
GEN = ["GlobalsParams", "SchemaMakerParams", "StructureParams", "EffectParams"]
RULE = ("directed histories (the two repaired defects, a parse that raises half way, a kept navigator over an ODO + REDEFINES "
        "record while other records are read, documents with forward $ref, reused makers) and random histories of 3-25 calls "
        "(quick; up to 60 thorough) drawn from: parse one of ~40 copybooks (hand-written fragments without level 01, several "
        "FILLERs, unnamed items, several 01 records, 77 items, a REDEFINES that raises; random forests and random flat fragments) "
        "via schema_iter / long-lived maker / COBOLSchemaLoader / extended-vocabulary maker; construct standard / extended makers "
        "(kept or dropped); from_json (classmethod, instance, extended) of generated documents (clean, with type decimal, with an "
        "unknown type, with $ref) or of a document produced earlier in the history; nav() over records of ~14 generated layouts "
        "with OCCURS DEPENDING ON and REDEFINES (counters varied per record; three hand-written and >= 3 generated layouts have the "
        "ODO table INSIDE a redefined or redefining item), 75% through the ONE long-lived EBCDIC unpacker of the process and the one "
        "loaded schema per copybook (as a sheet does), often several records of the same layout, reading every path incl. index(), "
        "dump(), keep or drop; re-read through a kept navigator; Schema.print / dump_iter / repr; CSV sheet with "
        "HeadingRowSchemaLoader; CSV file without heading row through a hand-written schema WITHOUT position keywords composed, in "
        "varying column order, from per-process shared column sub-documents (sheet.set_schema). "
        "Probe = parse a copybook (35%), load a document (22%), read CSV rows through such a hand-written schema (10%), read a "
        "record (33%, mostly of a layout the history already read, some through a navigator kept by the history). "
        "Branch 0 = empty history; 1x parse probe (+1 FILLER present, +2 fragment without 01), 2x load probe (+1 decimal leaf, "
        "+2 extended maker in the history), 32 read / csv probe. distinct = distinct case lines.")
TRIVIAL_BRANCHES = [0]
ASSUMPTIONS = [
    "the first half of the property (documents and loaded schemas keep their initial state) is a theorem about a heap model "
    "(coq/Props/C11c.v: C11c_document_unchanged, C11c_loaded_schema_unchanged, C11c_current_source) whose tie to the code is the "
    "EFFECT SUMMARY read from the source on every run (harness/t1_c11heap.py -> coq/Gen/EffectParams.v): the classification of "
    "every mutation site of schema_instance.py, workbook.py, implementations.py and the use-side of cobol_parser.py by the root of "
    "the mutated object is TRUSTED, as are the CPython semantics of the constructs it recognises (literals, comprehensions and "
    "constructor calls yield new objects; typing.cast is the identity; attribute assignment never changes a dict or list) and "
    "that functions outside the scanned modules do not mutate the arguments handed to them; the producer pipeline of "
    "cobol_parser is covered only for its class-level writes (its heap is C07b's)",
    "independently of that theorem the first half is checked on the histories of this run, by fingerprints taken when an object "
    "is first seen and after the probe "
    "(document JSON text with key order; class / anchor / ref / ref_to structure and instance attribute names of every Schema "
    "node; every Schema node still aliases its document node; schema.json() is the document)",
    "per-object state (JSONSchemaMaker.names, SchemaMaker.name_cache / fixup_list, LocationMaker.anchors) is not in the model; "
    "that it is per call is checked only differentially (history vs fresh interpreter)",
    "model-level description of a load = the type names of the document's leaves (harness/c11_probe.py leaf_types); generated "
    "documents are otherwise well formed",
    "read probes have no model prediction in this check (agree = true); the layout model is tied to the code by C01",
    "observations are compared through 128-bit BLAKE2b digests of their canonical serialisation",
    "a fresh interpreter = a new python process with PYTHONHASHSEED=0 and only the tree under test on PYTHONPATH",
]
TRUSTED = ["harness/t1_c11heap.py (effect-summary pass: mutation sites and their root classes; fail-closed to coq/Gen/EffectParams.pinned)",
           "harness/c11_probe.py (runtime that executes histories and serialises observations)",
           "harness/layout_common.py / copybook_gen.py generators and printers (inputs only)"]

PROBE = os.path.join(os.path.dirname(os.path.abspath(__file__)), "c11_probe.py")

# ---------------------------------------------------------------- pools

A = "       "
HAND_TEXTS = {
    "frag2": A + "05  FILLER PIC X.\n" + A + "05  FILLER PIC X.\n",
    "frag_unnamed": A + "05  PIC X(3).\n" + A + "05  FILLER PIC 99.\n" + A + "05  NAMED-1 PIC X.\n" + A + "05  PIC X.\n",
    "frag_group": A + "03  GRP-1.\n" + A + "    05  FILLER PIC X(2).\n" + A + "    05  FLD-7 PIC 9.\n" + A + "    05  FILLER PIC X.\n",
    "rec_fillers": A + "01  REC-A.\n" + A + "    05  FILLER PIC X(2).\n" + A + "    05  FLD-1 PIC 9(3).\n" + A + "    05  FILLER PIC X.\n",
    "two_recs": (A + "01  REC-A.\n" + A + "    05  FILLER PIC X.\n" + A + "    05  FILLER PIC X.\n"
                 + A + "01  REC-B.\n" + A + "    05  FILLER PIC XX.\n" + A + "    05  B-1 PIC 9.\n"),
    "frag_then_01": A + "05  FILLER PIC X.\n" + A + "01  REC-C.\n" + A + "    05  FILLER PIC X.\n" + A + "    05  C-1 PIC X.\n",
    "frag_77": A + "77  FILLER PIC X.\n" + A + "77  FILLER PIC X.\n" + A + "77  W-1 PIC 9.\n",
    "bad_redef": (A + "03  GRP-2.\n" + A + "    05  A-1 PIC X.\n" + A + "    05  FILLER PIC X.\n"
                  + A + "    05  B-1 REDEFINES NOPE PIC X.\n" + A + "    05  FILLER PIC X.\n"),
    "no_fillers": A + "01  REC-D.\n" + A + "    05  D-1 PIC X(4).\n" + A + "    05  D-2 PIC S9(3) COMP-3.\n",
    "frag_named": A + "05  E-1 PIC X.\n" + A + "05  E-2 PIC 9(2).\n",
    "redef_ok": (A + "01  REC-E.\n" + A + "    05  E-A PIC X(4).\n" + A + "    05  E-B REDEFINES E-A PIC 9(4).\n"
                 + A + "    05  FILLER PIC X.\n"),
    "frag_redef": (A + "03  GRP-3.\n" + A + "    05  FILLER PIC X.\n" + A + "    05  G-A PIC X(2).\n"
                   + A + "    05  G-B REDEFINES G-A PIC 99.\n" + A + "    05  FILLER PIC X.\n"),
}


def gen_texts(rng, n):
    out = []
    for i in range(n):
        if i % 2 == 0:
            f = G.gen_forest(rng, max_depth=3, max_children=4, budget=rng.choice([5, 9, 14]), p_filler=rng.choice([0.3, 0.6]),
                             p_redefines=rng.choice([0, 0.15]), p_occurs=0.15, p_88=0, p_66=0, p_77=0.1)
            if rng.random() < 0.5 and f[0]["children"]:
                f = f[0]["children"]        # the entries of the first record without their 01: a fragment
                f = [c for c in f if not c["redefines"]] or f
            out.append(G.print_copybook(f, rng=None))
        else:
            ents = []
            for k in range(rng.randint(1, 6)):
                nd = G.node(rng.choice([5, 5, 10, 3, 77]))
                if rng.random() < 0.6:
                    nd["filler"] = rng.random() < 0.6
                else:
                    nd["name"] = f"{rng.choice(G.STEMS)}-{k + 1}"
                nd["pic"], nd["usage"] = rng.choice(G.PICS[:9])
                ents.append(nd)
            if rng.random() < 0.3:
                ents.insert(rng.randint(0, len(ents)), G.node(1, f"REC-{i}"))
            out.append(G.print_copybook(ents, rng=None))
    return out


def el(i, pic, size, **kw):
    d = dict(id=i, kind="elem", pic=pic, usage="DISPLAY", size=size, occ=None, redef=None, filler=False, kids=[])
    d.update(kw)
    return d


def hand_layouts():
    t1 = dict(id=1, kind="group", occ=None, redef=None, filler=False, kids=[
        el(2, "9", 1, is_counter=True), el(3, "X(2)", 2, occ=("odo", 2, 5)), el(4, "X(4)", 4), el(5, "X(4)", 4, redef=4),
        el(6, "X(2)", 2), el(7, "X", 1, filler=True)])
    t2 = dict(id=1, kind="group", occ=None, redef=None, filler=False, kids=[
        el(2, "9", 1, is_counter=True), el(8, "X", 1, filler=True),
        dict(id=3, kind="group", occ=("odo", 2, 3), redef=None, filler=False, kids=[el(4, "X(2)", 2), el(5, "9", 1)]),
        dict(id=6, kind="group", occ=None, redef=None, filler=False, kids=[el(7, "X(3)", 3), el(9, "X", 1, filler=True)]),
        dict(id=10, kind="group", occ=None, redef=6, filler=False, kids=[el(11, "X(2)", 2), el(12, "X(2)", 2)]),
        el(13, "X(2)", 2, occ=("times", 3))])
    return [t1, t2]


# OCCURS DEPENDING ON inside a REDEFINES alternative: offsets inside (or after) the union move with the counter
UNION_TEXTS = [
    # in the REDEFINED item: PAD moves with N, TAIL does not
    (A + "01  R.\n" + A + "    05  N PIC 9.\n" + A + "    05  A.\n"
     + A + "        10  T OCCURS 0 TO 5 TIMES DEPENDING ON N PIC X.\n" + A + "        10  PAD PIC X(5).\n"
     + A + "    05  B REDEFINES A PIC X(10).\n" + A + "    05  TAIL PIC X(3).\n",
     [["N"], ["A"], ["A", "PAD"], ["A", "T"], ["A", "T", 0], ["A", "T", 0, "T"], ["A", "T", 2, "T"], ["A", "T", 4, "T"],
      ["B"], ["TAIL"], ["REDEFINES-A"]]),
    # in the redefiner: TAIL moves with N
    (A + "01  R.\n" + A + "    05  N PIC 9.\n" + A + "    05  A.\n" + A + "        10  A1 PIC X(2).\n"
     + A + "    05  B REDEFINES A.\n" + A + "        10  ITEM OCCURS 1 TO 5 TIMES DEPENDING ON N PIC XX.\n"
     + A + "    05  TAIL PIC X(3).\n",
     [["N"], ["A"], ["A", "A1"], ["B"], ["B", "ITEM"], ["B", "ITEM", 0, "ITEM"], ["B", "ITEM", 1, "ITEM"],
      ["B", "ITEM", 4, "ITEM"], ["TAIL"], ["REDEFINES-A"]]),
    # a group table in the redefiner followed by a field of the same alternative, and a second redefiner
    (A + "01  R.\n" + A + "    05  HDR PIC X(2).\n" + A + "    05  N PIC 9.\n" + A + "    05  A PIC X(4).\n"
     + A + "    05  B REDEFINES A.\n" + A + "        10  G OCCURS 0 TO 3 TIMES DEPENDING ON N.\n"
     + A + "            15  G1 PIC X.\n" + A + "            15  G2 PIC 9(2).\n" + A + "        10  AFTER-G PIC X(2).\n"
     + A + "    05  C REDEFINES A PIC 9(4).\n" + A + "    05  TAIL PIC X(2).\n" + A + "    05  FILLER PIC X.\n",
     [["HDR"], ["N"], ["A"], ["B"], ["B", "G"], ["B", "G", 0], ["B", "G", 0, "G2"], ["B", "G", 2, "G1"], ["B", "AFTER-G"],
      ["C"], ["TAIL"], ["FILLER-1"]]),
]


def union_layouts():
    out = []
    for text, paths in UNION_TEXTS:
        npos = 2 if "HDR" in text else 0
        named = [[[1, x] if isinstance(x, int) else [0, x] for x in p] for p in paths]
        variants = []
        for n in range(0, 6):
            rec = [0xC1 + (i * 5 + n * 3) % 9 if i % 4 else 0xF1 + (i + n) % 9 for i in range(24)]
            rec[npos] = 0xF0 + n
            variants.append((rec, named))
        out.append((text, variants))
    return out


def layout_pool(rng, n):
    """[(text, [(record, paths)])]"""
    pool = []
    trees = hand_layouts()
    tries = 0
    while len(trees) < n + 2 and tries < 400:
        tries += 1
        t = LC.gen_tree(rng, max_depth=3, max_kids=4)
        try:
            LC.print_copybook(t)
        except AssertionError:
            continue
        trees.append(t)
    # generated trees with OCCURS DEPENDING ON tables inside redefined / redefining groups.  The generator's own extent
    # computation does not follow such unions, so these records get spare bytes at the end (nothing here needs the exact
    # length: the same record goes to both interpreters)
    union_ids = set()
    tries = 0
    while len(union_ids) < max(3, n // 3) and tries < 400:
        tries += 1
        t = LC.gen_tree(rng, max_depth=3, max_kids=4, odo_in_union=True)

        def in_union_odo(x, inside):
            inside = inside or x["redef"] is not None
            return (inside and x["occ"] is not None and x["occ"][0] == "odo") or any(in_union_odo(k, inside) for k in x["kids"])
        bases = set()

        def redefined(x):
            for k in x["kids"]:
                if k["redef"] is not None:
                    bases.add(k["redef"])
                redefined(k)
        redefined(t)

        def base_odo(x):
            return (x["id"] in bases and LC.contains_odo(x)) or any(base_odo(k) for k in x["kids"])
        if not (in_union_odo(t, False) or base_odo(t)):
            continue
        try:
            LC.print_copybook(t)
        except AssertionError:
            continue
        trees.append(t)
        union_ids.add(id(t))
    for t in trees:
        names = LC.assign_names(t)
        text = LC.print_copybook(t)
        variants = []
        for _ in range(4):
            env = LC.choose_counts(t, rng)
            total, counters, paths = LC.layout(t, env)
            if total > 400:
                continue
            rec = LC.make_record(total, counters, env, False)
            if id(t) in union_ids:
                rec = rec + [0xC1 + (i * 7) % 9 for i in range(24)]
            named = [[[0, names[x]] if k == 0 else [1, x] for k, x in p] for p in paths if p]
            if len(named) > 40:
                named = rng.sample(named, 40)
            variants.append((rec, named))
        if variants:
            pool.append((text, variants))
    return pool + union_layouts()


ATOMS = ["string", "integer", "number", "boolean", "null"]


def gen_doc(rng, flavour):
    """flavour: clean | decimal | bogus | ref"""
    k = [0]

    def name():
        k[0] += 1
        return f"F{k[0]}"
    special = {"decimal": "decimal", "bogus": "money"}.get(flavour)
    slots = []

    def atom():
        n = name()
        d = {"title": n, "$anchor": n, "type": rng.choice(ATOMS)}
        if rng.random() < 0.3:
            d["cobol"] = f"05 {n} PIC X({rng.randint(1, 9)})"
        slots.append(d)
        return n, d

    def obj(depth):
        props = {}
        for _ in range(rng.randint(1, 4)):
            r = rng.random()
            if r < 0.2 and depth < 2:
                n = name()
                props[n] = {"title": n, "$anchor": n, **obj(depth + 1)}
            elif r < 0.35 and depth < 2:
                n = name()
                inner_n, inner = atom()
                props[n] = {"title": n, "type": "array", "maxItems": rng.randint(1, 4),
                            "items": {"type": "object", "properties": {inner_n: inner}}}
            else:
                n, d = atom()
                props[n] = d
        return {"type": "object", "properties": props}
    doc = obj(0)
    doc["title"] = "DOC"
    doc["$anchor"] = "DOC"
    if special:
        rng.choice(slots)["type"] = special
        if rng.random() < 0.3:
            rng.choice(slots)["type"] = special
    if flavour == "ref":
        names = [s["$anchor"] for s in slots]
        props = doc["properties"]
        items = list(props.items())
        back = {"title": "BACK", "$ref": "#" + rng.choice(names)}
        fwd = {"title": "FWD", "$ref": "#" + rng.choice(names)}
        doc["properties"] = dict([("FWD", fwd)] + items + [("BACK", back)])
    return doc


DECIMAL_DOC = {"title": "REC", "$anchor": "REC", "type": "object", "properties": {
    "AMT": {"title": "AMT", "$anchor": "AMT", "cobol": "05 AMT PIC S9(5)V99 COMP-3", "type": "decimal"},
    "TXT": {"title": "TXT", "$anchor": "TXT", "cobol": "05 TXT PIC X(3)", "type": "string"}}}
CLEAN_DOC = {"title": "REC", "$anchor": "REC", "type": "object", "properties": {
    "AMT": {"title": "AMT", "$anchor": "AMT", "cobol": "05 AMT PIC S9(5)V99 COMP-3", "type": "string",
            "contentEncoding": "packed-decimal", "conversion": "decimal"}}}

CSV_ROWS = [[["Name", "Zip Code", "Amount ($)"], ["a", "12345", "1.50"], ["b", "54321", "2"]],
            [["x"], ["1"], ["2"], ["3"]],
            [["Col A", "Col A2", "C"], ["p", "q", "r"]]]


CSV_COLS = ["name", "amount", "zip", "code"]


class Pools:
    def __init__(self, rng, thorough):
        self.rng = rng
        self.texts = list(HAND_TEXTS.values()) + gen_texts(rng, 40 if thorough else 26)
        self.layouts = layout_pool(rng, 24 if thorough else 12)
        self.docs = [DECIMAL_DOC, CLEAN_DOC]
        for fl in ["clean"] * 5 + ["decimal"] * 5 + ["bogus"] * 2 + ["ref"] * 3:
            self.docs.append(gen_doc(rng, fl))

    def text(self):
        rng = self.rng
        return rng.choice(self.texts[:len(HAND_TEXTS)]) if rng.random() < 0.5 else rng.choice(self.texts)

    def doc(self):
        # a private copy per use: the probe process and the history process must not share anything anyway
        return json.loads(json.dumps(self.rng.choice(self.docs)))

    def nav(self, history=()):
        """a record of some layout; often another record of a layout the history has already read (same sheet)"""
        rng = self.rng
        used = [o["text"] for o in history if o.get("op") == "nav"]
        by_text = dict(self.layouts)
        r = rng.random()
        if r < 0.15:
            text, variants = rng.choice(self.layouts[-len(UNION_TEXTS):])
        elif used and r < 0.55:
            text = rng.choice(used)
            variants = by_text[text]
        else:
            text, variants = rng.choice(self.layouts)
        rec, paths = rng.choice(variants)
        return text, rec, paths

    def csv_plain(self):
        rng = self.rng
        cols = rng.sample(CSV_COLS, rng.randint(2, 4))
        rows = [[f"{c}-{i}" for c in cols] for i in range(rng.randint(1, 3))]
        return cols, rows


def random_op(p, rng, history=()):
    r = rng.random()
    if r < 0.25:
        return {"op": "parse", "text": p.text(), "via": rng.choice(["schema_iter"] * 5 + ["maker"] * 3 + ["loader", "ext", "ext"])}
    if r < 0.37:
        return {"op": rng.choice(["make_std", "make_std", "make_ext", "make_ext"]), "keep": rng.random() < 0.6}
    if r < 0.55:
        via = rng.choice(["class", "class", "instance", "ext"])
        if rng.random() < 0.6:
            return {"op": "load", "doc": p.doc(), "via": via}
        return {"op": "load", "doc": None, "ref": rng.randint(0, 50), "via": via}
    if r < 0.76:
        text, rec, paths = p.nav(history)
        return {"op": "nav", "text": text, "record": rec, "paths": paths, "keep": rng.random() < 0.5, "dump": rng.random() < 0.2,
                "unp": "shared" if rng.random() < 0.75 else "new"}
    if r < 0.81:
        return {"op": "reread", "k": rng.randint(0, 20)}
    if r < 0.85:
        return {"op": "drop"}
    if r < 0.89:
        return {"op": "print", "k": rng.randint(0, 20)}
    if r < 0.93:
        return {"op": "csv", "rows": rng.choice(CSV_ROWS)} if rng.random() < 0.6 else {"op": "helpers"}
    cols, rows = p.csv_plain()
    return {"op": "csv_schema", "cols": cols, "rows": rows}


def random_probe(p, rng, history):
    r = rng.random()
    if r < 0.35:
        return {"probe": "parse", "text": p.text(), "via": rng.choice(["schema_iter", "schema_iter", "maker"])}
    if r < 0.57:
        return {"probe": "load", "doc": p.doc()}
    if r < 0.67:
        cols, rows = p.csv_plain()
        return {"probe": "csv_read", "cols": cols, "rows": rows}
    kept = [o for o in history if o["op"] == "nav" and o.get("keep")]
    if kept and rng.random() < 0.4:
        o = rng.choice(kept)
        return {"probe": "read", "text": o["text"], "record": o["record"], "paths": o["paths"], "use_kept": rng.random() < 0.8,
                "unp": "shared"}
    text, rec, paths = p.nav(history)
    return {"probe": "read", "text": text, "record": rec, "paths": paths, "use_kept": rng.random() < 0.5,
            "unp": "shared" if rng.random() < 0.8 else "new"}


def directed(p):
    T = HAND_TEXTS
    par = lambda name, via="schema_iter": {"op": "parse", "text": T[name], "via": via}
    pp = lambda name, via="schema_iter": {"probe": "parse", "text": T[name], "via": via}
    out = []
    # the two repaired defects
    out.append({"history": [par("frag2")], "probe": pp("frag2")})
    out.append({"history": [{"op": "make_ext", "keep": False}], "probe": {"probe": "load", "doc": DECIMAL_DOC}})
    out.append({"history": [{"op": "make_ext", "keep": True}], "probe": {"probe": "load", "doc": DECIMAL_DOC}})
    out.append({"history": [par("rec_fillers", "ext")], "probe": {"probe": "load", "doc": DECIMAL_DOC}})
    out.append({"history": [{"op": "load", "doc": DECIMAL_DOC, "via": "ext"}], "probe": {"probe": "load", "doc": DECIMAL_DOC}})
    # counters left behind by other shapes
    out.append({"history": [par("rec_fillers")], "probe": pp("frag_unnamed")})
    out.append({"history": [par("bad_redef")], "probe": pp("frag2")})
    out.append({"history": [par("frag_77"), par("frag_77")], "probe": pp("frag_77")})
    out.append({"history": [par("two_recs"), par("frag_group", "maker")], "probe": pp("frag_group", "maker")})
    out.append({"history": [par("frag_then_01", "loader"), par("frag_redef")], "probe": pp("frag_redef")})
    out.append({"history": [{"op": "make_std", "keep": True}, par("redef_ok", "maker"), par("frag_redef", "maker")],
                "probe": pp("redef_ok", "maker")})
    # one long-lived maker, two different copybooks whose items get the same unique names
    out.append({"history": [{"op": "make_std", "keep": True}, par("frag2", "maker")], "probe": pp("frag_unnamed", "maker")})
    out.append({"history": [{"op": "make_std", "keep": True}, par("rec_fillers", "maker"), par("two_recs", "maker")],
                "probe": pp("two_recs", "maker")})
    out.append({"history": [{"op": "make_std", "keep": True}, par("two_recs", "maker"), par("frag_then_01", "maker")],
                "probe": {"probe": "parse", "text": T["two_recs"].replace("PIC XX", "PIC X(7)").replace("B-1", "B-2"), "via": "maker"}})
    # the generated document is loaded, printed, used; then parsed again
    out.append({"history": [par("redef_ok"), {"op": "load", "doc": None, "ref": 0, "via": "class"}, {"op": "print", "k": 0},
                            {"op": "load", "doc": None, "ref": 0, "via": "instance"}], "probe": pp("redef_ok")})
    # a fixed layout (no OCCURS DEPENDING ON): record B read through the Location tree of the navigator kept for record A
    FIXED = ("       01  F-REC.\n           05  F-ID PIC 9(4).\n           05  F-AMT PIC S9(5)V99 COMP-3.\n"
             "           05  F-TAB OCCURS 2 TIMES.\n               10  F-CODE PIC XX.\n               10  F-QTY PIC S9(3) COMP.\n"
             "           05  F-NAME PIC X(5).\n           05  F-ALT REDEFINES F-NAME PIC 9(5).\n")
    fpaths = [[[0, "F-ID"]], [[0, "F-AMT"]], [[0, "F-TAB"], [1, 0], [0, "F-CODE"]], [[0, "F-TAB"], [1, 1], [0, "F-QTY"]], [[0, "F-NAME"]], [[0, "F-ALT"]]]
    frec = lambda k: ([0xF0 + (k + i) % 10 for i in range(4)] + [0x10 + k, 0x23, 0x45, 0x6C + (k % 2)]
                      + [0xC1 + k, 0xC2, 0x00, k, 0xC3, 0xC4 + k, 0x01, 0x02 + k] + [0xF1 + (k + i) % 9 for i in range(5)])
    fnav = lambda k, keep: {"op": "nav", "text": FIXED, "record": frec(k), "paths": fpaths, "keep": keep, "dump": False}
    for hist in ([fnav(1, True)], [fnav(1, True), {"op": "reread", "k": 0}], [fnav(2, True), fnav(3, False), {"op": "helpers"}]):
        out.append({"history": hist, "probe": {"probe": "read", "text": FIXED, "record": frec(5), "paths": fpaths, "use_kept": False,
                                               "tree_of_kept": True}})
    # kept navigators over ODO + REDEFINES records while other records are read
    for text, variants in p.layouts[:2]:
        recs = variants[:3]
        if len(recs) >= 2:
            (r0, p0), (r1, p1) = recs[0], recs[1]
            nav = lambda r, pa, keep: {"op": "nav", "text": text, "record": r, "paths": pa, "keep": keep, "dump": False}
            for use_kept in (True, False):
                out.append({"history": [nav(r0, p0, True), nav(r1, p1, True), {"op": "reread", "k": 1}],
                            "probe": {"probe": "read", "text": text, "record": r0, "paths": p0, "use_kept": use_kept}})
            out.append({"history": [nav(r0, p0, True), nav(r1, p1, False), {"op": "drop"}, nav(r1, p1, True)],
                        "probe": {"probe": "read", "text": text, "record": r1, "paths": p1, "use_kept": True}})
            out.append({"history": [nav(r1, p1, False)] * 3 + [{"op": "print", "k": 0}],
                        "probe": {"probe": "read", "text": text, "record": r0, "paths": p0, "use_kept": False}})
    # one long-lived unpacker, one loaded schema, records with DIFFERENT counters, ODO inside a REDEFINES alternative
    for text, variants in p.layouts[-len(UNION_TEXTS):]:
        nav = lambda n, keep=False, unp="shared": {"op": "nav", "text": text, "record": variants[n][0], "paths": variants[n][1],
                                                    "keep": keep, "dump": False, "unp": unp}
        rd = lambda n, unp="shared": {"probe": "read", "text": text, "record": variants[n][0], "paths": variants[n][1],
                                      "use_kept": False, "unp": unp}
        out.append({"history": [nav(3), nav(1)], "probe": rd(2)})
        out.append({"history": [nav(1)], "probe": rd(4)})
        out.append({"history": [nav(5, keep=True), nav(0), nav(2, keep=True)], "probe": rd(1)})
        out.append({"history": [nav(2), nav(2)], "probe": rd(3, "new")})
    # wide numeric items (more digits than the default decimal precision) read before and after unrelated work: a 31-digit packed
    # field, a 30-digit zoned field whose low digits are not zero, the conversion helpers on floats in between
    WIDE = ("       01  W-REC.\n           05  W-P PIC S9(31) COMP-3.\n           05  W-Z PIC 9(20)V9(10).\n"
            "           05  W-Q PIC S9(17)V99 COMP-3.\n")
    wrec = ([0x12, 0x34, 0x56, 0x78, 0x90] * 3 + [0x1D]) + [0xF0 + (i * 7 + 3) % 10 for i in range(30)] + [0x98, 0x76, 0x54, 0x32, 0x10, 0x98, 0x76, 0x54, 0x32, 0x1C]
    wnav = lambda paths: {"op": "nav", "text": WIDE, "record": wrec, "paths": paths, "keep": False, "dump": False}
    wrd = lambda paths: {"probe": "read", "text": WIDE, "record": wrec, "paths": paths, "use_kept": False}
    out.append({"history": [wnav([[[0, "W-P"]]])], "probe": wrd([[[0, "W-Z"]], [[0, "W-Q"]]])})
    out.append({"history": [wnav([[[0, "W-Z"]]]), {"op": "helpers"}], "probe": wrd([[[0, "W-P"]], [[0, "W-Z"]], [[0, "W-Q"]]])})
    out.append({"history": [{"op": "helpers"}], "probe": wrd([[[0, "W-Z"]], [[0, "W-Q"]], [[0, "W-P"]]])})
    out.append({"history": [{"op": "helpers"}, wnav([[[0, "W-P"]], [[0, "W-Q"]]]), {"op": "helpers"}], "probe": wrd([[[0, "W-Z"]]])})
    # CSV files without heading row read through hand-written schemas WITHOUT position keywords that are composed
    # from shared column sub-documents in different orders
    cs = lambda cols: {"op": "csv_schema", "cols": cols, "rows": [[f"{c}-{i}" for c in cols] for i in range(2)]}
    cr = lambda cols: {"probe": "csv_read", "cols": cols, "rows": [[f"{c}-{i}" for c in cols] for i in range(2)]}
    out.append({"history": [cs(["name", "amount"])], "probe": cr(["amount", "name"])})
    out.append({"history": [cs(["name", "amount"])], "probe": cr(["name", "amount"])})
    out.append({"history": [cs(["zip", "name", "amount"]), cs(["amount", "zip"]), {"op": "print", "k": 0}],
                "probe": cr(["name", "zip", "amount", "code"])})
    out.append({"history": [cs(["code", "zip"]), {"op": "csv", "rows": CSV_ROWS[0]}], "probe": {"probe": "load", "doc": CLEAN_DOC}})
    # documents with references, loaded repeatedly
    refdocs = [d for d in p.docs if "FWD" in d.get("properties", {})]
    for d in refdocs[:2]:
        out.append({"history": [{"op": "load", "doc": d, "via": "class"}, {"op": "load", "doc": None, "ref": 0, "via": "instance"},
                                {"op": "print", "k": 0}], "probe": {"probe": "load", "doc": d}})
    out.append({"history": [{"op": "csv", "rows": CSV_ROWS[0]}, {"op": "csv", "rows": CSV_ROWS[2]}],
                "probe": {"probe": "load", "doc": CLEAN_DOC}})
    # empty histories (branch 0): the probe against itself
    out.append({"history": [], "probe": pp("two_recs")})
    out.append({"history": [], "probe": {"probe": "load", "doc": DECIMAL_DOC}})
    return json.loads(json.dumps(out))


_PLANNED = []
_RESULTS = {}
_STATE = {"ran": False}


def inputs(ctx):
    rng = ctx.rng
    thorough = ctx.tier != "quick"
    p = Pools(rng, thorough)
    cases = [("directed", c) for c in directed(p)]
    n = 2000 if thorough else 290
    for i in range(n):
        longest = 60 if (thorough and i % 4 == 0) else 25
        k = rng.randint(3, longest)
        hist = []
        for _ in range(k):
            hist.append(random_op(p, rng, hist))
        cases.append(("random", {"history": hist, "probe": random_probe(p, rng, hist)}))
    _PLANNED[:] = [c for _, c in cases]
    yield from cases


# ---------------------------------------------------------------- running


def key(inp):
    return json.dumps(inp, sort_keys=True)


def run_job(src, job):
    env = {"PYTHONPATH": src, "PYTHONHASHSEED": "0", "PYTHONDONTWRITEBYTECODE": "1", "PATH": os.environ.get("PATH", ""),
           "STINGRAY_READER_VERIF": "1"}
    if os.environ.get("C11_DEBUG"):
        env["C11_DEBUG"] = "1"
    try:
        p = subprocess.run([sys.executable, PROBE], input=json.dumps(job), env=env, stdout=subprocess.PIPE,
                           stderr=subprocess.PIPE, text=True, timeout=300)
    except subprocess.TimeoutExpired:
        return {"crash": "timeout"}
    if p.returncode != 0:
        return {"crash": p.stderr[-1500:]}
    try:
        return json.loads(p.stdout)
    except ValueError:
        return {"crash": "unreadable output " + p.stdout[-300:]}


def run_case(src, inp):
    return run_job(src, inp), run_job(src, {"history": [], "probe": inp["probe"]})


def run_all(ctx):
    workers = max(2, min(14, (os.cpu_count() or 4) - 2))
    with concurrent.futures.ThreadPoolExecutor(max_workers=workers) as ex:
        futs = {key(c): ex.submit(run_case, ctx.src, c) for c in _PLANNED}
        for k, f in futs.items():
            _RESULTS[k] = f.result()


KIND = {"parse": 0, "load": 1, "read": 2, "csv_read": 2}


def observe(ctx, inp):
    k = key(inp)
    if k not in _RESULTS:
        if _PLANNED and not _STATE["ran"]:
            _STATE["ran"] = True
            run_all(ctx)
        if k not in _RESULTS:
            _RESULTS[k] = run_case(ctx.src, inp)
    hist, fresh = _RESULTS.pop(k)
    if os.environ.get("C11_DEBUG"):
        print("history run:", json.dumps(hist.get("report", hist.get("crash")))[:6000], file=sys.stderr)
        print("fresh run  :", json.dumps(fresh.get("report", fresh.get("crash")))[:6000], file=sys.stderr)
    kind = KIND[inp["probe"]["probe"]]
    # a process that died is an observation too: never equal to anything
    oh = hist["obs"] if "obs" in hist else [-1, [2]]
    of = fresh["obs"] if "obs" in fresh else [-2, [2]]
    return [kind, hist.get("mhist", []), fresh.get("mprobe", []), oh, of, hist.get("immut", []) + fresh.get("immut", [])]


def describe(inp):
    def short(o):
        o = dict(o)
        for f in ("record", "paths"):
            if f in o:
                o[f] = f"<{len(o[f])}>"
        if "doc" in o and o["doc"] is not None:
            o["doc"] = json.dumps(o["doc"])[:160]
        if "rows" in o:
            o["rows"] = f"<{len(o['rows'])} rows>"
        return o
    return {"history": [short(o) for o in inp["history"]], "probe": short(inp["probe"])}
