"""C15 - JSON Schema is mirrored one-to-one; JSON instances navigate like plain indexing
(schema_instance.SchemaMaker / Schema wrappers / DNav).

The runner only serialises: the document before loading, the object graph from_json built (class
of each node, its .json(), children in order, the path of the object every ref_to / max_ref_to
points at, found by identity), and the value or exception class of each DNav navigation.  All
expectations are computed by the Coq judge (coq/Judge/JC15.v)."""
import copy
import itertools
import json
from lib import S, observe_call

GEN = ["SchemaMakerParams"]
RULE = ("documents generated from the keyword grammar (depth <= 5, width <= 5, <= 40 nodes; anchors before or after "
        "their references, self/ancestor references, reference chains; dangling references injected; maxItemsDependsOn "
        "with the counter declared before the table or inside its items (stream depends), after it / the table itself / "
        "an enclosing sub-schema (stream depends-forward), nowhere (stream depends-dangling), any of these (depends-mixed), "
        "the bound max_ref_to compared; overlapping keywords, empty oneOf / empty $ref, missing type, arrays without items; title-only, "
        "duplicate-title, title-equals-anchor and duplicate-anchor nodes), each with a generated instance and 6-10 paths "
        "(valid, negative, out of range, wrong step kind, missing names); exhaustive single-node keyword dispatch "
        "(720 keyword combinations x anchor before/after). Non-trivial = document with more than one node (branch != 0); "
        "distinct = distinct case lines.")
TRIVIAL_BRANCHES = [0]
ASSUMPTIONS = [
    "a Schema object is identified with the path of the document node it was made from (one walk_schema call per node); "
    "the runner finds ref_to targets by identity search over the loaded graph",
    "keywords other than oneOf, $ref, type, items, properties, $anchor, title, maxItemsDependsOn do not influence walk_schema "
    "(they travel as opaque text and are compared for .json() equality; the generator adds them as noise)",
    "keyword values are of the JSON type the vocabulary gives them (type/$ref/$anchor/title strings, oneOf a list, items and "
    "properties values dicts, maxItemsDependsOn a dict with a string $ref)",
    "Python list/dict/str indexing of parsed JSON (modelled in coq/Model/SchemaMaker.v py_getitem, tied by this run); no floats",
    "a reference cycle is reported by Python as RecursionError (a RuntimeError); chains shorter than the recursion limit",
]
TRUSTED = ["harness/t1_c15.py (ATOMIC set extraction)"]

KNOWN_KEYS = ("oneOf", "$ref", "type", "items", "properties", "$anchor", "title", "maxItemsDependsOn")
CLASSES = {"AtomicSchema": 1, "ArraySchema": 2, "DependsOnArraySchema": 3, "ObjectSchema": 4, "OneOfSchema": 5,
           "RefToSchema": 6}
ATOMS = ["string", "integer", "number", "boolean", "null"]

# ------------------------------------------------------------------ serialisation (no expectations here)


def ostr(d, key):
    return [S(d[key])] if key in d and isinstance(d[key], str) else []


def enc_doc(d):
    if not isinstance(d, dict):
        return [[[], [], [], [], [], [[S("!"), S(json.dumps(d, default=str))]]], [], [], []]
    extra = []
    mido = []
    for k, v in d.items():
        bad = False
        if k in ("$ref", "type", "$anchor", "title"):
            bad = not isinstance(v, str)
        elif k == "oneOf":
            bad = not isinstance(v, list)
        elif k in ("items", "properties"):
            bad = not isinstance(v, dict)
        elif k == "maxItemsDependsOn":
            bad = not (isinstance(v, dict) and isinstance(v.get("$ref"), str) and len(v) == 1)
            if not bad:
                mido = [S(v["$ref"])]
        else:
            extra.append([S(k), S(json.dumps(v, default=str))])
        if bad:
            extra.append([S("!" + k), S(json.dumps(v, default=str))])
    scal = [ostr(d, "$ref"), ostr(d, "type"), ostr(d, "$anchor"), ostr(d, "title"), mido, extra]
    one = [[enc_doc(x) for x in d["oneOf"]]] if isinstance(d.get("oneOf"), list) else []
    items = [enc_doc(d["items"])] if isinstance(d.get("items"), dict) else []
    props = [[[S(k), enc_doc(v)] for k, v in d["properties"].items()]] if isinstance(d.get("properties"), dict) else []
    return [scal, one, items, props]


def enc_jv(v):
    if v is None:
        return [0]
    if isinstance(v, bool):
        return [1, 1 if v else 0]
    if isinstance(v, int):
        return [2, v]
    if isinstance(v, str):
        return [3, S(v)]
    if isinstance(v, list):
        return [4, [enc_jv(x) for x in v]]
    if isinstance(v, dict):
        return [5, [[S(str(k)), enc_jv(x)] for k, x in v.items()]]
    return [6, S(repr(v))]


def enc_steps(path):
    return [[0, S(st[1])] if st[0] == "n" else [1, st[1]] for st in path]


def enc_tree(root):
    from stingray.schema_instance import ArraySchema, ObjectSchema, OneOfSchema, RefToSchema, DependsOnArraySchema

    def kids(s):
        if isinstance(s, OneOfSchema):
            return [(None, a) for a in s.alternatives]
        if isinstance(s, ArraySchema):
            return [(None, s.items)]
        if isinstance(s, ObjectSchema):
            return list(s.properties.items())
        return []

    ident = {}
    stack = [(root, [])]
    order = []
    while stack:
        s, path = stack.pop()
        if id(s) in ident:
            continue
        ident[id(s)] = path
        order.append(s)
        for n, (_, c) in enumerate(kids(s)):
            stack.append((c, path + [n]))

    def target(obj):
        if obj is None:
            return []
        for s in order:
            if s is obj:
                return [ident[id(s)]]
        return [[3000]]

    def enc(s):
        cls = CLASSES.get(type(s).__name__, 0)
        ks = kids(s)
        if isinstance(s, ObjectSchema):
            children = [[S(k), enc(c)] for k, c in ks]
        else:
            children = [enc(c) for _, c in ks]
        if isinstance(s, RefToSchema):
            tgt = target(s.ref_to)
            # the second route to the referent: the dereferencing properties of the reference (type / attributes / properties /
            # items answer for the schema referred to).  Where they lead elsewhere than ref_to, or fail, that is what is reported.
            r = s.ref_to
            if r is not None and not isinstance(r, RefToSchema):
                def outcome(f):
                    try:
                        return (0, f())
                    except BaseException as ex:
                        if isinstance(ex, (KeyboardInterrupt, SystemExit, MemoryError)):
                            raise
                        return (1, type(ex).__name__)
                try:
                    same = outcome(lambda: s.type) == outcome(lambda: r.type) and s.attributes is r.attributes
                    if isinstance(r, ObjectSchema):
                        same = same and s.properties is r.properties
                    if isinstance(r, ArraySchema):
                        same = same and s.items is r.items
                except BaseException as ex:
                    if isinstance(ex, (KeyboardInterrupt, SystemExit, MemoryError)):
                        raise
                    same = False
                if not same:
                    tgt = [[3001]]
        elif isinstance(s, DependsOnArraySchema):
            tgt = target(s.max_ref_to)
        else:
            tgt = []
        return [cls, enc_doc(s.json()), children, tgt]

    return enc(root)


def observe(ctx, inp):
    from stingray.schema_instance import SchemaMaker, Delimited
    doc = copy.deepcopy(inp["doc"])
    before = enc_doc(doc)
    keep = {}

    def load():
        keep["schema"] = SchemaMaker.from_json(doc)
        return keep["schema"]

    lo = observe_call(load, enc_tree)
    inst = copy.deepcopy(inp.get("inst"))
    navs = []
    if lo[0] == 0:
        unpacker = Delimited()          # navigators hold the unpacker by weak reference: keep it alive
        keep["unpacker"] = unpacker
        for path in inp.get("paths", []):
            def run(path=path):
                nav = unpacker.nav(keep["schema"], inst)
                for st in path:
                    nav = nav.name(st[1]) if st[0] == "n" else nav.index(st[1])
                return nav.value()
            navs.append([enc_steps(path), observe_call(run, enc_jv)])
        # re-loading the document for every child and collecting garbage is the costly part of a case: every second case of the
        # quick tier, every eighth of the thorough tier
        _KEPT[0] += 1
        if _KEPT[0] % (2 if ctx.tier == "quick" else 8) == 0:
            lo = _kept_parts(doc, lo)
    return [before, lo, enc_jv(inp.get("inst")), navs]


_KEPT = [0]


def _kept_parts(doc, lo):
    """An application may keep only a PART of a loaded schema (schema.properties["header"], an array's items) and let the rest
    go.  Every reference inside the kept part must still lead where it led: for each of the first children of the root the
    document is loaded afresh, that child alone is kept, everything else is dropped and collected, and the references inside
    the child are asked again (bound or not, the type of what they lead to).  Where that differs from what the same references
    said while the whole schema was alive, the load is reported as having left those references unbound."""
    import gc
    from stingray.schema_instance import SchemaMaker, ArraySchema, ObjectSchema, OneOfSchema, RefToSchema

    def kids(s):
        if isinstance(s, OneOfSchema):
            return list(s.alternatives)
        if isinstance(s, ArraySchema):
            return [s.items]
        if isinstance(s, ObjectSchema):
            return list(s.properties.values())
        return []

    def refs_state(part):
        out, seen, stack = [], set(), [part]
        while stack:
            s = stack.pop()
            if id(s) in seen:
                continue
            seen.add(id(s))
            if isinstance(s, RefToSchema):
                r = s.ref_to
                try:
                    t = (0, None if r is None or isinstance(r, RefToSchema) else r.type)
                except BaseException as ex:
                    if isinstance(ex, (KeyboardInterrupt, SystemExit, MemoryError)):
                        raise
                    t = (1, type(ex).__name__)
                out.append((r is None, t))
            stack.extend(reversed(kids(s)))
        return out

    try:
        n = len(kids(SchemaMaker.from_json(copy.deepcopy(doc))))
    except BaseException as ex:
        if isinstance(ex, (KeyboardInterrupt, SystemExit, MemoryError)):
            raise
        return lo
    for i in range(min(n, 4)):
        root = SchemaMaker.from_json(copy.deepcopy(doc))
        part = kids(root)[i]
        alive = refs_state(part)
        del root
        gc.collect()
        if refs_state(part) != alive:
            def mark(e):
                cls, d, children, tgt = e
                if cls == CLASSES["ObjectSchema"]:
                    children = [[k, mark(c)] for k, c in children]
                else:
                    children = [mark(c) for c in children]
                return [cls, d, children, [[3002]] if cls == CLASSES["RefToSchema"] else tgt]
            return [0, mark(lo[1])]
    return lo


def describe(inp):
    return json.dumps(inp)[:1500]


# ------------------------------------------------------------------ generators


class Gen:
    """Random documents of the keyword grammar.  Reference targets are filled in after the shape is
    drawn, so a reference may point backward, forward, at an ancestor or at itself."""

    def __init__(self, rng, max_nodes=40, p_anchor=0.45, p_title=0.3, p_dangling=0.0, p_depends=0.0,
                 p_noise=0.3, title_pool=None, dup_anchor=False, atoms_only_int=False, depends_mode="mixed"):
        self.rng, self.max_nodes = rng, max_nodes
        self.depends_mode = depends_mode
        self.p_anchor, self.p_title, self.p_dangling, self.p_depends, self.p_noise = p_anchor, p_title, p_dangling, p_depends, p_noise
        self.title_pool, self.dup_anchor = title_pool, dup_anchor
        self.count = 0
        self.anchors = []
        self.refs = []       # dicts to fill in
        self.depends = []

    def decorate(self, node):
        rng = self.rng
        if rng.random() < self.p_anchor:
            if self.dup_anchor and self.anchors and rng.random() < 0.3:
                a = rng.choice(self.anchors)
            else:
                a = f"A{len(self.anchors)}"
            self.anchors.append(a)
            node["$anchor"] = a
        if rng.random() < self.p_title:
            node["title"] = rng.choice(self.title_pool) if self.title_pool else f"T{rng.randint(0, 5)}"
        if rng.random() < self.p_noise:
            k = rng.choice(["description", "maxItems", "minItems", "format", "cobol", "$defs", "contentEncoding"])
            node[k] = rng.choice([3, "x", {"type": "string", "$anchor": "A0"}, [1, 2], None, True])
        if rng.random() < 0.3:
            # keyword order inside a node is free in JSON: shuffle it
            ks = list(node.keys())
            rng.shuffle(ks)
            for k in ks:
                node[k] = node.pop(k)
        return node

    def node(self, depth):
        rng = self.rng
        self.count += 1
        leafy = depth >= 5 or self.count >= self.max_nodes
        r = rng.random()
        if leafy or r < 0.30:
            if rng.random() < 0.35 and depth > 0:
                n = {"$ref": None}
                self.refs.append(n)
                return self.decorate(n)
            return self.decorate({"type": rng.choice(ATOMS)})
        if r < 0.60:
            width = rng.randint(0, 5)
            names = rng.sample(["a", "b", "c", "d", "e", "f", "g", "Z-1", "é", "A0", "T1"], width)
            n = {"type": "object", "properties": {}}
            for k in names:
                n["properties"][k] = self.node(depth + 1)
            if rng.random() < 0.1 and not names:
                del n["properties"]
            return self.decorate(n)
        if r < 0.82:
            n = {"type": "array"}
            n["items"] = self.node(depth + 1)
            if rng.random() < self.p_depends:
                n["maxItemsDependsOn"] = {"$ref": None}
                self.depends.append(n)
            return self.decorate(n)
        width = rng.randint(1, 4)
        n = {"oneOf": [self.node(depth + 1) for _ in range(width)]}
        return self.decorate(n)

    def document(self):
        rng = self.rng
        root = self.node(0)
        names = list(dict.fromkeys(self.anchors))
        for n in self.refs:
            if not names and self.p_dangling == 0.0:
                del n["$ref"]
                n["type"] = "integer"
            elif names and rng.random() >= self.p_dangling:
                n["$ref"] = "#" + rng.choice(names)
            else:
                n["$ref"] = "#" + rng.choice(["NOWHERE", "A99", "a", "T9"])
        closed = closed_anchors(root)
        for n in self.depends:
            # counters by place: closed when the table closes (before it, or inside its items) / the others
            # (after the table, the table itself, a sub-schema enclosing it) / no sub-schema at all
            before = closed[id(n)]
            later = [a for a in names if a not in before]
            mode = self.depends_mode
            if mode == "declared":
                pick = rng.choice(before) if before else None
            elif mode == "forward":
                pick = rng.choice(later) if later and rng.random() < 0.8 else (rng.choice(before) if before else None)
            elif mode == "dangling":
                pick = "NOWHERE" if rng.random() < 0.5 or not before else rng.choice(before)
            else:
                pick = rng.choice(names) if names and rng.random() < 0.9 else "NOWHERE"
            if pick is None:
                del n["maxItemsDependsOn"]
            else:
                n["maxItemsDependsOn"]["$ref"] = "#" + pick
        return root


def closed_anchors(root):
    """generator-side helper (documents drawn by Gen only): for every array node, by id, the $anchor names of
    the sub-schemas that are closed when the array closes, reading the document from the top"""
    seen, out = [], {}

    def go(d):
        if d.get("oneOf"):
            for x in d["oneOf"]:
                go(x)
        elif "$ref" in d:
            pass
        elif d.get("type") == "array":
            go(d["items"])
            out[id(d)] = list(seen)
        elif d.get("type") == "object":
            for v in d.get("properties", {}).values():
                go(v)
        if "$anchor" in d:
            seen.append(d["$anchor"])

    go(root)
    return out


def depends_doc(rng, **kw):
    """a Gen document that holds at least one maxItemsDependsOn (a bounded number of draws)"""
    for _ in range(40):
        doc = Gen(rng, **kw).document()
        if "maxItemsDependsOn" in json.dumps(doc):
            break
    return doc


def find_anchor(doc, name):
    """generator-side helper used only to draw instances of the right shape"""
    stack = [doc]
    while stack:
        d = stack.pop()
        if not isinstance(d, dict):
            continue
        if d.get("$anchor") == name:
            return d
        stack.extend(reversed(d.get("oneOf") or []))
        if isinstance(d.get("items"), dict):
            stack.append(d["items"])
        stack.extend(reversed(list((d.get("properties") or {}).values())))
    return None


def gen_inst(rng, root, d, fuel=12, scalars="int"):
    if fuel <= 0 or not isinstance(d, dict):
        return rng.randint(-5, 99)
    if d.get("oneOf"):
        if rng.random() < 0.5:
            return gen_inst(rng, root, d["oneOf"][0], fuel - 1, scalars)
        return rng.randint(0, 9)
    if d.get("$ref"):
        t = find_anchor(root, d["$ref"][1:])
        return gen_inst(rng, root, t, fuel - 3, scalars) if t is not None else rng.randint(0, 9)
    t = d.get("type")
    if t in ATOMS:
        if scalars == "int":
            return rng.randint(-5, 99)
        return rng.choice([rng.randint(-5, 99), "text", "", None, True, False, "é中"])
    if t == "array" or "items" in d:
        return [gen_inst(rng, root, d.get("items", {}), fuel - 1, scalars) for _ in range(rng.randint(0, 3))]
    if t == "object" or "properties" in d:
        return {k: gen_inst(rng, root, v, fuel - 1, scalars) for k, v in (d.get("properties") or {}).items()}
    return rng.randint(0, 9)


def gen_paths(rng, inst, count):
    out = [[]]
    for _ in range(count):
        v, path = inst, []
        for _depth in range(7):
            r = rng.random()
            if isinstance(v, dict):
                if v and r < 0.8:
                    k = rng.choice(list(v.keys()))
                    path.append(["n", k]); v = v[k]
                elif r < 0.9:
                    path.append(["n", rng.choice(["nope", "", "a", "zz"])]); break
                else:
                    path.append(["i", rng.randint(-2, 2)]); break
            elif isinstance(v, list):
                n = len(v)
                if n and r < 0.75:
                    i = rng.randint(-n, n - 1)
                    path.append(["i", i]); v = v[i]
                elif r < 0.9:
                    path.append(["i", rng.choice([n, n + 1, -n - 1, 7])]); break
                else:
                    path.append(["n", rng.choice(["a", "b", "0"])]); break
            else:
                if r < 0.35:
                    path.append(rng.choice([["n", "a"], ["i", 0], ["i", -1], ["n", "b"]]))
                break
        out.append(path)
    return out


def case(rng, doc, scalars="int", npaths=6):
    inst = gen_inst(rng, doc, doc, scalars=scalars)
    return {"doc": doc, "inst": inst, "paths": gen_paths(rng, inst, npaths)}


def dispatch_docs():
    """every combination of the dispatch keywords on one node, under an object that also holds the
    anchor A (before or after the node)"""
    atom = {"type": "integer"}
    one = [None, [], [atom]]
    ref = [None, "", "#A", "A"]
    typ = [None, "string", "array", "object", "foo"]
    items = [None, atom]
    props = [None, {}, {"p": atom}]
    mido = [None, {"$ref": "#A"}]
    for o, r, t, i, p, m in itertools.product(one, ref, typ, items, props, mido):
        n = {}
        for k, v in (("oneOf", o), ("$ref", r), ("type", t), ("items", i), ("properties", p), ("maxItemsDependsOn", m)):
            if v is not None:
                n[k] = copy.deepcopy(v)
        a = {"type": "string", "$anchor": "A"}
        yield {"type": "object", "properties": {"a": a, "n": n}}
        yield {"type": "object", "properties": {"n": copy.deepcopy(n), "a": copy.deepcopy(a)}}


HANDMADE = [
    # the shapes of the repository's own tests
    {"type": "object", "properties": {"field": {"type": "string"}}},
    {"type": "object", "properties": {"a": {"type": "array", "items": {"type": "number"}, "maxItems": 3}}},
    {"type": "object", "properties": {
        "REDEFINES-A": {"oneOf": [{"type": "object", "properties": {"A": {"type": "string", "$anchor": "A"}}},
                                  {"type": "object", "properties": {"B": {"type": "string", "$anchor": "B"}}}]},
        "C": {"$ref": "#A"}}},
    # forward reference
    {"type": "object", "properties": {"x": {"$ref": "#LATER"}, "y": {"type": "integer", "$anchor": "LATER"}}},
    # backward reference, reference to an ancestor, to itself, a chain, a cycle of two
    {"type": "object", "properties": {"y": {"type": "array", "$anchor": "E", "items": {"type": "integer"}}, "x": {"$ref": "#E"}}},
    {"type": "object", "$anchor": "ROOT", "properties": {"kid": {"$ref": "#ROOT"}, "n": {"type": "integer"}}},
    {"type": "object", "properties": {"me": {"$ref": "#ME", "$anchor": "ME"}}},
    {"type": "object", "properties": {"p": {"$ref": "#Q", "$anchor": "P"}, "q": {"$ref": "#R", "$anchor": "Q"},
                                      "r": {"type": "object", "$anchor": "R", "properties": {"k": {"type": "integer"}}}}},
    {"type": "object", "properties": {"p": {"$ref": "#Q", "$anchor": "P"}, "q": {"$ref": "#P", "$anchor": "Q"}}},
    # dangling
    {"type": "object", "properties": {"x": {"$ref": "#NOWHERE"}}},
    {"type": "array", "items": {"$ref": "#NOWHERE"}},
    # maxItemsDependsOn: counter before / after the table
    {"type": "object", "properties": {"n": {"type": "integer", "$anchor": "N"},
                                      "v": {"type": "array", "items": {"type": "string"}, "maxItemsDependsOn": {"$ref": "#N"}}}},
    {"type": "object", "properties": {"v": {"type": "array", "items": {"type": "string"}, "maxItemsDependsOn": {"$ref": "#N"}},
                                      "n": {"type": "integer", "$anchor": "N"}}},
    # ... inside the table's items, the table itself, an enclosing sub-schema, nowhere
    {"type": "array", "items": {"type": "integer", "$anchor": "N"}, "maxItemsDependsOn": {"$ref": "#N"}},
    {"type": "array", "$anchor": "T", "items": {"type": "integer"}, "maxItemsDependsOn": {"$ref": "#T"}},
    {"type": "object", "$anchor": "R", "properties": {"v": {"type": "array", "items": {"type": "string"}, "maxItemsDependsOn": {"$ref": "#R"}}}},
    {"type": "object", "properties": {"n": {"type": "integer", "$anchor": "N"},
                                      "v": {"type": "array", "items": {"type": "string"}, "maxItemsDependsOn": {"$ref": "#Q"}}}},
    # ... the shape COBOL emits: counter, table of groups, a nested table on the same counter, a table of
    # references to a group declared later, a counter in an earlier oneOf alternative / an earlier group
    {"type": "object", "title": "REC", "$anchor": "REC", "properties": {
        "C": {"type": "integer", "$anchor": "C", "title": "C"},
        "T": {"type": "array", "title": "T", "$anchor": "T", "maxItemsDependsOn": {"$ref": "#C"},
              "items": {"type": "object", "properties": {
                  "F": {"type": "string", "$anchor": "F"},
                  "U": {"type": "array", "items": {"type": "integer"}, "maxItemsDependsOn": {"$ref": "#C"}}}}}}},
    {"type": "object", "properties": {
        "n": {"type": "integer", "$anchor": "N"},
        "v": {"type": "array", "items": {"$ref": "#G"}, "maxItemsDependsOn": {"$ref": "#N"}},
        "g": {"type": "object", "$anchor": "G", "properties": {"k": {"type": "integer"}}}}},
    {"type": "object", "properties": {
        "u": {"oneOf": [{"type": "object", "properties": {"n": {"type": "integer", "$anchor": "N"}}}, {"type": "string"}]},
        "w": {"type": "object", "properties": {"v": {"type": "array", "items": {"type": "number"}, "maxItemsDependsOn": {"$ref": "#N"}}}}}},
    # ... the counter named through a $ref node bearing the anchor; two tables, the second one's counter after it
    {"type": "object", "properties": {
        "n": {"type": "integer", "$anchor": "N"}, "m": {"$ref": "#N", "$anchor": "M"},
        "v": {"type": "array", "items": {"type": "string"}, "maxItemsDependsOn": {"$ref": "#M"}}}},
    {"type": "object", "properties": {
        "n": {"type": "integer", "$anchor": "N"},
        "v": {"type": "array", "items": {"type": "string"}, "maxItemsDependsOn": {"$ref": "#N"}},
        "w": {"type": "array", "items": {"type": "string"}, "maxItemsDependsOn": {"$ref": "#K"}},
        "k": {"type": "integer", "$anchor": "K"}}},
    # title captures the reference (known finding) - before / after / dangling-by-anchor
    {"type": "object", "properties": {"a": {"type": "integer", "$anchor": "X"}, "t": {"type": "string", "title": "X"}, "r": {"$ref": "#X"}}},
    {"type": "object", "properties": {"r": {"$ref": "#X"}, "a": {"type": "integer", "$anchor": "X"}, "t": {"type": "string", "title": "X"}}},
    {"type": "object", "properties": {"t": {"type": "string", "title": "X"}, "r": {"$ref": "#X"}}},
    {"type": "object", "properties": {"t": {"type": "string"}, "r": {"$ref": "#*UNNAMED*"}}},
    # title and anchor on the same node, title equal to nobody's reference
    {"type": "object", "title": "REC", "$anchor": "REC", "properties": {"r": {"$ref": "#REC"}}},
    # duplicate anchors (outside the property: the judge only checks the model there)
    {"type": "object", "properties": {"a": {"type": "integer", "$anchor": "D"}, "r": {"$ref": "#D"}, "b": {"type": "string", "$anchor": "D"}, "s": {"$ref": "#D"}}},
    # empty containers, nested arrays, oneOf at the root
    {"type": "object"},
    {"type": "object", "properties": {}},
    {"type": "array", "items": {"type": "array", "items": {"type": "array", "items": {"type": "integer"}}}},
    {"oneOf": [{"type": "integer"}, {"type": "string"}]},
    # not in the grammar
    {},
    {"type": "array"},
    {"type": "thing"},
    {"$ref": "nohash"},
    {"oneOf": []},
    {"oneOf": [], "type": "string"},
    {"$ref": "", "type": "object", "properties": {"a": {"type": "null"}}},
    {"type": "object", "items": {"type": "integer"}},
    {"type": "foo", "properties": {"a": {"type": "integer"}}},
    {"type": "string", "items": {"type": "integer"}, "properties": {"a": {"type": "integer"}}},
]


def inputs(ctx):
    rng = ctx.rng
    quick = ctx.tier == "quick"
    scale = 1 if quick else 12

    for doc in HANDMADE:
        for scalars in ("int", "any"):
            yield "handmade", case(rng, copy.deepcopy(doc), scalars=scalars, npaths=10)

    ctx.exhaustive.append("single-node keyword dispatch: 720 keyword combinations x anchor before/after")
    for doc in dispatch_docs():
        inst = {"a": "s", "n": rng.choice([[1, 2], {"p": 5}, 7])}
        yield "dispatch", {"doc": doc, "inst": inst,
                           "paths": [[], [["n", "n"]], [["n", "n"], ["i", 0]], [["n", "n"], ["n", "p"]], [["n", "a"]], [["n", "a"], ["i", 0]]]}

    # clean grammar: unique anchors, titles never collide with a reference name, nothing dangling
    for _ in range(700 * scale):
        g = Gen(rng, max_nodes=rng.choice([6, 15, 40]))
        yield "clean", case(rng, g.document(), scalars="int")
    for _ in range(200 * scale):
        g = Gen(rng, max_nodes=rng.choice([6, 15, 40]))
        yield "clean-anyscalar", case(rng, g.document(), scalars="any")
    for _ in range(400 * scale):
        g = Gen(rng, max_nodes=rng.choice([6, 15, 40]), p_dangling=rng.choice([0.1, 0.5]))
        yield "dangling", case(rng, g.document())
    # maxItemsDependsOn.  "depends" is a clean stream: every counter is declared when its table closes (it stands
    # before the table or inside its items), nothing dangles - it stays clear of the trigger of finding 2
    for _ in range(400 * scale):
        doc = depends_doc(rng, max_nodes=rng.choice([8, 15, 40]), p_depends=0.7, p_anchor=0.6, depends_mode="declared")
        yield "depends", case(rng, doc)
    # counters declared after the table, the table itself or an enclosing sub-schema (finding 2), some declared
    for _ in range(250 * scale):
        doc = depends_doc(rng, max_nodes=rng.choice([8, 15, 40]), p_depends=0.7, p_anchor=0.6, depends_mode="forward")
        yield "depends-forward", case(rng, doc)
    # counters that no sub-schema bears
    for _ in range(150 * scale):
        doc = depends_doc(rng, max_nodes=rng.choice([8, 15, 40]), p_depends=0.6, depends_mode="dangling",
                          p_dangling=rng.choice([0.0, 0.0, 0.2]))
        yield "depends-dangling", case(rng, doc)
    # any anchor of the document or none, with dangling $refs
    for _ in range(200 * scale):
        doc = depends_doc(rng, max_nodes=rng.choice([8, 15, 40]), p_depends=0.6, p_dangling=rng.choice([0.0, 0.1]))
        yield "depends-mixed", case(rng, doc)
    # titles drawn from the anchor name space: title-only, duplicate titles, title = anchor (known finding)
    for _ in range(300 * scale):
        g = Gen(rng, max_nodes=rng.choice([6, 15, 30]), p_title=0.5, p_anchor=0.35,
                title_pool=["A0", "A1", "A2", "T0", "NOWHERE", "*UNNAMED*"], p_dangling=0.15)
        yield "titles", case(rng, g.document())
    for _ in range(150 * scale):
        g = Gen(rng, max_nodes=rng.choice([6, 15, 30]), dup_anchor=True)
        yield "dup-anchors", case(rng, g.document())
    # overlapping / missing keywords sprinkled over clean documents
    for _ in range(500 * scale):
        g = Gen(rng, max_nodes=rng.choice([6, 15, 30]), p_dangling=0.05)
        doc = g.document()
        overlap(rng, doc, rng.randint(1, 3))
        yield "overlap", case(rng, doc, scalars=rng.choice(["int", "any"]))


def all_nodes(doc):
    out, stack = [], [doc]
    while stack:
        d = stack.pop()
        if isinstance(d, dict):
            out.append(d)
            stack.extend(d.get("oneOf") or [])
            if isinstance(d.get("items"), dict):
                stack.append(d["items"])
            stack.extend((d.get("properties") or {}).values())
    return out


def overlap(rng, doc, times):
    atom = {"type": "integer"}
    for _ in range(times):
        n = rng.choice(all_nodes(doc))
        k = rng.randint(0, 11)
        if k == 0:
            n["oneOf"] = []
        elif k == 1:
            n["$ref"] = ""
        elif k == 2:
            n.pop("type", None)
        elif k == 3:
            n["items"] = dict(atom)
        elif k == 4:
            n["properties"] = {"extra": dict(atom)}
        elif k == 5:
            n["type"] = rng.choice(["object", "array", "string", "foo", "oneOf"])
        elif k == 6:
            n["oneOf"] = [dict(atom), {"type": "string", "$anchor": "OV"}]
        elif k == 7:
            n["$ref"] = rng.choice(["#A0", "#OV", "A0", "#"])
        elif k == 8:
            n.pop("items", None)
        elif k == 9:
            n["maxItemsDependsOn"] = {"$ref": rng.choice(["#A0", "A0", ""])}
        elif k == 10:
            n.pop("properties", None)
        else:
            n.pop("$anchor", None)
