#!/venv/bin/python
"""Rewrites DESIGN.md section 12 (seeded changes: which check catches which) from seeded/*/meta.json."""
import json, os, re
HERE = os.path.dirname(os.path.dirname(os.path.abspath(__file__)))
rows = []
for d in sorted(os.listdir(os.path.join(HERE, "seeded"))):
    mp = os.path.join(HERE, "seeded", d, "meta.json")
    if not os.path.exists(mp):
        continue
    m = json.load(open(mp))
    out = (m.get("confirmed", {}).get("check_output") or [""])
    last = [l for l in out if re.match(r"C\d\d", l)]
    stat = ""
    if last:
        mm = re.search(r"proof=(\w+).*cases=(\d+).*viol=(\d+) corr=(\d+)", last[-1])
        if mm:
            stat = f"proof={mm.group(1)}, {mm.group(3)} violating / {mm.group(4)} differing of {mm.group(2)} cases"
    how = "VIOLATION with failing input" if any(l.startswith("VIOLATION") and "no-failing-input-found" not in l for l in out) else \
          ("VIOLATION no-failing-input-found" if any(l.startswith("VIOLATION") for l in out) else "MISSED")
    note = m.get("history", "")
    rows.append(f"| {d} | {m['property']} | {(m.get('summary') or '').strip()[:230]} | {(m.get('needs_to_manifest') or '').strip()[:200]} | {how}; {stat}{(' - ' + note) if note else ''} |")
text = ("## 12. Seeded changes: which check catches which\n\n"
        "Every change below was written by a fresh sub-agent that was given only the text of one property and a scratch git\n"
        "worktree of `/repo` (nothing from `/verif`), asked for a change that breaks the property, keeps the 179 baseline tests\n"
        "green and needs something specific to manifest.  Each was confirmed with `harness/seedtest.py` (scratch worktree of\n"
        "`/repo` HEAD: patch applies, `harness/baseline.py` green, demonstration passes on the clean tree and fails on the changed\n"
        "tree, then `VERIF_REPO=<worktree> ./check Cxx`) and is kept under `seeded/<id>/` (`patch.diff`, `demo.py`, `meta.json`).\n"
        "A change that was missed at first led to a stronger generator or judge (noted in the last column); it is then re-run.\n\n"
        "| id | property | change | needs to manifest | result of `./check` (quick tier) |\n|---|---|---|---|---|\n" + "\n".join(rows) + "\n")
p = os.path.join(HERE, "DESIGN.md")
s = open(p).read()
if "## 12. Seeded changes" in s:
    s = s[:s.index("## 12. Seeded changes")]
s = s.rstrip() + "\n\n" + text
open(p, "w").write(s)
print(len(rows), "seeds")
