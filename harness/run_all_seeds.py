#!/venv/bin/python
"""Re-run every seeded change under seeded/ against the current checks (scratch worktrees of /repo; /repo itself is not touched).
Writes seeded/RESULTS.json and prints one line per seed.  Usage: run_all_seeds.py [ids...]"""
import json, os, subprocess, sys
HERE = os.path.dirname(os.path.dirname(os.path.abspath(__file__)))
ids = sys.argv[1:] or sorted(d for d in os.listdir(os.path.join(HERE, "seeded")) if os.path.isdir(os.path.join(HERE, "seeded", d)))
RES = os.path.join(HERE, "seeded", "RESULTS.json")
results = {}
for sid in ids:
    d = os.path.join(HERE, "seeded", sid)
    meta = json.load(open(os.path.join(d, "meta.json")))
    prop = meta.get("caught_by") or meta["property"]
    p = subprocess.run([os.path.join(HERE, "harness", "seedtest.py"), prop, os.path.join(d, "patch.diff"), os.path.join(d, "demo.py")],
                       stdout=subprocess.PIPE, stderr=subprocess.STDOUT, text=True)
    try:
        r = json.loads(p.stdout)
    except Exception:
        r = {"error": p.stdout[-500:]}
    results[sid] = dict(check=prop, caught=r.get("caught"), baseline_ok=r.get("baseline_ok"), demo_clean=r.get("demo_clean_exit"),
                        demo_changed=r.get("demo_changed_exit"), lines=r.get("check_lines"))
    print(sid, prop, "caught" if r.get("caught") else "MISSED", (r.get("check_lines") or [""])[-1][:120], flush=True)
    # merge into the file (several invocations may run side by side, one seed each)
    import fcntl
    with open(RES + ".lock", "w") as lk:
        fcntl.flock(lk, fcntl.LOCK_EX)
        try:
            allres = json.load(open(RES))
        except Exception:
            allres = {}
        allres[sid] = results[sid]
        json.dump(dict(sorted(allres.items())), open(RES, "w"), indent=1)
