#!/venv/bin/python
"""Evaluate one seeded change: seedtest.py <prop> <patch.diff> <demo.py> [--tier quick|thorough]
Uses a scratch git worktree of /repo under /tmp (removed afterwards): applies the patch, runs the baseline
suite (179 stable tests must still pass), the demonstration (must pass on the clean tree and fail on the
changed tree) and the property's check with VERIF_REPO pointing at the changed tree."""
import json, os, subprocess, sys, tempfile, shutil
prop, patch, demo = sys.argv[1:4]
tier = sys.argv[5] if len(sys.argv) > 5 and sys.argv[4] == "--tier" else "quick"
wt = tempfile.mkdtemp(prefix="seed_wt_", dir="/tmp")
os.rmdir(wt)
HERE = os.path.dirname(os.path.dirname(os.path.abspath(__file__)))
# the checks run in a private copy of this directory (its own coq/build, coq/Gen and evidence), so that a seed run
# neither disturbs the main tree nor other seed runs; removed afterwards
priv = tempfile.mkdtemp(prefix="seed_verif_", dir="/tmp")
res = {"property": prop, "patch": patch}
def run(cmd, **kw):
    try:
        p = subprocess.run(cmd, shell=isinstance(cmd, str), stdout=subprocess.PIPE, stderr=subprocess.STDOUT, text=True, timeout=2400, **kw)
    except subprocess.TimeoutExpired as ex:
        return 124, (ex.stdout or "") if isinstance(ex.stdout, str) else (ex.stdout or b"").decode(errors="replace")
    return p.returncode, p.stdout
try:
    rc, out = run(["git", "-C", "/repo", "worktree", "add", "-f", wt, "HEAD"])
    env = dict(os.environ, PYTHONPATH=os.path.join(wt, "src"), TREE=wt, PYTHONHASHSEED="0")
    rc, out = run(["/venv/bin/python", demo], env=env, cwd=wt)
    res["demo_clean_exit"] = rc
    rc, out = run(["git", "-C", wt, "apply", os.path.abspath(patch)])
    res["applies"] = (rc == 0)
    if rc:
        res["apply_error"] = out[-500:]
    else:
        run(["rsync", "-a", "--exclude", ".git", "--exclude", "replays", HERE + "/", priv + "/"])
        rc, out = run(["/venv/bin/python", priv + "/harness/baseline.py"], env=dict(os.environ, VERIF_REPO=wt))
        res["baseline_ok"] = (rc == 0); res["baseline"] = out.strip().splitlines()[-1:]
        rc, out = run(["/venv/bin/python", demo], env=env, cwd=wt)
        res["demo_changed_exit"] = rc; res["demo_output"] = out[-400:]
        rc, out = run([priv + "/check", prop, "--tier", tier], env=dict(os.environ, VERIF_REPO=wt), cwd=priv)
        res["check_exit"] = rc
        res["check_lines"] = [l[:300] for l in out.splitlines() if l.startswith("VIOLATION") or l.startswith(prop)][:6]
        # keep the first replay
        for l in out.splitlines():
            if l.startswith("VIOLATION") and "replay=" in l:
                rp = l.split("replay=")[1].split()[0]
                if os.path.exists(rp):
                    res["replay_copy"] = json.load(open(rp))
                    for k in ("log",):
                        res["replay_copy"].pop(k, None)
                break
finally:
    run(["git", "-C", "/repo", "worktree", "remove", "--force", wt])
    shutil.rmtree(wt, ignore_errors=True)
    shutil.rmtree(priv, ignore_errors=True)
res["caught"] = bool(res.get("check_exit") == 1 and res.get("check_lines"))
def clip(x, n=1500):
    if isinstance(x, str):
        return x[:n]
    if isinstance(x, dict):
        return {k: clip(v, n) for k, v in x.items()}
    if isinstance(x, list):
        return [clip(v, n) for v in x[:40]]
    return x
print(json.dumps(clip(res), indent=1, default=str))
