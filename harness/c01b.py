"""C01b - C01 composed with C02: what is stored in a record is what navigation returns (engine of ./check C01).

A record description (C01's generator, numeric-rich pool; a second stream with OCCURS DEPENDING ON tables, whose counters are
assigned the count the tables are laid out with) is drawn together with a value for EVERY elementary occurrence that owns storage; the record bytes are laid out here with the plain encoders of
codec_common.py / int.to_bytes / cp037 - the judge recomputes the record from coq/Spec/Record.v and rejects the case
when the bytes differ - and handed to the real code as a copybook plus a BytesInstance.  Observed: for every elementary
path (also through REDEFINES items), every group, every table occurrence and the record itself: start, end, raw(),
value().  No oracle logic here: the judge compares value() with the ASSIGNED values.
"""
from layout_common import *
from codec_common import SPELLINGS, canon, enc_packed, enc_zoned
from c10 import pic_info, pool10, PACKED_U

GEN = ["EstructParams", "Cp037", "LayoutParams"]
RULE = ("random record descriptions (depth<=4, fan-out<=5, OCCURS 1-4 on elementary and group items, REDEFINES of elementary and group items at every "
        "child position, FILLER; X, zoned, signed zoned, COMP-3 / PACKED-DECIMAL, binary 2/4/8-byte items) printed as copybooks, with a random VALUE for "
        "every elementary occurrence that owns storage (digit strings shorter than, equal to and - never - longer than the picture, every valid sign nibble, "
        "binary extremes, texts over all 256 characters of code page 037); the EBCDIC record is laid out from the assigned values, the judge rebuilds it from "
        "Spec/Record.v (Spec/Encode.v encoders laid end to end by Spec/Layout.v) and rejects the case on any difference; for EVERY path (elementary "
        "occurrences, redefining items, groups, table occurrences, the record): start, end, raw(), value() through EBCDIC().nav. The judge demands that "
        "every elementary occurrence that owns storage reads back the assigned value (exact Decimal with the picture's scale / int / text) from the "
        "specification's bytes, and compares every observation with the value model. Non-trivial = tree has OCCURS, REDEFINES or a numeric item "
        "(branch > 1); distinct = distinct case lines.")
TRIVIAL_BRANCHES = [1]
ASSUMPTIONS = ["widths of elementary items are given to the judge as the widths Spec/Encode.v lists; the judge checks them against the item's kind "
               "(kind_ok) and compares the emitted schema's widths with them (the generator avoids C04's known-bad configurations)",
               "the loaded Schema mirrors the JSON document (C15)",
               "the decoder of one elementary item is the C02 model of estruct.unpack (coq/Model/Estruct.v); CONVERSION is Decimal or identity, which "
               "leaves estruct's results unchanged (C16)",
               "the harness lays out the record bytes with its own plain encoders; the judge recomputes the record from coq/Spec/Record.v and rejects "
               "a case whose bytes differ"]
TRUSTED = []

POS_SIGNS, ALL_SIGNS = [0xC, 0xF, 0xA, 0xE], [0xC, 0xF, 0xA, 0xE, 0xD, 0xB]
BINARY_U = {"BINARY", "COMP", "COMP-4", "COMPUTATIONAL", "COMPUTATIONAL-4"}


def kind_of(n):
    """(tag, usage number, signed, m, n) of an elementary node; tag 0 packed 1 zoned 2 binary 3 text (k in m)"""
    info = pic_info(n["pic"])
    u = SPELLINGS.index(n["usage"])
    if info[0] == "text":
        return (3, u, 0, info[1], 0)
    tag = 0 if n["usage"] in PACKED_U else 1 if n["usage"] == "DISPLAY" else 2
    assert tag != 2 or n["usage"] in BINARY_U
    return (tag, u, int(info[1]), info[2], info[3])


def kinds_sx(tree):
    out = []

    def go(n):
        if n["kind"] == "elem":
            out.append([n["id"]] + list(kind_of(n)))
        for k in n["kids"]:
            go(k)
    go(tree)
    return out


def count(n, env):
    if n["occ"] is None:
        return 1
    return n["occ"][1] if n["occ"][0] == "times" else env[n["occ"][1]]


def walk(tree, env):
    """every navigation path with the node it leads to: (path, node, view, owns) - view 'item' | 'occ' | 'atom';
    owns = no step enters a redefining item"""
    out = []

    def occurrence(n, path, owns):
        if n["kind"] == "elem":
            return
        for k in n["kids"]:
            item(k, path + [[0, k["id"]]], owns and k["redef"] is None)

    def item(n, path, owns):
        out.append((path, n, "item", owns))
        if n["occ"] is None:
            occurrence(n, path, owns)
            return
        for i in range(count(n, env)):
            p = path + [[1, i]]
            out.append((p, n, "occ", owns))
            if n["kind"] == "elem":
                out.append((p + [[0, n["id"]]], n, "atom", owns))
            else:
                occurrence(n, p, owns)
    out.append(([], tree, "item", True))
    occurrence(tree, [], True)
    return out


def draw_value(rng, n, env):
    tag, u, signed, m, k = kind_of(n)
    if n.get("is_counter"):
        return [0, [int(ch) for ch in f"{env[n['id']]:0{n['size']}d}"], 0xF]
    if tag == 3:
        r = rng.random()
        if r < 0.6:
            cs = [rng.choice(b"ABCXYZ abcxyz0123456789.,-$*") for _ in range(m)]
        else:
            cs = [rng.randrange(256) for _ in range(m)]
        return [2, cs]
    if tag == 2:
        w = n["size"]
        lo, hi = -(1 << (8 * w - 1)), (1 << (8 * w - 1)) - 1
        r = rng.random()
        z = lo if r < 0.05 else hi if r < 0.10 else rng.randint(-3, 3) if r < 0.2 else rng.randint(lo, hi) if r < 0.6 \
            else rng.randint(-10 ** (m + k) + 1, 10 ** (m + k) - 1)
        return [1, z]
    r = rng.random()
    nd = m + k if r < 0.6 else rng.randint(0, m + k)
    ds = [rng.randrange(10) for _ in range(nd)]
    if rng.random() < 0.1:
        ds = [0] * nd
    sign = rng.choice(ALL_SIGNS) if (signed or rng.random() < 0.1) else rng.choice(POS_SIGNS)
    return [0, ds, sign]


def encode(n, v):
    tag, u, signed, m, k = kind_of(n)
    if tag == 3:
        return list("".join(chr(c) for c in v[1]).encode("cp037"))
    if tag == 2:
        return list(v[1].to_bytes(n["size"], "big", signed=True))
    ds = v[1]
    if tag == 0:
        return enc_packed([0] * (m + k - len(ds)) + ds, v[2])
    return enc_zoned([0] * (n["size"] - len(ds)) + ds, v[2])


def build_case(c):
    import random
    rng = random.Random(c["seed"])
    for _ in range(60):
        g = Gen(rng, **c["opts"])
        g.pool = pool10()
        tree = g.group(0, False, False, top=True)
        if not c.get("need_odo") or contains_odo(tree):
            break
    env = choose_counts(tree, rng)
    paths = walk(tree, env)
    vals, record, counters = [], [], []
    # storage order = declaration order of the occurrences that own storage
    for path, n, view, owns in paths:
        if owns and n["kind"] == "elem" and ((view == "item" and n["occ"] is None) or view == "atom"):
            v = draw_value(rng, n, env)
            vals.append([path, v])
            record += encode(n, v)
            if n.get("is_counter"):
                counters.append([n["id"], env[n["id"]], path])
    # observed: every elementary path (also those through redefining items), and a sample of the group / table / occurrence
    # paths (the record itself among them): whole values repeat everything below them and make the case long
    elementary = [p for p, n, view, _ in paths if n["kind"] == "elem" and ((view == "item" and n["occ"] is None) or view == "atom")]
    others = [p for p, n, view, _ in paths if not (n["kind"] == "elem" and ((view == "item" and n["occ"] is None) or view == "atom"))]
    rng.shuffle(others)
    keep = {tuple(map(tuple, p)) for p in elementary + others[:c.get("whole", 4)]}
    return tree, vals, record, [p for p, _, _, _ in paths if tuple(map(tuple, p)) in keep], counters


def inputs(ctx):
    rng = ctx.rng
    n = 160 if ctx.tier == "quick" else 2500
    for i in range(n):
        opts = dict(allow_odo=False, max_kids=4)
        if i % 3 == 0:
            opts["max_kids"] = 5
            opts["max_depth"] = 3
        if i % 5 == 0:
            opts["allow_filler"] = False
        yield "stored-is-read", dict(seed=rng.randrange(1 << 30), opts=opts)
    for i in range(30 if ctx.tier == "quick" else 500):
        yield "no-redefines", dict(seed=rng.randrange(1 << 30), opts=dict(allow_odo=False, allow_redef=False, max_depth=3))
    # C06's general form: OCCURS DEPENDING ON tables (elementary and group) outside tables and unions, counters assigned their counts
    for i in range(90 if ctx.tier == "quick" else 1500):
        yield "depending-on", dict(seed=rng.randrange(1 << 30), need_odo=True, opts=dict(max_kids=4) if i % 2 else dict(max_kids=5, max_depth=3))


def canon_pv(v, rev):
    if isinstance(v, dict):
        return [2, [[key_of(k, rev), canon_pv(x, rev)] for k, x in v.items()]]
    if isinstance(v, list):
        return [1, [canon_pv(x, rev) for x in v]]
    return [0, canon(v)]


def observe(ctx, c):
    from lib import exn_code, observe_call
    tree, vals, record, paths, counters = build_case(c)
    schema_obs, top_obs, _lrecl, _p, extras = observe_layout(tree, record, [], False)
    head = [tree_sx(tree), kinds_sx(tree), vals, record, schema_obs, top_obs]
    if extras is None:
        code = schema_obs[1] if schema_obs[0] == 1 else top_obs[1]
        return head + [[[p, [1, code]] for p in paths], counters]
    names, nav0 = extras["names"], extras["nav0"]
    rev = {v: k for k, v in names.items()}
    # navigators are created breadth-first from shared, held parents before anything is read
    navs, errs = {(): nav0}, {}
    for p in sorted(paths, key=len):
        tp = tuple(map(tuple, p))
        for j in range(1, len(tp) + 1):
            pre = tp[:j]
            if pre in navs or pre in errs:
                continue
            if pre[:-1] in errs:
                errs[pre] = errs[pre[:-1]]
                continue
            kind, x = pre[-1]
            try:
                navs[pre] = navs[pre[:-1]].index(x) if kind == 1 else navs[pre[:-1]].name(names[x])
            except BaseException as ex:
                if isinstance(ex, (KeyboardInterrupt, SystemExit, MemoryError)):
                    raise
                errs[pre] = exn_code(ex)
    out = []
    for p in paths:
        tp = tuple(map(tuple, p))
        if tp in errs:
            out.append([p, [1, errs[tp]]])
            continue
        nav = navs[tp]
        try:
            start, end, raw = nav.location.start, nav.location.end, list(nav.raw())
        except BaseException as ex:
            if isinstance(ex, (KeyboardInterrupt, SystemExit, MemoryError)):
                raise
            out.append([p, [1, exn_code(ex)]])
            continue
        out.append([p, [0, start, end, raw, observe_call(nav.value, lambda v: canon_pv(v, rev))]])
    return head + [out, counters]


def describe(c):
    tree, vals, record, paths, counters = build_case(c)
    return dict(c, counts={cid: v for cid, v, _ in counters}, copybook=print_copybook(tree), record_hex=bytes(record).hex(), values=len(vals), paths=len(paths))
