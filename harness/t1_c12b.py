"""T1 for C12b: read the clause regular expression of cobol_parser (module-level constants SPACE, NAME, KEY,
CLAUSES and the re.compile call that builds clause_pattern) from the current source.

The f-strings are evaluated with a three-case evaluator (string constant, f-string whose fields are bare
names of earlier constants, implicit concatenation), the resulting pattern text is cut into its top-level
alternatives and every alternative must be one of fifteen known shapes, each used exactly once; what varies
inside a shape (synonym lists and their order, the usage word list and its order, the negative lookahead,
which optional words are optional, the order of the alternatives, the IGNORECASE flag, the two character
classes) is emitted as Coq definitions.  Anything else raises translate.Unrecognised (fail closed: the
pinned text is used and the run relies on the correspondence check).

The character tables (white space, word characters, decimal digits come from Gen/PictureParams, letters
that IGNORECASE equates with an ASCII letter) are computed from the interpreter's own re module.
"""
import ast
import re

import translate

WORDS = r"([A-Z0-9-]+(?:\|[A-Z0-9-]+)*)"
OPT = r"(\??)"


def _eval(node, env):
    if isinstance(node, ast.Constant) and isinstance(node.value, str):
        return node.value
    if isinstance(node, ast.JoinedStr):
        out = []
        for v in node.values:
            if isinstance(v, ast.Constant) and isinstance(v.value, str):
                out.append(v.value)
            elif (isinstance(v, ast.FormattedValue) and isinstance(v.value, ast.Name) and v.value.id in env
                  and v.conversion == -1 and v.format_spec is None):
                out.append(env[v.value.id])
            else:
                raise translate.Unrecognised("f-string field is not the bare name of an earlier constant")
        return "".join(out)
    raise translate.Unrecognised(f"constant is not a string literal ({type(node).__name__})")


def _constants(tree):
    env, flags = {}, None
    for n in tree.body:
        if isinstance(n, ast.Assign) and len(n.targets) == 1 and isinstance(n.targets[0], ast.Name):
            name = n.targets[0].id
            if name in ("SPACE", "NAME", "KEY", "CLAUSES"):
                if name in env:
                    raise translate.Unrecognised(f"{name} assigned twice")
                env[name] = _eval(n.value, env)
            elif name == "clause_pattern":
                c = n.value
                if not (isinstance(c, ast.Call) and isinstance(c.func, ast.Attribute) and c.func.attr == "compile"
                        and isinstance(c.func.value, ast.Name) and c.func.value.id == "re" and c.args
                        and isinstance(c.args[0], ast.Name) and c.args[0].id == "CLAUSES"):
                    raise translate.Unrecognised("clause_pattern is not re.compile(CLAUSES, ...)")
                if flags is not None:
                    raise translate.Unrecognised("clause_pattern assigned twice")
                flags = set()
                for extra in list(c.args[1:]) + [k.value for k in c.keywords]:
                    for a in ast.walk(extra):
                        if isinstance(a, ast.Attribute):
                            flags.add(a.attr)
                        elif isinstance(a, (ast.Constant, ast.Call)):
                            raise translate.Unrecognised("flags are not re.X attributes")
    for k in ("SPACE", "NAME", "KEY", "CLAUSES"):
        if k not in env:
            raise translate.Unrecognised(f"{k} not found")
    if flags is None:
        raise translate.Unrecognised("clause_pattern not found")
    if flags - {"IGNORECASE", "I"}:
        raise translate.Unrecognised(f"flags {sorted(flags)}")
    return env, bool(flags)


def _class(text, esc, what):
    """'[...]+' with the escape `esc` (s or w) and single punctuation characters"""
    m = re.fullmatch(r"\[(.*)\]\+", text, re.S)
    if not m:
        raise translate.Unrecognised(f"{what}: not a one-or-more character class: {text!r}")
    body, has, extra, i = m.group(1), False, [], 0
    while i < len(body):
        c = body[i]
        if c == "\\":
            if body[i + 1:i + 2] != esc:
                raise translate.Unrecognised(f"{what}: escape {body[i:i + 2]!r}")
            has = True
            i += 2
            continue
        if c.isalnum() or c.isspace() or c in "^]\\[" or (c == "-" and i != len(body) - 1) or ord(c) > 126:
            raise translate.Unrecognised(f"{what}: class member {c!r}")
        if ord(c) not in extra:
            extra.append(ord(c))
        i += 1
    return has, extra


def _split_alternatives(p):
    out, depth, cur, i, in_class = [], 0, [], 0, False
    while i < len(p):
        c = p[i]
        if c == "\\":
            cur.append(p[i:i + 2]); i += 2
            continue
        if in_class:
            in_class = c != "]"
        elif c == "[":
            in_class = True
        elif c == "(":
            depth += 1
        elif c == ")":
            depth -= 1
        elif c == "|" and depth == 0:
            out.append("".join(cur)); cur = []; i += 1
            continue
        cur.append(c); i += 1
    out.append("".join(cur))
    if depth or in_class:
        raise translate.Unrecognised("unbalanced pattern")
    return out


def _template(parts, env):
    out = []
    for p in parts:
        if isinstance(p, tuple):
            out.append(p[0])
        else:
            out.append(re.escape(p.replace("{SP}", env["SPACE"]).replace("{NM}", env["NAME"]).replace("{KEY}", env["KEY"])))
    return "".join(out)


R = lambda x: (x,)

# alternative id -> (template parts, names of the captured variable parts)
SHAPES = {
    0: (["{SP}"], []),
    1: (["(?:REDEFINES){SP}(?P<redefines>{NM})"], []),
    2: (["(?:BLANK){SP}(WHEN{SP})", R(OPT), "(?P<blank>", R(WORDS), ")"], ["when_opt", "zero_words"]),
    3: (["EXTERNAL"], []),
    4: (["GLOBAL"], []),
    5: (["(?:", R(WORDS), "){SP}(?P<justified>RIGHT)?"], ["just_words"]),
    6: (["(?:OCCURS){SP}(?:(?P<odo_minitems>\\d+){SP}TO{SP})?(?P<odo_maxitems>\\d+)(?:{SP}TIMES)", R(OPT),
         "{SP}DEPENDING{SP}(?:ON{SP})", R(OPT), "(?P<depending_on>{NM})(?:{SP}{KEY})?"], ["times_odo_opt", "on_opt"]),
    7: (["(?:OCCURS){SP}(?P<occurs_maxitems>\\d+)(?:{SP}TIMES)", R(OPT), "(?:{SP}{KEY})?"], ["times_occ_opt"]),
    8: (["(?:", R(WORDS), "){SP}(?:IS{SP})", R(OPT), "(?P<picture>\\S+)"], ["pic_words", "pic_is_opt"]),
    9: (["(?:SIGN{SP})", R(OPT), "(?:IS{SP})", R(OPT),
         "(?P<sign>LEADING|TRAILING)(?P<sign_sep>{SP}SEPARATE{SP}CHARACTER|{SP}SEPARATE)"], ["sign_word_opt", "sign_is_opt"]),
    10: (["(?:", R(WORDS), ")(?P<synch>{SP}LEFT|{SP}RIGHT)?"], ["sync_words"]),
    11: (["(?:USAGE{SP})", R(OPT), "(?:IS{SP})", R(OPT), "(?P<usage>", R(WORDS), ")", R(r"((?:\(\?!-\))?)")],
         ["usage_word_opt", "usage_is_opt", "usage_words", "usage_guard"]),
    12: (["(?:VALUE{SP})(?:IS{SP})", R(OPT), "(?P<value>'.*'|\\\".*\\\"|\\S+)"], ["value_is_opt"]),
    13: (["(?P<filler>FILLER)"], []),
    14: (["(?P<name>{NM})"], []),
}

KEY_TEMPLATE = ("((?:ASCENDING|DESCENDING){SP}(?:KEY{SP})?(?:IS{SP})?{NM})*"
                "(?:{SP}(?:INDEXED){SP}(?:BY{SP})?{NM}(?:{SP}{NM})*)")

# synonym lists: the words each list may contain (any subset, any order, at least one)
ALLOWED = {
    "zero_words": {"ZERO", "ZEROES", "ZEROS"},
    "just_words": {"JUSTIFIED", "JUST"},
    "pic_words": {"PIC", "PICTURE"},
    "sync_words": {"SYNCHRONIZED", "SYNC"},
    "usage_words": {"BINARY", "COMPUTATIONAL-1", "COMPUTATIONAL-2", "COMPUTATIONAL-3", "COMPUTATIONAL-4", "COMPUTATIONAL",
                    "COMP-1", "COMP-2", "COMP-3", "COMP-4", "COMP", "DISPLAY", "PACKED-DECIMAL"},
}


def _tables():
    allc = "".join(chr(c) for c in range(0x110000))
    ws = sorted(ord(c) for c in re.findall(r"\s", allc))
    wd = sorted(ord(c) for c in re.findall(r"\w", allc))
    ranges = []
    for p in wd:
        if ranges and ranges[-1][1] == p - 1:
            ranges[-1][1] = p
        else:
            ranges.append([p, p])
    if any(lo < 128 <= hi for lo, hi in ranges):
        raise translate.Unrecognised("a word-character range straddles 128")
    fold = []
    for letter in "ABCDEFGHIJKLMNOPQRSTUVWXYZ":
        for ch in re.compile(letter, re.IGNORECASE).findall(allc):
            if ch not in (letter, letter.lower()):
                fold.append((ord(ch), ord(letter)))
    for ch in "-0123456789":
        if re.compile(re.escape(ch), re.IGNORECASE).findall(allc) != [ch]:
            raise translate.Unrecognised(f"IGNORECASE equates {ch!r} with another character")
    return ws, [r for r in ranges if r[1] < 128], [r for r in ranges if r[0] >= 128], sorted(fold)


def gen_ClausesParams(src):
    tree = translate._parse(src, "stingray/cobol_parser.py")
    env, ci = _constants(tree)
    sp_ws, sp_extra = _class(env["SPACE"], "s", "SPACE")
    nm_w, nm_extra = _class(env["NAME"], "w", "NAME")
    if env["KEY"] != KEY_TEMPLATE.replace("{SP}", env["SPACE"]).replace("{NM}", env["NAME"]):
        raise translate.Unrecognised(f"KEY shape {env['KEY']!r}")
    alts = _split_alternatives(env["CLAUSES"])
    order, params = [], {}
    for a in alts:
        for k, (parts, names) in SHAPES.items():
            m = re.fullmatch(_template(parts, env), a, re.S)
            if m:
                if k in order:
                    raise translate.Unrecognised(f"alternative shape {k} occurs twice")
                order.append(k)
                params.update(zip(names, m.groups()))
                break
        else:
            raise translate.Unrecognised(f"alternative not recognised: {a!r}")
    if sorted(order) != list(range(15)):
        raise translate.Unrecognised(f"alternatives present: {sorted(order)}")
    for k, allowed in ALLOWED.items():
        ws = params[k].split("|")
        if len(set(ws)) != len(ws) or not set(ws) <= allowed:
            raise translate.Unrecognised(f"{k}: {ws}")
        params[k] = ws
    ws_pts, word_lo, word_hi, fold = _tables()
    b = lambda x: "true" if x else "false"
    ns = lambda xs: "[" + "; ".join(str(x) for x in xs) + "]"
    word = lambda w: ns([ord(c) for c in w])
    words = lambda k: "[" + ";\n   ".join(word(w) for w in params[k]) + "]"
    pairs = lambda ps: "[" + "; ".join(f"({a}, {c})" for a, c in ps) + "]"

    def chunks(ps, n=8):
        return "[\n  " + ";\n  ".join("; ".join(f"({a}, {c})" for a, c in ps[i:i + n]) for i in range(0, len(ps), n)) + "]"

    optional = lambda k: b(params[k] == "?")
    return (
        "(* GENERATED by harness/t1_c12b.py from src/stingray/cobol_parser.py (SPACE, NAME, KEY, CLAUSES, clause_pattern)\n"
        "   and from the interpreter's re module (character tables) -- do not edit *)\n"
        "From Coq Require Import NArith List.\nImport ListNotations.\nOpen Scope N_scope.\n"
        "(* re.compile(CLAUSES, re.IGNORECASE) *)\n"
        f"Definition ignorecase : bool := {b(ci)}.\n"
        "(* SPACE: a one-or-more class of white space plus these characters *)\n"
        f"Definition space_ws : bool := {b(sp_ws)}.\n"
        f"Definition space_extra : list N := {ns(sp_extra)}.\n"
        "(* NAME: a one-or-more class of word characters plus these characters *)\n"
        f"Definition name_word : bool := {b(nm_w)}.\n"
        f"Definition name_extra : list N := {ns(nm_extra)}.\n"
        "(* the alternatives of CLAUSES in source order: 0 SPACE, 1 REDEFINES, 2 BLANK, 3 EXTERNAL, 4 GLOBAL, 5 JUSTIFIED,\n"
        "   6 OCCURS DEPENDING, 7 OCCURS, 8 PICTURE, 9 SIGN, 10 SYNCHRONIZED, 11 USAGE, 12 VALUE, 13 FILLER, 14 NAME *)\n"
        f"Definition alt_order : list N := {ns(order)}.\n"
        "(* synonym lists, in the order the alternation tries them *)\n"
        f"Definition zero_words : list (list N) :=\n  {words('zero_words')}.\n"
        f"Definition just_words : list (list N) :=\n  {words('just_words')}.\n"
        f"Definition pic_words : list (list N) :=\n  {words('pic_words')}.\n"
        f"Definition sync_words : list (list N) :=\n  {words('sync_words')}.\n"
        f"Definition usage_words : list (list N) :=\n  {words('usage_words')}.\n"
        "(* the negative lookahead for a hyphen after the usage word is present *)\n"
        f"Definition usage_guard : bool := {b(params['usage_guard'] != '')}.\n"
        "(* which optional words are optional (a question mark follows the group) *)\n"
        f"Definition when_opt : bool := {optional('when_opt')}.\n"
        f"Definition times_odo_opt : bool := {optional('times_odo_opt')}.\n"
        f"Definition on_opt : bool := {optional('on_opt')}.\n"
        f"Definition times_occ_opt : bool := {optional('times_occ_opt')}.\n"
        f"Definition pic_is_opt : bool := {optional('pic_is_opt')}.\n"
        f"Definition sign_word_opt : bool := {optional('sign_word_opt')}.\n"
        f"Definition sign_is_opt : bool := {optional('sign_is_opt')}.\n"
        f"Definition usage_word_opt : bool := {optional('usage_word_opt')}.\n"
        f"Definition usage_is_opt : bool := {optional('usage_is_opt')}.\n"
        f"Definition value_is_opt : bool := {optional('value_is_opt')}.\n"
        "(* white space: what the class escape s accepts *)\n"
        f"Definition ws_points : list N := {ns(ws_pts)}.\n"
        "(* word characters (class escape w) as ranges, below and above 128 *)\n"
        f"Definition word_lo : list (N * N) := {pairs(word_lo)}.\n"
        f"Definition word_hi : list (N * N) := {chunks(word_hi)}.\n"
        "(* non-ASCII characters that IGNORECASE equates with an ASCII letter: (character, upper-case letter) *)\n"
        f"Definition fold_extra : list (N * N) := {pairs(fold)}.\n"
    )


GENERATORS = {"ClausesParams": gen_ClausesParams}
