"""Shared generator / printer / runner for the layout checks (C01, C06, C10).

An abstract record tree is a nested dict:
  {"id": int, "kind": "elem"|"group", "size": int (elem), "pic": str, "usage": str, "occ": None | ("times", n) | ("odo", counter_id, max),
   "redef": None | target_id, "filler": bool, "kids": [...]}
The copybook text handed to the implementation is printed from it; the judge receives the tree
itself (wire form: see coq/Judge/JLayoutCommon.v) and never re-parses text.
"""
import io

# ---------------------------------------------------------------- elementary item pool (pic, usage, size by the COBOL rules)


def _positions(pic):
    """character positions of a picture as the project counts them for native text (the S is a position, V is not)"""
    import re
    n = 0
    for ch, rep in re.findall(r"([SX9V])(?:\((\d+)\))?", pic):
        if ch != "V":
            n += int(rep) if rep else 1
    return n


def elem_choices(display_only, text_sized=False):
    if text_sized:
        # the same pool in the same order (so that one seed draws the same tree), every item as wide as its picture has positions:
        # the width TextUnpacker gives an item of a schema made by JSONSchemaMaker(TextUnpacker)
        return [(pic, usage, _positions(pic)) for pic, usage, _ in elem_choices(display_only)]
    out = []
    for k in (1, 2, 3, 5, 8):
        out.append((f"X({k})", "DISPLAY", k))
    out.append(("XX", "DISPLAY", 2))
    for k in (1, 3, 4):
        out.append(("9" * k, "DISPLAY", k))
        out.append((f"S9({k})", "DISPLAY", k + 1))
    out.append(("S9(3)V99", "DISPLAY", 6))
    if not display_only:
        for m, n in ((3, 0), (4, 0), (5, 2), (1, 0), (2, 2)):
            out.append((f"S9({m})" + (f"V9({n})" if n else ""), "COMP-3", (m + n) // 2 + 1))
        out.append(("9(4)", "PACKED-DECIMAL", 3))
        out.append(("9(3)", "COMP", 2))
        out.append(("S9(3)", "BINARY", 2))
        out.append(("S9(5)", "COMP-4", 4))
        out.append(("9(9)", "COMPUTATIONAL", 4))
        out.append(("S9(12)", "COMP", 8))
        out.append(("S9(3)V99", "COMP", 4))
    return out


class Gen:
    def __init__(self, rng, display_only=False, allow_redef=True, allow_odo=True, allow_filler=True,
                 redef_in_occurs=False, occurs_elem_in_union=False, odo_in_table=False, odo_in_union=False, max_depth=4, max_kids=5,
                 text_sized=False):
        self.rng, self.display_only = rng, display_only
        self.allow_redef, self.allow_odo, self.allow_filler = allow_redef, allow_odo, allow_filler
        self.redef_in_occurs, self.occurs_elem_in_union, self.odo_in_table = redef_in_occurs, occurs_elem_in_union, odo_in_table
        self.odo_in_union = odo_in_union
        self.max_depth, self.max_kids = max_depth, max_kids
        self.next_id = 1
        self.counters = []          # ids of items usable as ODO counters (elementary, unsigned digits, never repeated)
        self.pool = elem_choices(display_only, text_sized)

    def new_id(self):
        i = self.next_id
        self.next_id += 1
        return i

    def elem(self, in_table, in_union):
        rng = self.rng
        pic, usage, size = rng.choice(self.pool)
        node = dict(id=self.new_id(), kind="elem", pic=pic, usage=usage, size=size, occ=None, redef=None, filler=False, kids=[])
        r = rng.random()
        if r < 0.18 and (not in_union or self.occurs_elem_in_union):
            node["occ"] = ("times", rng.randint(1, 4))
        elif r < 0.30 and self.allow_odo and self.counters and (not in_union or self.odo_in_union) and (not in_table or self.odo_in_table):
            node["occ"] = ("odo", rng.choice(self.counters), rng.randint(1, 4))
        elif self.allow_filler and rng.random() < 0.12:
            node["filler"] = True
        return node

    def counter(self):
        k = self.rng.randint(1, 2)
        node = dict(id=self.new_id(), kind="elem", pic="9" * k if self.rng.random() < 0.5 else f"9({k})", usage="DISPLAY",
                    size=k, occ=None, redef=None, filler=False, kids=[], is_counter=True)
        return node

    def group(self, depth, in_table, in_union, top=False):
        rng = self.rng
        node = dict(id=self.new_id(), kind="group", occ=None, redef=None, filler=False, kids=[])
        if not top:
            r = rng.random()
            if r < 0.25 and not in_union:
                node["occ"] = ("times", rng.randint(1, 3))
            elif r < 0.35 and self.allow_odo and self.counters and (not in_union or self.odo_in_union) and (not in_table or self.odo_in_table):
                node["occ"] = ("odo", rng.choice(self.counters), rng.randint(1, 3))
        table = in_table or node["occ"] is not None
        nk = rng.randint(1, self.max_kids)
        for _ in range(nk):
            r = rng.random()
            if r < 0.15 and self.allow_odo and not table and not in_union:
                c = self.counter()
                node["kids"].append(c)
                self.counters.append(c["id"])
            elif r < 0.40 and depth < self.max_depth:
                node["kids"].append(self.group(depth + 1, table, in_union))
            else:
                node["kids"].append(self.elem(table, in_union))
            # REDEFINES of an earlier sibling
            may_union = (node["occ"] is None) or self.redef_in_occurs
            if self.allow_redef and may_union and rng.random() < 0.22:
                self.add_redefiner(node, depth, table)
        return node

    def add_redefiner(self, parent, depth, table):
        rng = self.rng
        bases = [k for k in parent["kids"] if k["redef"] is None and not k["filler"] and (self.odo_in_union or not contains_odo(k))
                 and (k["occ"] is None or k["kind"] == "group" or self.occurs_elem_in_union)
                 and fixed_extent(k) > 0 and not k.get("is_counter")]
        if not bases:
            return
        base = rng.choice(bases)
        room = fixed_extent(base)
        if rng.random() < 0.5 or depth >= self.max_depth:
            k = rng.randint(1, room)
            red = dict(id=self.new_id(), kind="elem", pic=f"X({k})", usage="DISPLAY", size=k, occ=None, redef=base["id"], filler=False, kids=[])
        else:
            red = dict(id=self.new_id(), kind="group", occ=None, redef=base["id"], filler=False, kids=[])
            left = room
            while left > 0 and len(red["kids"]) < 3:
                k = rng.randint(1, left)
                red["kids"].append(dict(id=self.new_id(), kind="elem", pic=f"X({k})", usage="DISPLAY", size=k, occ=None, redef=None, filler=False, kids=[]))
                left -= k
                if rng.random() < 0.4:
                    break
        parent["kids"].append(red)


def contains_odo(n):
    return (n["occ"] is not None and n["occ"][0] == "odo") or any(contains_odo(k) for k in n["kids"])


def fixed_extent(n):
    """extent of an item without ODO (for sizing redefiners)"""
    one = n["size"] if n["kind"] == "elem" else sum(fixed_extent(k) for k in n["kids"] if k["redef"] is None)
    cnt = 1 if n["occ"] is None else n["occ"][1] if n["occ"][0] == "times" else 0
    return one * cnt


def gen_tree(rng, dup_names=False, **opts):
    g = Gen(rng, **opts)
    t = g.group(0, False, False, top=True)
    if dup_names:
        duplicate_names(t, rng)
    return t


def duplicate_names(tree, rng):
    """give an item in one group the data name of an item in ANOTHER group (legal COBOL: qualified names):
    the same id twice, never among siblings, never a counter or FILLER, never an ancestor/descendant pair"""
    groups = []

    def go(n, anc):
        if n["kind"] == "group":
            groups.append((n, anc))
            for k in n["kids"]:
                go(k, anc + [n["id"]])
    go(tree, [])
    cands = []
    for gi, (g, anc) in enumerate(groups):
        for k in g["kids"]:
            if not k["filler"] and not k.get("is_counter") and k["kind"] == "elem":
                cands.append((gi, k))
    rng.shuffle(cands)
    used = set()
    for a in range(len(cands)):
        for b in range(a + 1, len(cands)):
            (ga, ka), (gb, kb) = cands[a], cands[b]
            if ga == gb or id(ka) in used or id(kb) in used:
                continue
            # keep sibling ids distinct inside both groups and leave REDEFINES targets consistent
            sib_b = {k["id"] for k in groups[gb][0]["kids"]}
            if ka["id"] in sib_b:
                continue
            if any(k["redef"] == kb["id"] for k in groups[gb][0]["kids"]):
                # the redefiners of kb follow the new name
                for k in groups[gb][0]["kids"]:
                    if k["redef"] == kb["id"]:
                        k["redef"] = ka["id"]
            kb["id"] = ka["id"]
            used.add(id(ka)); used.add(id(kb))
            if len(used) >= 4:
                return


# ---------------------------------------------------------------- names


def spell(i):
    """the data name of item i: upper, mixed or lower case (the $anchor keeps the spelling of the declaration; every
    reference - REDEFINES, DEPENDING ON - is spelled like the declaration); names are pairwise distinct (the id is part of each)"""
    plain = [f"N{i}", f"Nm-{i}", f"fld-{i}x", f"N{i}", f"Q{i}-Cnt"][i % 5]
    if i % 3 != 2:
        return plain
    # every third item: a USAGE word, PIC / PICTURE or USAGE / IS inside the name - at the start (followed by a hyphen), in the
    # middle and at the end (estruct's second parse reads the whole entry text, the data name included: only the item's own
    # USAGE and PICTURE clauses may decide its width; before the repair of estruct.clause_pattern the name did)
    return [f"COMP-AMT-{i}", f"EMP-COMPANY-{i}", f"WS-COMP-{i}", f"TOT-BINARY-{i}", f"N{i}-DISPLAY", f"X{i}-PIC", f"PACKED-DECIMAL-Q{i}",
            f"Q{i}-COMP-3", f"BINARY-{i}", f"Old-COMPUTATIONAL-{i}", f"n{i}-PICTURE", f"USAGE-IS-COMP-{i}", f"DISPLAY-{i}-X",
            f"N{i}-PACKED-DECIMAL"][(i // 3) % 14]


def extra_clauses(n):
    """clauses that do not affect storage (VALUE, BLANK WHEN ZERO, JUSTIFIED), on some elementary items"""
    if n["kind"] != "elem" or n.get("is_counter"):
        return []
    i, pic, out = n["id"], n["pic"], []
    numeric_display = n["usage"] == "DISPLAY" and set(pic) <= set("S9V()0123456789") and "9" in pic
    if i % 6 == 1 and numeric_display and not pic.startswith("S"):
        out.append("BLANK WHEN ZERO")
    if i % 6 == 2 and pic.startswith("X"):
        out.append("JUSTIFIED RIGHT")
    if i % 4 == 3 and n["redef"] is None and n["occ"] is None:
        out.append("VALUE SPACES" if pic.startswith("X") else "VALUE ZERO")
    return out


def assign_names(tree):
    """id -> data name as the implementation will know it (unique_name): N<id>, or FILLER-k numbered in source order"""
    names, fill = {}, [0]

    def go(n):
        if n["filler"]:
            fill[0] += 1
            names[n["id"]] = f"FILLER-{fill[0]}"
        else:
            names[n["id"]] = spell(n["id"])
        for k in n["kids"]:
            go(k)
    go(tree)
    return names


def print_copybook(tree):
    lines = []

    def go(n, depth):
        level = "01" if depth == 0 else f"{depth * 5:02d}"
        ind = " " * (7 + 4 * min(depth, 6))
        name = "FILLER" if n["filler"] else spell(n["id"])
        parts = [f"{level}  {name}"]
        if n["redef"] is not None:
            parts.append(f"REDEFINES {spell(n['redef'])}")
        if n["occ"] is not None:
            if n["occ"][0] == "times":
                parts.append(f"OCCURS {n['occ'][1]} TIMES")
            else:
                # the spellings the grammar allows: optional lower bound, optional TIMES, optional ON
                v = n["id"] % 6
                lower = "" if v in (1, 4) else "0 TO "
                times = "" if v in (2, 4) else " TIMES"
                on = "" if v in (3, 5) else " ON"
                parts.append(f"OCCURS {lower}{n['occ'][2]}{times}")
                parts.append(f"DEPENDING{on} {spell(n['occ'][1])}")
        if n["kind"] == "elem":
            parts.append(f"PIC {n['pic']}")
            if n["usage"] != "DISPLAY":
                parts.append(f"USAGE {n['usage']}")
            parts += extra_clauses(n)
        for j, p in enumerate(parts):
            end = "." if j == len(parts) - 1 else ""
            lines.append((ind if j == 0 else ind + "    ") + p + end)
        for k in n["kids"]:
            go(k, depth + 1)
    go(tree, 0)
    assert all(len(l) < 72 for l in lines)
    return "\n".join(lines) + "\n"


# ---------------------------------------------------------------- wire form


def occ_sx(n):
    if n["occ"] is None:
        return [0]
    if n["occ"][0] == "times":
        return [1, n["occ"][1]]
    return [2, n["occ"][1]]


def tree_sx(n):
    red = [0] if n["redef"] is None else [1, n["redef"]]
    if n["kind"] == "elem":
        return [0, n["id"], n["size"], occ_sx(n), red]
    return [1, n["id"], occ_sx(n), red, [tree_sx(k) for k in n["kids"]]]


# ---------------------------------------------------------------- spec-independent helpers of the generator: counts, records, paths


def choose_counts(tree, rng):
    env = {}

    def go(n):
        if n.get("is_counter"):
            env[n["id"]] = 0
        for k in n["kids"]:
            go(k)
    go(tree)
    maxes = {}

    def mx(n):
        if n["occ"] is not None and n["occ"][0] == "odo":
            c = n["occ"][1]
            maxes[c] = min(maxes.get(c, 99), n["occ"][2])
        for k in n["kids"]:
            mx(k)
    mx(tree)
    for c in env:
        env[c] = rng.randint(0, maxes.get(c, 3))
        if rng.random() < 0.15:
            env[c] = 0
        elif rng.random() < 0.15:
            env[c] = maxes.get(c, 3)
    return env


def layout(tree, env):
    """(total length, [(counter id, start, size)], [paths]) computed by the GENERATOR to build a consistent record and to
    enumerate navigation paths; the judge recomputes everything from Spec/Layout.v and rejects an inconsistent record."""
    counters, paths = [], []

    def count(n):
        if n["occ"] is None:
            return 1
        return n["occ"][1] if n["occ"][0] == "times" else env[n["occ"][1]]

    def ext1(n):
        if n["kind"] == "elem":
            return n["size"]
        return sum(count(k) * ext1(k) for k in n["kids"] if k["redef"] is None)

    def visit_occurrence(n, start, path, live):
        # one occurrence of n at start
        if n["kind"] == "elem":
            return
        off = start
        starts = {}
        for k in n["kids"]:
            if k["redef"] is not None:
                st = starts.get(k["redef"], off)
            else:
                st = off
                off += count(k) * ext1(k)
            starts[k["id"]] = st
            visit_item(k, st, path + [[0, k["id"]]], live)

    def visit_item(n, start, path, live):
        paths.append(path)
        if n.get("is_counter") and live:
            counters.append((n["id"], path, start, n["size"]))
        if n["occ"] is None:
            visit_occurrence(n, start, path, live)
            return
        c = count(n)
        idx = sorted(set([0, 1, c - 1]) & set(range(c)))
        for i in idx:
            p = path + [[1, i]]
            paths.append(p)
            if n["kind"] == "elem":
                paths.append(p + [[0, n["id"]]])
            else:
                visit_occurrence(n, start + i * ext1(n), p, False)
        paths.append(path + [[1, c]])            # refused
        if c:
            paths.append(path + [[1, c + 2]])
    paths.append([])
    visit_occurrence(tree, 0, [], True)
    return ext1(tree) * count(tree), counters, paths


def make_record(total, counters, env, text):
    if text:
        r = [0x21 + (i * 7 + 3) % 90 for i in range(total)]
        zero = 0x30
    else:
        r = [(i * 37 + 11) % 251 for i in range(total)]
        zero = 0xF0
    for cid, _path, st, sz in counters:
        digits = f"{env[cid]:0{sz}d}"
        for j, d in enumerate(digits):
            r[st + j] = zero + int(d)
    return r


# ---------------------------------------------------------------- running the implementation


def key_of(name, names_rev):
    if name.startswith("REDEFINES-"):
        return [1, names_rev.get(name[len("REDEFINES-"):], 999999)]
    return [0, names_rev.get(name, 999999)]


def schema_sx(d, names_rev, unpacker):
    from stingray.schema_instance import AtomicSchema
    a = [1, key_of(d["$anchor"], names_rev)] if "$anchor" in d else [0]
    if d.get("oneOf"):
        return [4, a, [schema_sx(x, names_rev, unpacker) for x in d["oneOf"]]]
    if d.get("$ref"):
        return [5, key_of(d["$ref"].lstrip("#"), names_rev)]
    t = d.get("type")
    if t == "array":
        if "maxItemsDependsOn" in d:
            return [2, a, names_rev.get(d["maxItemsDependsOn"]["$ref"].lstrip("#"), 999999), schema_sx(d["items"], names_rev, unpacker)]
        return [1, a, d["maxItems"], schema_sx(d["items"], names_rev, unpacker)]
    if t == "object":
        return [3, a, [[key_of(k, names_rev), schema_sx(v, names_rev, unpacker)] for k, v in d["properties"].items()]]
    return [0, a, unpacker.calcsize(AtomicSchema(d))]


_SHARED = {}


def shared_unpacker(text):
    """one long-lived unpacker per class for the whole run, as a long-lived workbook would have:
    state kept on the unpacker across schemas (caches) shows up as a difference"""
    from stingray.schema_instance import EBCDIC, TextUnpacker
    cls = TextUnpacker if text else EBCDIC
    if cls not in _SHARED:
        _SHARED[cls] = cls()
    return _SHARED[cls]


def shared_workbook():
    if "wb" not in _SHARED:
        import atexit, os, tempfile
        from pathlib import Path
        from stingray.workbook import COBOL_EBCDIC_File
        fd, path = tempfile.mkstemp(suffix=".data")
        os.close(fd)
        _SHARED["wb"] = COBOL_EBCDIC_File(Path(path))

        def done():
            try:
                _SHARED["wb"].close()
            except BaseException:
                pass
            os.unlink(path)
        atexit.register(done)
    return _SHARED["wb"]


def observe_layout(tree, record, paths, text, text_sized=False):
    """returns (schema_obs, top_obs, lrecl_obs, [(path, obs)], extras) from the real code.
    text_sized: the schema is made by JSONSchemaMaker(TextUnpacker), so that every width is counted in characters"""
    from lib import exn_code
    from stingray.cobol_parser import schema_iter
    from stingray.schema_instance import SchemaMaker, EBCDIC, TextUnpacker, BytesInstance, TextInstance, LocationMaker
    names = assign_names(tree)
    rev = {v: k for k, v in names.items()}
    cb = print_copybook(tree)
    unp = shared_unpacker(text)
    keep = [unp]
    try:
        if text_sized:
            from stingray.cobol_parser import JSONSchemaMaker, structure, dde_sentences, reference_format
            maker = JSONSchemaMaker(TextUnpacker)
            docs = [maker.jsonschema(r) for r in structure(dde_sentences(reference_format(io.StringIO(cb))))]
        else:
            docs = list(schema_iter(io.StringIO(cb)))
        js = docs[0]
        schema_obs = [0, schema_sx(js, rev, TextUnpacker() if text_sized else EBCDIC())]
    except BaseException as ex:
        code = exn_code(ex)
        return [1, code], [1, code], [1, code], [[p, [1, code]] for p in paths], None
    schema = SchemaMaker.from_json(js)
    inst = TextInstance("".join(chr(c) for c in record)) if text else BytesInstance(bytes(record))
    try:
        lrecl_obs = [0, LocationMaker(unp, schema).from_schema().end]
    except BaseException as ex:
        lrecl_obs = [1, exn_code(ex)]
    if not text:
        # the record length as an application sees it: the lrecl a sheet of ONE long-lived COBOL_EBCDIC_File (opened once
        # for the whole run, without an lrecl) computes when this schema is bound to it; reported when it differs
        try:
            sheet = shared_workbook().sheet("")
            sheet.set_schema(schema)
            # since fix 64e9f81 set_schema keeps lrecl None when from_schema() raises ValueError (an OCCURS DEPENDING ON layout has no
            # computable length): "no length" travels as that ValueError, which is what from_schema itself reported above
            wb_obs = [0, sheet.lrecl] if sheet.lrecl is not None else [1, exn_code(ValueError())]
        except BaseException as ex:
            wb_obs = [1, exn_code(ex)]
        if wb_obs != lrecl_obs:
            lrecl_obs = wb_obs if wb_obs[0] == 0 else [1, 0]
    try:
        nav0 = unp.nav(schema, inst)
        top_obs = [0, nav0.location.end]
    except BaseException as ex:
        code = exn_code(ex)
        return schema_obs, [1, code], lrecl_obs, [[p, [1, code]] for p in paths], None
    # Navigators are created breadth-first from SHARED parent navigators and all of them are kept alive;
    # only afterwards is anything read.  So every index() of a table is taken from one held table navigator
    # before the rows are looked into - the way an application loops over a table.
    navs = {(): nav0}
    errs = {}
    for p in sorted(paths, key=len):
        t = tuple(map(tuple, p))
        for k in range(1, len(t) + 1):
            pre = t[:k]
            if pre in navs or pre in errs:
                continue
            par = pre[:-1]
            if par in errs:
                errs[pre] = errs[par]
                continue
            kind, x = pre[-1]
            try:
                # the subscript spelling nav[...] is the documented wrapper for name() / index(): every other step uses it
                if (len(pre) + (x if kind == 1 else 0)) % 2:
                    navs[pre] = navs[par][x] if kind == 1 else navs[par][names[x]]
                else:
                    navs[pre] = navs[par].index(x) if kind == 1 else navs[par].name(names[x])
            except BaseException as ex:
                if isinstance(ex, (KeyboardInterrupt, SystemExit)):
                    raise
                errs[pre] = exn_code(ex)
    out = []
    for p in paths:
        t = tuple(map(tuple, p))
        if t in errs:
            out.append([p, [1, errs[t]]])
            continue
        try:
            nav = navs[t]
            raw = nav.raw()
            # the same bytes by the two other routes the API offers (the Location's own raw(), a cloned instance): when one of
            # them reads differently it is that reading which is reported
            for other in (lambda: nav.location.raw(nav.instance), lambda: nav.raw_instance()):
                alt = other()
                if alt != raw or type(alt) is not type(raw) and not isinstance(alt, type(raw)):
                    raw = alt
                    break
            raw = [ord(c) for c in raw] if text else list(raw)
            out.append([p, [0, nav.location.start, nav.location.end, raw]])
        except BaseException as ex:
            if isinstance(ex, (KeyboardInterrupt, SystemExit)):
                raise
            out.append([p, [1, exn_code(ex)]])
    return schema_obs, top_obs, lrecl_obs, out, dict(nav0=nav0, names=names, unpacker=unp, schema=schema, inst=inst, js=js)
