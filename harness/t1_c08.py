"""T1 plug-in for C08: json_type of JSONSchemaMaker and JSONSchemaMakerExtendedVocabulary
(src/stingray/cobol_parser.py) -> coq/Gen/JsonTypeParams.v.

Walks the if/elif chain over `usage` of both methods and extracts, per branch, the usage-name set
(as spelling indices), the keyword dict the branch emits (type / contentEncoding / conversion as
codes) and, for the DISPLAY branch, the character set of the numeric test and whether the
character is upper-cased first.  Fail-closed: any other shape raises translate.Unrecognised (the
committed pinned text is then used and the run relies on the correspondence check)."""
import ast

from translate import Unrecognised, _func, _parse

SPELLINGS = ["BINARY", "COMPUTATIONAL-1", "COMPUTATIONAL-2", "COMPUTATIONAL-3", "COMPUTATIONAL-4", "COMPUTATIONAL",
             "COMP-1", "COMP-2", "COMP-3", "COMP-4", "COMP", "DISPLAY", "PACKED-DECIMAL"]
TYPES = {"string": 1, "integer": 2, "number": 3, "decimal": 4, "array": 5, "object": 6, "null": 7, "boolean": 8}
ENCODINGS = {"cp037": 1, "packed-decimal": 2, "bigendian-int": 3, "bigendian-float": 4, "bigendian-double": 5}
# conversion codes = the key codes of Gen/ConversionParams.v
CONVERSIONS = {"null": 1, "bool": 2, "integer": 3, "number": 4, "string": 5, "decimal": 6}


def _dict_codes(d):
    if not isinstance(d, ast.Dict):
        raise Unrecognised("branch does not emit a dict literal")
    out = {"type": 0, "contentEncoding": 0, "conversion": 0}
    for k, v in zip(d.keys, d.values):
        if not (isinstance(k, ast.Constant) and isinstance(k.value, str) and isinstance(v, ast.Constant) and isinstance(v.value, str)):
            raise Unrecognised("emitted keyword is not a string literal")
        if k.value not in out:
            raise Unrecognised(f"emitted keyword {k.value!r}")
        table = {"type": TYPES, "contentEncoding": ENCODINGS, "conversion": CONVERSIONS}[k.value]
        out[k.value] = table.get(v.value, 99)
    return (out["type"], out["contentEncoding"], out["conversion"])


def _emitted(stmts):
    """the dict a straight-line branch body emits: `schema = {...}` or `return {...}`"""
    if len(stmts) != 1:
        raise Unrecognised("branch body is not a single statement")
    st = stmts[0]
    if isinstance(st, ast.Assign) and len(st.targets) == 1 and isinstance(st.targets[0], ast.Name) and st.targets[0].id == "schema":
        return _dict_codes(st.value)
    if isinstance(st, ast.Return):
        return _dict_codes(st.value)
    raise Unrecognised("branch body shape")


def _names(test):
    """usage == 'X'  or  usage in {...}  ->  list of spelling indices"""
    if not (isinstance(test, ast.Compare) and len(test.ops) == 1 and isinstance(test.left, ast.Name) and test.left.id == "usage"):
        raise Unrecognised(f"usage test {ast.unparse(test)}")
    op, comp = test.ops[0], test.comparators[0]
    if isinstance(op, ast.Eq) and isinstance(comp, ast.Constant) and isinstance(comp.value, str):
        names = [comp.value]
    elif isinstance(op, ast.In) and isinstance(comp, (ast.Set, ast.Tuple, ast.List)):
        names = []
        for e in comp.elts:
            if not (isinstance(e, ast.Constant) and isinstance(e.value, str)):
                raise Unrecognised("usage name is not a literal")
            names.append(e.value)
    else:
        raise Unrecognised(f"usage test {ast.unparse(test)}")
    try:
        return [SPELLINGS.index(n) for n in names]
    except ValueError as ex:
        raise Unrecognised(f"unknown usage spelling: {ex}")


def _numeric_test(test):
    """picture and all(<c or cast(str, c)>[.upper()] in {...} for c in picture) -> (chars, upper?)"""
    if not (isinstance(test, ast.BoolOp) and isinstance(test.op, ast.And) and len(test.values) == 2
            and isinstance(test.values[0], ast.Name) and test.values[0].id == "picture"):
        raise Unrecognised("numeric test is not `picture and all(...)`")
    call = test.values[1]
    if not (isinstance(call, ast.Call) and isinstance(call.func, ast.Name) and call.func.id == "all" and len(call.args) == 1
            and isinstance(call.args[0], ast.GeneratorExp)):
        raise Unrecognised("numeric test is not all(generator)")
    g = call.args[0]
    if not (len(g.generators) == 1 and not g.generators[0].ifs and isinstance(g.generators[0].target, ast.Name)
            and isinstance(g.generators[0].iter, ast.Name) and g.generators[0].iter.id == "picture"):
        raise Unrecognised("generator shape")
    var = g.generators[0].target.id
    elt = g.elt
    if not (isinstance(elt, ast.Compare) and len(elt.ops) == 1 and isinstance(elt.ops[0], ast.In)
            and isinstance(elt.comparators[0], (ast.Set, ast.Tuple, ast.List))):
        raise Unrecognised("membership test shape")
    chars = []
    for e in elt.comparators[0].elts:
        if not (isinstance(e, ast.Constant) and isinstance(e.value, str) and len(e.value) == 1):
            raise Unrecognised("picture character is not a one-character literal")
        chars.append(ord(e.value))

    def is_var(n):
        if isinstance(n, ast.Name) and n.id == var:
            return True
        return (isinstance(n, ast.Call) and isinstance(n.func, ast.Name) and n.func.id == "cast" and len(n.args) == 2
                and isinstance(n.args[1], ast.Name) and n.args[1].id == var)
    left = elt.left
    if is_var(left):
        return chars, False
    if (isinstance(left, ast.Call) and isinstance(left.func, ast.Attribute) and left.func.attr == "upper" and not left.args
            and is_var(left.func.value)):
        return chars, True
    raise Unrecognised("tested expression shape")


def _method(tree, cls):
    fn = _func(tree, "json_type", cls)
    body = [s for s in fn.body if not (isinstance(s, ast.Expr) and isinstance(s.value, ast.Constant))]   # docstring
    if not body or not (isinstance(body[0], ast.Assign) and ast.unparse(body[0]) == "usage = node.clauses.get('usage', 'DISPLAY')"):
        raise Unrecognised(f"{cls}.json_type: first statement")
    rest = body[1:]
    if not rest or not isinstance(rest[0], ast.If):
        raise Unrecognised(f"{cls}.json_type: no if chain")
    if len(rest) == 2:
        if not (isinstance(rest[1], ast.Return) and isinstance(rest[1].value, ast.Name) and rest[1].value.id == "schema"):
            raise Unrecognised(f"{cls}.json_type: tail")
    elif len(rest) != 1:
        raise Unrecognised(f"{cls}.json_type: tail")
    branches = []          # (names, emitted) in chain order; the DISPLAY branch is handled apart
    display = None
    node = rest[0]
    while True:
        names = _names(node.test)
        if names == [SPELLINGS.index("DISPLAY")] and display is None and not branches:
            b = node.body
            if not (len(b) >= 2 and isinstance(b[0], ast.Assign) and ast.unparse(b[0]) == "picture = node.clauses.get('picture')"
                    and isinstance(b[1], ast.If)):
                raise Unrecognised(f"{cls}.json_type: DISPLAY branch")
            chars, upper = _numeric_test(b[1].test)
            numeric = _emitted(b[1].body)
            if b[1].orelse and len(b) == 2:
                text = _emitted(b[1].orelse)
            elif not b[1].orelse and len(b) == 3:
                text = _emitted(b[2:])
            else:
                raise Unrecognised(f"{cls}.json_type: DISPLAY branch tail")
            display = (names, chars, upper, numeric, text)
        else:
            branches.append((names, _emitted(node.body)))
        if len(node.orelse) == 1 and isinstance(node.orelse[0], ast.If):
            node = node.orelse[0]
        elif len(node.orelse) == 1 and isinstance(node.orelse[0], ast.Raise):
            break
        else:
            raise Unrecognised(f"{cls}.json_type: end of chain")
    if display is None:
        raise Unrecognised(f"{cls}.json_type: DISPLAY branch is not first")
    return display, branches


def _lst(xs):
    return "[" + "; ".join(str(x) for x in xs) + "]"


def _trip(t):
    return f"({t[0]}, {t[1]}, {t[2]})"


def _emit(prefix, display, branches):
    names, chars, upper, numeric, text = display
    out = [f"Definition {prefix}_display : list N := {_lst(names)}.",
           f"Definition {prefix}_numeric_chars : list N := {_lst(chars)}.",
           f"Definition {prefix}_upper : bool := {'true' if upper else 'false'}.",
           f"Definition {prefix}_out_numeric : N * N * N := {_trip(numeric)}.",
           f"Definition {prefix}_out_text : N * N * N := {_trip(text)}.",
           f"Definition {prefix}_branches : list (list N * (N * N * N)) := ["
           + "; ".join(f"({_lst(n)}, {_trip(e)})" for n, e in branches) + "]."]
    return "\n".join(out) + "\n"


def gen_JsonTypeParams(src):
    tree = _parse(src, "stingray/cobol_parser.py")
    std = _method(tree, "JSONSchemaMaker")
    ext = _method(tree, "JSONSchemaMakerExtendedVocabulary")
    return (
        "(* GENERATED by harness/t1_c08.py from src/stingray/cobol_parser.py json_type (both generators) -- do not edit.\n"
        "   usage spellings numbered as in Gen/EstructParams.v; emitted keywords as (type, contentEncoding, conversion):\n"
        "   type 0 absent 1 string 2 integer 3 number 4 decimal 5 array 6 object 7 null 8 boolean 99 other;\n"
        "   contentEncoding 0 absent 1 cp037 2 packed-decimal 3 bigendian-int 4 bigendian-float 5 bigendian-double 99 other;\n"
        "   conversion 0 absent 1 null 2 bool 3 integer 4 number 5 string 6 decimal 99 other.\n"
        "   jt_ = JSONSchemaMaker, xt_ = JSONSchemaMakerExtendedVocabulary; the branches are in the order of the elif chain. *)\n"
        "From Coq Require Import NArith List.\nImport ListNotations.\nOpen Scope N_scope.\n"
        + _emit("jt", *std) + _emit("xt", *ext)
    )


GENERATORS = {"JsonTypeParams": gen_JsonTypeParams}
