"""C13 - PICTURE strings: strict acceptance, repeat-count equivalence, one interpretation.

Runs both picture scanners (estruct.Representation.normalize_picture / parse, cobol_parser.normalize_picture)
and both generator-side classifiers (JSONSchemaMaker.json_type, JSONSchemaMakerExtendedVocabulary.json_type)
on a picture string and serialises what they did.  No expectations are computed here.
"""
import itertools
import re
from lib import S, observe_call

GEN = ["PictureParams"]
RULE = ("exhaustive over the 27-symbol alphabet {S + - D B C R $ , / * V . A X 9 Z 0 P ( ) 1 2 3 s x ?} up to length 3 (quick) / 4 (thorough); "
        "random strings up to length 30 over the alphabet (plus a few foreign characters); well-formed pictures from a grammar generator "
        "(numeric with and without repeat counts, edited, alphanumeric, counts with leading zeros); every well-formed picture with one foreign "
        "character injected at every position; a fixed witness list; entry = well-formed pictures inside a data description entry, followed directly by nothing, a comma or a semicolon before the next clause (what the generator's clause scanner and the decoder's clause scanner each take as the picture, and how each then treats it). Non-trivial = at least one scanner accepts the string (judge branch != 0); "
        "distinct = distinct case lines.")
TRIVIAL_BRANCHES = [0]
ASSUMPTIONS = [
    "Python re.finditer semantics of the picture alternation (leftmost alternative first, unmatched characters skipped), modelled by hand in coq/Model/Picture.v and tied by this run",
    "re.IGNORECASE on the generator pattern = ASCII case folding plus U+017F matching S (checked over all code points when the model was written)",
    "\\d and int() accept exactly Unicode category Nd (table regenerated from unicodedata on every run)",
    "repeat counts small enough for int(count) * char to be built in memory (the harness truncates every count to three digits, four with a leading zero)",
    "Representation.parse is observed only for non-empty strings without white space (the clause pattern hands exactly that string to normalize_picture)",
    "the classifiers are observed on a DDE built with explicit clauses name/picture (clause_dict would raise before json_type for rejected pictures)",
]
TRUSTED = ["unicodedata / re / int of the interpreter under /venv (same interpreter runs the implementation)"]

ALPHABET = "S+-DBCR$,/*V.AX9Z0P()123sx?"
KEYS = {"sign": 0, "char": 1, "decimal": 2, "digit": 3, "repeat": 4}
FOREIGN = ["?", "#", "q", "x", "s", " ", "٣", "ſ", "(", ")", "5"]


# ------------------------------------------------------------------ generators

def _count(rng, n):
    style = rng.randint(0, 3)
    if style == 0:
        return f"({n})"
    if style == 1:
        return f"({n:04d})"
    if style == 2:
        return f"(0{n})"
    return f"({n})"


def _group(rng, ch, repeat):
    n = rng.randint(1, 12)
    if repeat:
        return ch + _count(rng, n), True
    return ch * n, False


def numeric_picture(rng, repeat):
    """[S] nines [V nines] with optional scaling P; repeat = use count notation somewhere"""
    out = "S" if rng.random() < 0.6 else ""
    if rng.random() < 0.15:
        out += "P" * rng.randint(1, 3)
    used = False
    g, u = _group(rng, "9", repeat and rng.random() < 0.8)
    out += g; used |= u
    if rng.random() < 0.6:
        out += "V"
        g, u = _group(rng, "9", repeat and (not used or rng.random() < 0.5))
        out += g; used |= u
    elif repeat and not used:
        out += "9(2)"
    return out


def edited_picture(rng):
    heads = ["", "", "+", "-", "$", "$$$", "+++", "---", "**", "Z", "ZZ", "ZZZ,ZZ", "$$,$$$,$$", "***,**", "Z(3)", "Z(5)", "$Z(4)", "0", "B"]
    mids = ["9", "99", "999", "9(3)", "9(4)", "Z9", "ZZ9", "9B9", "99/99/99", "9(2)/9(2)/9(4)", "9,999", "Z,ZZ9", "9(3)B9(3)", "009"]
    fracs = ["", "", ".99", ".9", ".9(2)", ".9(0003)", ".999", ".ZZ", ".**"]
    tails = ["", "", "", "+", "-", "CR", "DB", "BCR", "B"]
    return rng.choice(heads) + rng.choice(mids) + rng.choice(fracs) + rng.choice(tails)


def alnum_picture(rng):
    pieces = []
    for _ in range(rng.randint(1, 3)):
        ch = rng.choice("XXXA")
        style = rng.randint(0, 2)
        n = rng.randint(1, 40)
        pieces.append(ch * min(n, 8) if style == 0 else ch + _count(rng, n))
    if rng.random() < 0.2:
        pieces.append(rng.choice(["B", "0", "/", "9(3)", "99"]))
    return "".join(pieces)


WITNESSES = [
    "", "9", "X", "S9", "9?9", "9(0)", "X(0)", "9(00)", "9(0)9", "s9(3)", "S9(3)", "9(3)", "999", "S9(5)V99", "S99999V99", "S9(0005)V9(0002)",
    "ſ9", "V", "VV", "P", "PV", "VP", "+9S", "-S9", "DBS", "9.9V9", ".V", "9(٣)", "9(1٣)", "9٣9", "99(3)", "X9(3)", "PP9", "9PP", "SPP9",
    "S9PP", "x(3)", "X(3)", "a(2)", "db", "DB", "cr", "CR", "D", "C", "DR", "CB", "9D", "9(", "9()", "9(3", "(3)", "9(3))", "9((3)", "9(3)(2)",
    "X(10)", "X(0100)", "$(5)", "$(5)9", "P(3)9", "+(3)9", "Z(3)9", "Z,ZZ9.99CR", "$$$,$$9.99-", "***,**9.99", "99/99/99", "9B9", "0009", "B", "9 9",
    " 9", "9 ", "9\t9", "S9(2)v9(3)", "S9(2)V9(3)", "9V9V9", "SS9", "9S", "9+", "+9", "+9+", "9.9.9", "9V9.9", "ABX", "A9X0Z", "9(9", "9)9", "(", ")",
    "?", "9?", "?9", "q9", "9q9", "COMP", "PIC", "IS", "9(12)", "X(300)", "9(0012)X",
]


_COUNT = re.compile(r"\((\d+)")


def _truncate(m):
    digits = m.group(1)
    return "(" + digits[: 4 if digits.startswith("0") else 3]


_RUN_THEN_COUNT = re.compile(r"[AX9Z0][AX9Z0]\(")


def inputs(ctx):
    """every generated string passes through one filter: a parenthesis is followed by at most three
    decimal digits (four when the first is a zero), so that int(count) * char stays small (resource limit, see ASSUMPTIONS)"""
    for stream, text in _inputs(ctx):
        if isinstance(text, dict):
            yield stream, dict(text, text=_COUNT.sub(_truncate, text["text"]))
        else:
            yield stream, _COUNT.sub(_truncate, text)


def _inputs(ctx):
    rng = ctx.rng
    quick = ctx.tier == "quick"
    maxlen = 3 if quick else 4
    ctx.exhaustive.append(f"alphabet{len(ALPHABET)}_len<={maxlen}")
    for n in range(maxlen + 1):
        for t in itertools.product(ALPHABET, repeat=n):
            yield "exhaustive", "".join(t)
    for w in WITNESSES:
        yield "witness", w
    # random strings
    pools = [ALPHABET, "S9V9(3)XAZ0", "9()0123", "SV9P", ALPHABET + "pvabcdrz #٣ſ", "$,/*B.+-DBCR9Z"]
    for _ in range(3000 if quick else 60000):
        pool = rng.choice(pools)
        k = rng.randint(1, 30) if rng.random() < 0.5 else rng.randint(4, 9)
        yield "random", "".join(rng.choice(pool) for _ in range(k))
    # well-formed pictures
    # (stream labels are syntactic: a count directly after a run of two or more data characters, and
    #  count notation in a picture of S V P 9 only, get their own streams - both hit known findings)
    wf = []

    def label(base, p):
        if _RUN_THEN_COUNT.search(p):
            return "wf_run_then_count"
        if "(" in p and set(p) <= set("SVP9()0123456789"):
            return "wf_numeric_repeat"
        return base

    for _ in range(400 if quick else 6000):
        p = numeric_picture(rng, False); wf.append(p); yield label("wf_numeric_plain", p), p
        p = numeric_picture(rng, True); wf.append(p); yield label("wf_numeric_repeat", p), p
        p = edited_picture(rng); wf.append(p); yield label("wf_edited", p), p
        p = alnum_picture(rng); wf.append(p); yield label("wf_alnum", p), p
    # the same pictures inside a data description entry, followed by nothing, a comma or a semicolon before the next clause:
    # both sides must take the SAME picture string out of the entry and treat it as they treat that string alone
    for i, p in enumerate(wf[: (400 if quick else 6000)]):
        if len(p) <= 40:
            yield "entry", {"text": p, "sep": [0, 44, 59][i % 3]}
    # letter case: the same pictures in lower case
    for p in wf[: (200 if quick else 4000)]:
        yield "wf_lower", p.lower()
    # one foreign character injected at every position
    seen = set()
    for p in wf[: (240 if quick else 3000)]:
        if p in seen:
            continue
        seen.add(p)
        for i in range(len(p) + 1):
            f = rng.choice(FOREIGN)
            yield "injected", p[:i] + f + p[i:]
        i = rng.randrange(len(p))
        yield "replaced", p[:i] + rng.choice(FOREIGN) + p[i + 1:]


# ------------------------------------------------------------------ observation

def _elems(v):
    return [[[KEYS.get(k, 9), S(t)] for k, t in d.items()] for d in v]


def _parsed(r):
    g = r.digit_groups
    return [r.picture_size, S(g[0]), S(g[1]), S(g[2]), S(g[3]), bool(r.zoned_decimal), _elems(r.picture_elements)]


def observe(ctx, inp):
    from stingray import estruct, cobol_parser
    text = inp["text"] if isinstance(inp, dict) else inp
    out = _observe_string(text)
    if isinstance(inp, dict):
        import io
        sep = inp["sep"]
        other = text + chr(sep) if sep else text
        entry = f"       05  X PIC {text}{chr(sep) if sep else ''} USAGE DISPLAY.\n"
        hold = {}

        def gpic():
            dde = list(cobol_parser.structure(cobol_parser.dde_sentences(cobol_parser.reference_format(io.StringIO(entry)))))[0]
            hold["js"] = cobol_parser.JSONSchemaMaker().jsonschema(dde)
            return dde.clauses["picture"]
        g = observe_call(gpic, S)
        if "js" in hold:
            d_ent = observe_call(lambda: estruct.Representation.parse(hold["js"]["cobol"]), _parsed)
            g_conv = observe_call(lambda: hold["js"].get("conversion") == "decimal", bool)
        else:
            d_ent, g_conv = [2], [2]
        o2 = _observe_string(other)
        out.append([sep, g, d_ent, g_conv, o2[3], o2[5]])
    return out


def _observe_string(text):
    from stingray import estruct, cobol_parser
    applicable = text != "" and not any(ch.isspace() for ch in text)
    dn = observe_call(lambda: estruct.Representation.normalize_picture(text), _elems)
    if applicable:
        dp = observe_call(lambda: estruct.Representation.parse("PIC " + text), _parsed)
    else:
        dp = [2]
    gn = observe_call(lambda: cobol_parser.normalize_picture(text), _elems)

    def node():
        return cobol_parser.DDE("05", "X", clauses={"name": "X", "picture": text})

    gc1 = observe_call(lambda: cobol_parser.JSONSchemaMaker().json_type(node()).get("conversion") == "decimal", bool)
    gc2 = observe_call(lambda: cobol_parser.JSONSchemaMakerExtendedVocabulary().json_type(node()).get("type") == "decimal", bool)
    return [S(text), applicable, dn, dp, gn, gc1, gc2]


def describe(inp):
    if isinstance(inp, dict):
        return f"entry: 05 X PIC {inp['text']}{chr(inp['sep']) if inp['sep'] else ''} USAGE DISPLAY."
    return repr(inp)
