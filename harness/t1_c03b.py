"""T1 plug-in for C03 / C03b: how the text-format unpackers open their file -> coq/Gen/CsvOpenParams.v.

coq/Model/Csv.v ([lib_reader]) and coq/Model/Ndjson.v ([ndjson_lines]) choose the text layer of the file by the two
booleans emitted here, so removing newline='' from CSVUnpacker.open changes the model (the library's reader becomes
csv.reader over a universal-newlines file) and coq/Proofs/CsvP.v lib_roundtrip - and with it the facade theorems of
coq/Props/C03.v for tables with carriage returns - stops compiling.

Recognised, for CSVUnpacker.open and JSONUnpacker.open of src/stingray/workbook.py (docstring skipped, typing.cast(T, x)
read as x; anything else is refused and the pinned text is used):

    if file_object:
        self.the_file = file_object
    else:
        self.the_file = name.open(MODE [, newline=NL])         # also: open(name, MODE [, newline=NL])

  MODE  the first positional argument or the keyword mode: Mode.TEXT (with Mode.TEXT = "r" | "rt" in
        src/stingray/schema_instance.py) or the literal "r" | "rt"
  NL    absent or None  -> universal newlines (CR LF and CR arrive as LF): false
        ""              -> line ends kept as they are: true
        any other value (a specific line end) or any other keyword (encoding, errors, ...) is refused
and CSV_Workbook.__init__ / JSON_Workbook.__init__ must bind self.unpacker = CSVUnpacker() / JSONUnpacker() and call
self.unpacker.open(self.name, ...).
"""
import ast
import copy
from translate import Unrecognised, _parse


class _Uncast(ast.NodeTransformer):
    def visit_Call(self, node):
        self.generic_visit(node)
        if isinstance(node.func, ast.Name) and node.func.id == "cast" and len(node.args) == 2 and not node.keywords:
            return node.args[1]
        return node


def _strip_doc(body):
    if body and isinstance(body[0], ast.Expr) and isinstance(body[0].value, ast.Constant) and isinstance(body[0].value.value, str):
        return body[1:]
    return body


def _class(tree, name):
    found = [n for n in tree.body if isinstance(n, ast.ClassDef) and n.name == name]
    if len(found) != 1:
        raise Unrecognised(f"class {name} not found exactly once")
    return found[0]


def _method(cls, name):
    found = [n for n in cls.body if isinstance(n, (ast.FunctionDef, ast.AsyncFunctionDef)) and n.name == name]
    for n in cls.body:
        if isinstance(n, ast.Assign) and any(isinstance(t, ast.Name) and t.id == name for t in n.targets):
            raise Unrecognised(f"{cls.name}.{name} is rebound by an assignment")
    if len(found) != 1 or isinstance(found[0], ast.AsyncFunctionDef) or found[0].decorator_list:
        raise Unrecognised(f"{cls.name}.{name}: not exactly one plain definition")
    fn = _Uncast().visit(copy.deepcopy(found[0]))
    fn.body = _strip_doc(fn.body)
    return fn


def _is_self_attr(n, attr):
    return isinstance(n, ast.Attribute) and n.attr == attr and isinstance(n.value, ast.Name) and n.value.id == "self"


def _mode_text(src_tree_si):
    cls = _class(src_tree_si, "Mode")
    for n in cls.body:
        if isinstance(n, ast.Assign) and len(n.targets) == 1 and isinstance(n.targets[0], ast.Name) and n.targets[0].id == "TEXT":
            if isinstance(n.value, ast.Constant) and n.value.value in ("r", "rt"):
                return
            raise Unrecognised("Mode.TEXT is not 'r'")
    raise Unrecognised("Mode.TEXT not found")


def _newline_raw(tree, tree_si, unpacker, workbook):
    """True when <unpacker>.open opens the named file with newline='' , False for the default (universal newlines)"""
    fn = _method(_class(tree, unpacker), "open")
    params = [a.arg for a in fn.args.args]
    if params[:3] != ["self", "name", "file_object"] or fn.args.vararg or fn.args.posonlyargs:
        raise Unrecognised(f"{unpacker}.open: parameter list {params}")
    if len(fn.body) != 1 or not isinstance(fn.body[0], ast.If):
        raise Unrecognised(f"{unpacker}.open: body is not one if statement")
    st = fn.body[0]
    if not (isinstance(st.test, ast.Name) and st.test.id == "file_object"):
        raise Unrecognised(f"{unpacker}.open: condition")

    def assigned(stmts):
        if len(stmts) != 1 or not isinstance(stmts[0], ast.Assign) or len(stmts[0].targets) != 1 \
                or not _is_self_attr(stmts[0].targets[0], "the_file"):
            raise Unrecognised(f"{unpacker}.open: branch is not `self.the_file = ...`")
        return stmts[0].value

    given = assigned(st.body)
    if not (isinstance(given, ast.Name) and given.id == "file_object"):
        raise Unrecognised(f"{unpacker}.open: the given file object is not used as it is")
    call = assigned(st.orelse)
    if not isinstance(call, ast.Call):
        raise Unrecognised(f"{unpacker}.open: no open call")
    args = list(call.args)
    if isinstance(call.func, ast.Attribute) and call.func.attr == "open" and isinstance(call.func.value, ast.Name) \
            and call.func.value.id == "name":
        pass
    elif isinstance(call.func, ast.Name) and call.func.id == "open" and args and isinstance(args[0], ast.Name) and args[0].id == "name":
        args = args[1:]
    else:
        raise Unrecognised(f"{unpacker}.open: not name.open(...) / open(name, ...)")
    kw = {}
    for k in call.keywords:
        if k.arg is None or k.arg in kw:
            raise Unrecognised(f"{unpacker}.open: keyword arguments")
        kw[k.arg] = k.value
    if len(args) > 1 or (args and "mode" in kw):
        raise Unrecognised(f"{unpacker}.open: positional arguments")
    mode = args[0] if args else kw.pop("mode", None)
    if mode is None:
        pass                                                    # the default mode is 'r'
    elif isinstance(mode, ast.Constant) and mode.value in ("r", "rt"):
        pass
    elif isinstance(mode, ast.Attribute) and mode.attr == "TEXT" and isinstance(mode.value, ast.Name) and mode.value.id == "Mode":
        _mode_text(tree_si)
    else:
        raise Unrecognised(f"{unpacker}.open: mode {ast.dump(mode)}")
    nl = kw.pop("newline", None)
    if kw:
        raise Unrecognised(f"{unpacker}.open: keywords {sorted(kw)}")
    if nl is None or (isinstance(nl, ast.Constant) and nl.value is None):
        raw = False
    elif isinstance(nl, ast.Constant) and nl.value == "":
        raw = True
    else:
        raise Unrecognised(f"{unpacker}.open: newline={ast.dump(nl)}")
    # the workbook class really uses this unpacker and this open
    init = _method(_class(tree, workbook), "__init__")
    binds = [s for s in ast.walk(init) if isinstance(s, ast.Assign) and len(s.targets) == 1 and _is_self_attr(s.targets[0], "unpacker")]
    if len(binds) != 1 or not (isinstance(binds[0].value, ast.Call) and isinstance(binds[0].value.func, ast.Name)
                               and binds[0].value.func.id == unpacker and not binds[0].value.args and not binds[0].value.keywords):
        raise Unrecognised(f"{workbook}.__init__ does not bind self.unpacker = {unpacker}()")
    opens = [s for s in ast.walk(init) if isinstance(s, ast.Call) and isinstance(s.func, ast.Attribute) and s.func.attr == "open"
             and _is_self_attr(s.func.value, "unpacker")]
    if len(opens) != 1 or not opens[0].args or not _is_self_attr(opens[0].args[0], "name"):
        raise Unrecognised(f"{workbook}.__init__ does not call self.unpacker.open(self.name, ...)")
    return raw


def gen_CsvOpenParams(src):
    tree = _parse(src, "stingray/workbook.py")
    tree_si = _parse(src, "stingray/schema_instance.py")
    csv_raw = _newline_raw(tree, tree_si, "CSVUnpacker", "CSV_Workbook")
    json_raw = _newline_raw(tree, tree_si, "JSONUnpacker", "JSON_Workbook")
    b = lambda x: "true" if x else "false"
    return (
        "(* GENERATED by harness/t1_c03b.py from src/stingray/workbook.py CSVUnpacker.open / JSONUnpacker.open -- do not edit *)\n"
        "(* true: the file is opened with newline='' (line ends reach the reader as they are);\n"
        "   false: text mode with the default newline handling (CR LF and CR arrive as LF) *)\n"
        f"Definition csv_newline_raw : bool := {b(csv_raw)}.\n"
        f"Definition ndjson_newline_raw : bool := {b(json_raw)}.\n"
    )


GENERATORS = {"CsvOpenParams": gen_CsvOpenParams}
