"""C02 - mainframe encodings decode to exactly the value that was stored (estruct.unpack, EBCDIC.value)."""
import itertools
import re
from codec_common import *

GEN = ["EstructParams", "Cp037", "TextCodec", "PictureParams", "ConversionParams"]
RULE = ("round trips: the runner writes the mainframe encoding of (digits, sign) / an integer / bytes, the judge first checks the bytes ARE "
        "the specification's encoding (Spec/Encode.v), then compares the implementation's result with the stored value and with the model. "
        "Streams: all valid 1-2 byte packed buffers, all 1-2 byte zoned buffers, all 65536 halfwords, all 256 text bytes (exhaustive); every (m,n) with "
        "m+n<=18 (31 packed) x every sign nibble with zero/max/random digits; boundary and random fullwords/doublewords; random text. "
        "Text branch for ANY picture (kind 5): edited and alphanumeric pictures from C13's grammar generators x buffers that respect the classes "
        "of the picture symbols, COBOL-style buffers (blank for a suppressed zero), one-position mutations, random bytes, short and surplus buffers; "
        "all 256 byte values at every position of five pictures (exhaustive); pictures holding a + (known finding K-text-plus-sign). "
        "TextUnpacker at the value level (kinds 6, 7): text records through schema_iter / SchemaMaker / TextUnpacker().nav().name().value(), the field "
        "holding the decimal text of a value (every sign, point position, padding) or arbitrary text; Struct().value on binary and DISPLAY items (kind 8). "
        "Non-trivial = every case except the strings the Decimal model leaves out (branches 799, 899); distinct = distinct case lines.")
TRIVIAL_BRANCHES = [799, 899]
ASSUMPTIONS = ["struct.unpack('>h'/'>i'/'>q') is big-endian two's complement (modelled; exhaustive over halfwords every run)",
               "bytes.decode('cp037') is code page 037 (table regenerated from the CPython codec every run)",
               "decimal default context: precision 28, ROUND_HALF_EVEN",
               "how a PICTURE string yields (signed, integer digits, fraction digits) is the scanner's business (C13); here the clause text is printed from those numbers",
               "re (CPython 3.11+): a + copied into the pattern is a quantifier, a second one makes it possessive, a third is re.error; \\d \\w \\s are the str classes "
               "(\\w, \\s spelled out in Model/Estruct.v for code points below 256; tied by the all-bytes-at-every-position stream)",
               "Decimal(str) is the C implementation's grammar (strip, underscores dropped, Nd digits, one point, optional exponent); NaN / Infinity spellings "
               "and exponents of more than 15 digits are outside the model (branch 799)",
               "struct.unpack in native mode: h/i/q are 2/4/8 bytes in sys.byteorder; float formats are outside the model (branch 899)"]
SIGNS = [0xA, 0xB, 0xC, 0xD, 0xE, 0xF]


def inputs(ctx):
    rng = ctx.rng
    quick = ctx.tier == "quick"
    # ---- exhaustive small packed: 1 byte (1 digit), 2 bytes (3 digits and 2 digits + pad)
    ctx.exhaustive += ["packed_valid_1-2_bytes", "zoned_valid_1-2_bytes", "binary_halfwords", "text_single_bytes"]
    for L in (1, 2, 3):
        for ds in itertools.product(range(10), repeat=L):
            for s in SIGNS:
                n = rng.randint(0, L)
                yield "packed-small", dict(k=1, usage=PACKED[(sum(ds) + s) % 3], signed=bool(s & 1), m=L - n, n=n, ds=list(ds), s=s, nav=(sum(ds) % 7 == 0))
    for L in (1, 2):
        for ds in itertools.product(range(10), repeat=L):
            for z in SIGNS:
                n = rng.randint(0, L)
                yield "zoned-small", dict(k=2, usage=DISPLAY, signed=False, m=L - n, n=n, ds=list(ds), s=z, nav=(sum(ds) % 5 == 0))
    # ---- every (m, n), every sign
    for total, kinds in [(31, (1,)), (18, (2,))]:
        for m in range(0, total + 1):
            for n in range(0, total + 1 - m):
                if m + n == 0:
                    continue
                for s in SIGNS:
                    choices = [[0] * (m + n), [9] * (m + n), [rng.randrange(10) for _ in range(m + n)]]
                    if not quick:
                        choices += [[rng.randrange(10) for _ in range(m + n)] for _ in range(3)]
                    for ds in choices:
                        for k in kinds:
                            signed = rng.random() < 0.6
                            if k == 1:
                                yield "packed-mn", dict(k=1, usage=rng.choice(PACKED), signed=signed, m=m, n=n, ds=ds, s=s, nav=rng.random() < 0.1)
                            else:
                                # a signed DISPLAY item is one position wider (the project counts the S): leading zero
                                dz = ([0] + ds) if signed else ds
                                yield "zoned-mn", dict(k=2, usage=DISPLAY, signed=signed, m=m, n=n, ds=dz, s=s, nav=rng.random() < 0.1)
    # ---- binary: all halfwords for 1-4 digit pictures
    for v in range(-32768, 32768):
        d = 1 + (v % 4)
        n = v % (d + 1)
        yield "binary-half", dict(k=3, usage=BINARY[v % 5], signed=bool(v & 8), m=d - n, n=n, w=2, v=v, nav=(v % 997 == 0))
    for w, lo_d, hi_d in [(4, 5, 9), (8, 10, 18)]:
        top = 1 << (8 * w - 1)
        vals = [0, 1, -1, top - 1, -top, top - 2, -top + 1, 255, 256, -256, 65535, 65536, -65536]
        vals += [rng.randrange(-top, top) for _ in range(300 if quick else 5000)]
        for v in vals:
            d = rng.randint(lo_d, hi_d)
            n = rng.randint(0, d)
            yield f"binary-{w}", dict(k=3, usage=rng.choice(BINARY), signed=rng.random() < 0.5, m=d - n, n=n, w=w, v=v, nav=rng.random() < 0.1)
    # ---- text
    for b in range(256):
        yield "text-byte", dict(k=4, usage=DISPLAY, kk=1, buf=[b], nav=True)
    for _ in range(300 if quick else 5000):
        kk = rng.randint(1, 40)
        yield "text-random", dict(k=4, usage=DISPLAY, kk=kk, buf=[rng.randrange(256) for _ in range(kk)], nav=rng.random() < 0.1)
    # ---- text branch for any picture, the text unpacker, the native-bytes unpacker
    yield from text_any_inputs(ctx)
    yield from text_unpacker_inputs(ctx)
    yield from struct_inputs(ctx)


# ---------------------------------------------------------------- text branch, any picture (kind 5)

_REPEAT = re.compile(r"([AX9Z0])\((\d+)\)")
CP037_OF = {}


def expand(pic):
    """the picture symbols one by one (repeat counts written out, V dropped, DB / CR kept as two letters)"""
    return _REPEAT.sub(lambda m: m.group(1) * int(m.group(2)), pic).replace("V", "")


def is_text_picture(pic):
    """by construction of the generators: some symbol other than S 9 V"""
    return any(ch not in "S9" for ch in expand(pic))


def cp037_byte(ch):
    if not CP037_OF:
        for b in range(256):
            CP037_OF[bytes([b]).decode("cp037")] = b
    return CP037_OF[ch]


LETTERS = "ABCXYZabcxyz_0189" + "\xe9\xb2\xaa\xff\xbd"
BLANKS = " \t\n\x0b\x0c\r\x1c\x1f\x85\xa0"


def fitting_char(rng, sym, style):
    """a character of the class the implementation admits for this picture symbol (style 0), or what a COBOL
    program stores there (style 1: zero suppression, floating insertion, blank sign)"""
    if sym in "9":
        return rng.choice("0123456789")
    if sym in "Z0":
        if style == 1 and rng.random() < 0.5:
            return " " if sym == "Z" else "0"
        return rng.choice("0123456789")
    if sym == "A":
        return rng.choice(LETTERS)
    if sym == "X":
        return bytes([rng.randrange(256)]).decode("cp037")
    if sym == "B":
        return rng.choice(BLANKS) if style == 0 else " "
    if sym == "S":
        return rng.choice(" +-")
    if sym == "+":
        return rng.choice("+-")
    if style == 1 and sym in "$*,-" and rng.random() < 0.4:
        return rng.choice(" *$0")
    if style == 1 and sym in "CRDB" and rng.random() < 0.4:
        return " "
    return sym


def fitting_buffer(rng, pic, style=0):
    return [cp037_byte(fitting_char(rng, sym, style)) for sym in expand(pic)]


ALL_BYTES_PICTURES = ["$Z,ZZ9.99-", "AXB9/0*DB", "S99.9", "X(2)A(2)", "ZZ9CR"]
PLUS_PICTURES = ["+99", "99+", "9+9", "+++9", "99++", "S+9.9", "99+++", "+ZZ9.99", "ZZ9.99+", "9+.9", "$+9", "B++", "S++9", "+", "-+", "X+", "A++B"]
OPTSIGN_PICTURES = ["S99.99", "S9.9", "SZZ9", "S$99", "SX", "9S.9", "S9(3).9(2)", "SB9", "S0", "SXS"]


def text_picture(rng):
    from c13 import edited_picture, alnum_picture, _RUN_THEN_COUNT
    for _ in range(50):
        pic = edited_picture(rng) if rng.random() < 0.75 else alnum_picture(rng)
        # a run of picture characters followed by a count (XX(3)) is refused by the scanner (C13): not a picture of this domain
        if "+" not in pic and is_text_picture(pic) and len(expand(pic)) <= 60 and not _RUN_THEN_COUNT.search(pic):
            return pic
    return "ZZ9"


def text_any_inputs(ctx):
    rng = ctx.rng
    quick = ctx.tier == "quick"
    ctx.exhaustive += ["text_all_256_bytes_at_every_position_of_" + "_".join(ALL_BYTES_PICTURES)]
    for pic in ALL_BYTES_PICTURES:
        base = fitting_buffer(rng, pic)
        for pos in range(len(base)):
            for b in range(256):
                yield "text-allbytes", dict(k=5, pic=pic, buf=base[:pos] + [b] + base[pos + 1:], nav=(b % 64 == pos % 64))
    for i in range(700 if quick else 12000):
        pic = rng.choice(OPTSIGN_PICTURES) if i % 10 == 9 else text_picture(rng)
        n = len(expand(pic))
        yield "text-edited-fit", dict(k=5, pic=pic, buf=fitting_buffer(rng, pic), nav=rng.random() < 0.15)
        yield "text-edited-cobol", dict(k=5, pic=pic, buf=fitting_buffer(rng, pic, 1), nav=rng.random() < 0.1)
        buf = fitting_buffer(rng, pic)
        if buf:
            buf[rng.randrange(len(buf))] = rng.randrange(256)
        yield "text-edited-mutated", dict(k=5, pic=pic, buf=buf, nav=rng.random() < 0.1)
        yield "text-edited-random", dict(k=5, pic=pic, buf=[rng.randrange(256) for _ in range(n)], nav=rng.random() < 0.1)
        if i % 3 == 0:
            full = fitting_buffer(rng, pic)
            yield "text-edited-short", dict(k=5, pic=pic, buf=full[:rng.randint(0, max(0, n - 1))], nav=False)
            yield "text-edited-surplus", dict(k=5, pic=pic, buf=full + [rng.randrange(256) for _ in range(rng.randint(1, 4))], nav=False)
    for i in range(150 if quick else 2000):
        pic = rng.choice(PLUS_PICTURES)
        n = len(expand(pic))
        yield "text-plus", dict(k=5, pic=pic, buf=fitting_buffer(rng, pic), nav=(i % 7 == 0))
        # what matches the quantified expression: the previous character repeated into the + position
        buf = fitting_buffer(rng, pic)
        syms = expand(pic)
        for j in range(1, len(buf)):
            if syms[j] == "+" and rng.random() < 0.7:
                buf[j] = buf[j - 1]
        yield "text-plus", dict(k=5, pic=pic, buf=buf, nav=False)
        yield "text-plus", dict(k=5, pic=pic, buf=[rng.randrange(256) for _ in range(rng.randint(0, n + 2))], nav=False)


# ---------------------------------------------------------------- TextUnpacker at the value level (kinds 6, 7), Struct (kind 8)

def dec_text(sgn, ids, fds, point, lp, rp):
    """the specification's decimal text (Estruct.decimal_text); the judge checks the record against the Coq definition"""
    return " " * lp + ["", "+", "-"][sgn] + "".join(map(str, ids)) + (("." + "".join(map(str, fds))) if point else "") + " " * rp


def numeric_text_picture(rng):
    """S?9..9[V9..9] written out (the generator declares it a decimal); width = number of S and 9"""
    m = rng.randint(1, 12)
    n = rng.randint(0, 6)
    pic = ("S" if rng.random() < 0.5 else "") + "9" * m + (("V" + "9" * n) if n else "")
    return pic, len(pic.replace("V", ""))


ODD_TEXT = list("0123456789") * 3 + list("  ++--..eE__") + list("nNaAiIfFsStTyY") + ["\xa0", "\x85", "\uff11", "\u0663", "\x00", "\u2003", "x", ","]


def text_unpacker_inputs(ctx):
    rng = ctx.rng
    quick = ctx.tier == "quick"
    for i in range(1500 if quick else 20000):
        pic, width = numeric_text_picture(rng)
        # a value whose text fills at most the field
        sgn = rng.choice([0, 0, 1, 2, 2])
        room = width - (1 if sgn else 0)
        if room < 1:
            sgn, room = 0, width
        point = room >= 2 and rng.random() < 0.6
        digits = rng.randint(1, room - (1 if point else 0))
        nf = rng.randint(0, digits) if point else 0
        ds = [rng.randrange(10) for _ in range(digits)] if i % 9 else [0] * digits
        ids, fds = ds[:digits - nf], ds[digits - nf:]
        used = (1 if sgn else 0) + digits + (1 if point else 0)
        lp = rng.randint(0, width - used)
        k = rng.randint(1, 9)
        yield "textunpacker-decimal", dict(k=6, kk=k, pic=pic, sgn=sgn, ids=ids, fds=fds, point=point, lp=lp, rp=width - used - lp,
                                           pad=[rng.choice("ABC xyz019.-") for _ in range(k)], tail=rng.randint(0, 5))
    for i in range(1500 if quick else 20000):
        if i % 4 == 0:
            m = rng.randint(1, 9)
            pic, width = rng.choice([(f"9({m})", m), (f"X({m})", m), ("X" * m, m), (f"S9({m})", m + 1), (f"A({m})", m)])
        else:
            pic, width = numeric_text_picture(rng)
        k = rng.randint(1, 9)
        style = i % 5
        if style == 0:
            body = [rng.choice(ODD_TEXT) for _ in range(width)]
        elif style == 1:
            body = list(dec_text(rng.randrange(3), [rng.randrange(10) for _ in range(rng.randint(0, 3))],
                                 [rng.randrange(10) for _ in range(rng.randint(0, 3))], rng.random() < 0.7, rng.randint(0, 2), rng.randint(0, 2)))
            body = (body + [" "] * width)[:width]
            if rng.random() < 0.5 and body:
                body[rng.randrange(len(body))] = rng.choice(ODD_TEXT)
        elif style == 2:
            body = list(rng.choice(["NaN", "Inf", "-Infinity", "sNaN12", "1E5", "1e-3", "12E+4", "1E", "E5", ".", "-", "+.5", "5.", "1_0", "_1_", "1__2", "0.0", "-0", "-.0"]))
            body = ([" "] * rng.randint(0, max(0, width - len(body))) + body + [" "] * width)[:width]
        elif style == 3:
            body = [rng.choice("0123456789") for _ in range(width)]
        else:
            body = [chr(rng.choice([rng.randrange(32, 127), rng.randrange(0, 0x250), rng.randrange(0x600, 0x700)])) for _ in range(width)]
        short = rng.random() < 0.1
        yield "textunpacker-text", dict(k=7, kk=k, pic=pic, pad=[rng.choice("ABC xyz019.-") for _ in range(k)], body=body[: (rng.randint(0, width) if short else width)],
                                        tail=0 if short else rng.randint(0, 5))


STRUCT_KEYS = [None, "null", "bool", "integer", "number", "string", "decimal", "no-such-conversion"]


def struct_inputs(ctx):
    rng = ctx.rng
    quick = ctx.tier == "quick"
    for i in range(600 if quick else 8000):
        d = rng.randint(1, 20)
        nf = rng.randint(0, d)
        signed = rng.random() < 0.5
        pic = picture(signed, d - nf, nf, repeat=rng.random() < 0.5)
        usage = rng.choice(BINARY + BINARY + PACKED + [DISPLAY])
        if usage == DISPLAY and rng.random() < 0.5:
            pic = text_picture(rng)
        w = 2 if d < 5 else 4 if d < 10 else 8
        n = rng.choice([w, w, w, w, 2, 4, 8, rng.randint(0, 10)]) if usage != DISPLAY else rng.choice([len(expand(pic))] * 3 + [rng.randint(0, 12)])
        key = rng.choice([0, 0, 0, 3, 6, 5, 7, 1, 2, 4])
        yield "struct-value", dict(k=8, key=key, usage=usage, pic=pic, buf=[rng.randrange(256) for _ in range(n)])


_TEXT_SHARED = {}


def text_nav_obs(k, pic, record):
    """schema_iter / SchemaMaker / TextUnpacker().nav(schema, TextInstance(record)).name(NUM).value(), one long-lived unpacker"""
    from lib import observe_call
    def call():
        import io
        from stingray.cobol_parser import schema_iter
        from stingray.schema_instance import SchemaMaker, TextUnpacker, TextInstance
        text = ("       01  REC.\n"
                f"           05  PAD PIC X({k}).\n"
                f"           05  NUM PIC {pic}.\n"
                "           05  TAIL PIC X(5).\n")
        (js,) = list(schema_iter(io.StringIO(text)))
        schema = SchemaMaker.from_json(js)
        if "u" not in _TEXT_SHARED:
            _TEXT_SHARED["u"] = TextUnpacker()
        nav = _TEXT_SHARED["u"].nav(schema, TextInstance(record))
        return nav.name("NUM").value()
    return observe_call(call, canon)


def struct_obs(key, usage, pic, buffer):
    from lib import observe_call
    def call():
        from stingray.schema_instance import SchemaMaker, Struct
        doc = {"type": "string", "cobol": clause(usage, pic)}
        if STRUCT_KEYS[key] is not None:
            doc["conversion"] = STRUCT_KEYS[key]
        schema = SchemaMaker.from_json(doc)
        if "s" not in _TEXT_SHARED:
            _TEXT_SHARED["s"] = Struct()
        return _TEXT_SHARED["s"].value(schema, bytes(buffer))
    return observe_call(call, lambda v: [3, list(v)] if isinstance(v, bytes) else canon(v))


def observe(ctx, c):
    k = c["k"]
    if k == 5:
        from lib import S
        obs = unpack_obs(clause(DISPLAY, c["pic"]), c["buf"])
        nav = nav_obs(DISPLAY, c["pic"], c["buf"]) if (c["nav"] and len(c["buf"]) == len(expand(c["pic"]))) else [2]
        return [5, DISPLAY, S(c["pic"]), c["buf"], obs, nav]
    if k == 6:
        from lib import S
        ambient()
        record = "".join(c["pad"]) + dec_text(c["sgn"], c["ids"], c["fds"], c["point"], c["lp"], c["rp"]) + "t" * c["tail"]
        return [6, c["kk"], S(c["pic"]), c["sgn"], c["ids"], c["fds"], c["point"], c["lp"], c["rp"], S(record), text_nav_obs(c["kk"], c["pic"], record)]
    if k == 7:
        from lib import S
        ambient()
        record = "".join(c["pad"]) + "".join(c["body"]) + "t" * c["tail"]
        return [7, c["kk"], S(c["pic"]), S(record), text_nav_obs(c["kk"], c["pic"], record)]
    if k == 8:
        import sys
        from lib import S
        return [8, sys.byteorder == "little", c["key"], c["usage"], S(c["pic"]), c["buf"], struct_obs(c["key"], c["usage"], c["pic"], c["buf"])]
    if k in (1, 2):
        # pictures written with and without repeat notation
        pic = picture(c["signed"], c["m"], c["n"], repeat=(sum(c["ds"]) % 2 == 0))
        buf = enc_packed(c["ds"], c["s"]) if k == 1 else enc_zoned(c["ds"], c["s"])
        obs = unpack_obs(clause(c["usage"], pic), buf)
        width_ok = len(c["ds"]) == c["m"] + c["n"] + (1 if (k == 2 and c["signed"]) else 0)
        nav = nav_obs(c["usage"], pic, buf) if (c["nav"] and width_ok) else [2]
        return [k, c["usage"], c["signed"], c["m"], c["n"], c["ds"], c["s"], buf, obs, nav]
    if k == 3:
        pic = picture(c["signed"], c["m"], c["n"], repeat=(c["v"] % 2 == 0))
        buf = list(int(c["v"]).to_bytes(c["w"], "big", signed=True))
        obs = unpack_obs(clause(c["usage"], pic), buf)
        d = c["m"] + c["n"]
        # signed 4- and 9-digit binary items are laid out wider than their decoder accepts (C04 finding): no nav there
        nav = nav_obs(c["usage"], pic, buf) if (c["nav"] and not (c["signed"] and d in (4, 9))) else [2]
        return [3, c["usage"], c["signed"], c["m"], c["n"], c["w"], c["v"], buf, obs, nav]
    if k == 4:
        pic = f"X({c['kk']})" if c["kk"] % 2 else "X" * c["kk"]
        obs = unpack_obs(clause(c["usage"], pic), c["buf"])
        nav = nav_obs(c["usage"], pic, c["buf"]) if c["nav"] else [2]
        return [4, c["usage"], c["kk"], c["buf"], obs, nav]


def describe(c):
    return c
