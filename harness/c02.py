"""C02 - mainframe encodings decode to exactly the value that was stored (estruct.unpack, EBCDIC.value)."""
import itertools
from codec_common import *

GEN = ["EstructParams", "Cp037", "TextCodec"]
RULE = ("round trips: the runner writes the mainframe encoding of (digits, sign) / an integer / bytes, the judge first checks the bytes ARE "
        "the specification's encoding (Spec/Encode.v), then compares the implementation's result with the stored value and with the model. "
        "Streams: all valid 1-2 byte packed buffers, all 1-2 byte zoned buffers, all 65536 halfwords, all 256 text bytes (exhaustive); every (m,n) with "
        "m+n<=18 (31 packed) x every sign nibble with zero/max/random digits; boundary and random fullwords/doublewords; random text. "
        "Non-trivial = every case (branch = stream*100 + size); distinct = distinct case lines.")
TRIVIAL_BRANCHES = []
ASSUMPTIONS = ["struct.unpack('>h'/'>i'/'>q') is big-endian two's complement (modelled; exhaustive over halfwords every run)",
               "bytes.decode('cp037') is code page 037 (table regenerated from the CPython codec every run)",
               "decimal default context: precision 28, ROUND_HALF_EVEN",
               "how a PICTURE string yields (signed, integer digits, fraction digits) is the scanner's business (C13); here the clause text is printed from those numbers"]
SIGNS = [0xA, 0xB, 0xC, 0xD, 0xE, 0xF]


def inputs(ctx):
    rng = ctx.rng
    quick = ctx.tier == "quick"
    # ---- exhaustive small packed: 1 byte (1 digit), 2 bytes (3 digits and 2 digits + pad)
    ctx.exhaustive += ["packed_valid_1-2_bytes", "zoned_valid_1-2_bytes", "binary_halfwords", "text_single_bytes"]
    for L in (1, 2, 3):
        for ds in itertools.product(range(10), repeat=L):
            for s in SIGNS:
                n = rng.randint(0, L)
                yield "packed-small", dict(k=1, usage=PACKED[(sum(ds) + s) % 3], signed=bool(s & 1), m=L - n, n=n, ds=list(ds), s=s, nav=(sum(ds) % 7 == 0))
    for L in (1, 2):
        for ds in itertools.product(range(10), repeat=L):
            for z in SIGNS:
                n = rng.randint(0, L)
                yield "zoned-small", dict(k=2, usage=DISPLAY, signed=False, m=L - n, n=n, ds=list(ds), s=z, nav=(sum(ds) % 5 == 0))
    # ---- every (m, n), every sign
    for total, kinds in [(31, (1,)), (18, (2,))]:
        for m in range(0, total + 1):
            for n in range(0, total + 1 - m):
                if m + n == 0:
                    continue
                for s in SIGNS:
                    choices = [[0] * (m + n), [9] * (m + n), [rng.randrange(10) for _ in range(m + n)]]
                    if not quick:
                        choices += [[rng.randrange(10) for _ in range(m + n)] for _ in range(3)]
                    for ds in choices:
                        for k in kinds:
                            signed = rng.random() < 0.6
                            if k == 1:
                                yield "packed-mn", dict(k=1, usage=rng.choice(PACKED), signed=signed, m=m, n=n, ds=ds, s=s, nav=rng.random() < 0.1)
                            else:
                                # a signed DISPLAY item is one position wider (the project counts the S): leading zero
                                dz = ([0] + ds) if signed else ds
                                yield "zoned-mn", dict(k=2, usage=DISPLAY, signed=signed, m=m, n=n, ds=dz, s=s, nav=rng.random() < 0.1)
    # ---- binary: all halfwords for 1-4 digit pictures
    for v in range(-32768, 32768):
        d = 1 + (v % 4)
        n = v % (d + 1)
        yield "binary-half", dict(k=3, usage=BINARY[v % 5], signed=bool(v & 8), m=d - n, n=n, w=2, v=v, nav=(v % 997 == 0))
    for w, lo_d, hi_d in [(4, 5, 9), (8, 10, 18)]:
        top = 1 << (8 * w - 1)
        vals = [0, 1, -1, top - 1, -top, top - 2, -top + 1, 255, 256, -256, 65535, 65536, -65536]
        vals += [rng.randrange(-top, top) for _ in range(300 if quick else 5000)]
        for v in vals:
            d = rng.randint(lo_d, hi_d)
            n = rng.randint(0, d)
            yield f"binary-{w}", dict(k=3, usage=rng.choice(BINARY), signed=rng.random() < 0.5, m=d - n, n=n, w=w, v=v, nav=rng.random() < 0.1)
    # ---- text
    for b in range(256):
        yield "text-byte", dict(k=4, usage=DISPLAY, kk=1, buf=[b], nav=True)
    for _ in range(300 if quick else 5000):
        kk = rng.randint(1, 40)
        yield "text-random", dict(k=4, usage=DISPLAY, kk=kk, buf=[rng.randrange(256) for _ in range(kk)], nav=rng.random() < 0.1)


def observe(ctx, c):
    k = c["k"]
    if k in (1, 2):
        # pictures written with and without repeat notation
        pic = picture(c["signed"], c["m"], c["n"], repeat=(sum(c["ds"]) % 2 == 0))
        buf = enc_packed(c["ds"], c["s"]) if k == 1 else enc_zoned(c["ds"], c["s"])
        obs = unpack_obs(clause(c["usage"], pic), buf)
        width_ok = len(c["ds"]) == c["m"] + c["n"] + (1 if (k == 2 and c["signed"]) else 0)
        nav = nav_obs(c["usage"], pic, buf) if (c["nav"] and width_ok) else [2]
        return [k, c["usage"], c["signed"], c["m"], c["n"], c["ds"], c["s"], buf, obs, nav]
    if k == 3:
        pic = picture(c["signed"], c["m"], c["n"], repeat=(c["v"] % 2 == 0))
        buf = list(int(c["v"]).to_bytes(c["w"], "big", signed=True))
        obs = unpack_obs(clause(c["usage"], pic), buf)
        d = c["m"] + c["n"]
        # signed 4- and 9-digit binary items are laid out wider than their decoder accepts (C04 finding): no nav there
        nav = nav_obs(c["usage"], pic, buf) if (c["nav"] and not (c["signed"] and d in (4, 9))) else [2]
        return [3, c["usage"], c["signed"], c["m"], c["n"], c["w"], c["v"], buf, obs, nav]
    if k == 4:
        pic = f"X({c['kk']})" if c["kk"] % 2 else "X" * c["kk"]
        obs = unpack_obs(clause(c["usage"], pic), c["buf"])
        nav = nav_obs(c["usage"], pic, c["buf"]) if c["nav"] else [2]
        return [4, c["usage"], c["kk"], c["buf"], obs, nav]


def describe(c):
    return c
